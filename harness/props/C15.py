"""C15 - array, object and string functions obey their sequence/map/string contracts.

Three parties are compared on every call of every generated history:

  * the IMPLEMENTATION, driven through scripts (one `v<k> = f(args...)` statement per call, a host function `__snap()`
    after each of them records the state of all script variables, containers by identity);
  * a pure-Python REFERENCE written from the documented contracts (`Ref` below: list/dict/str operations on a shadow copy
    of the pool that has the same aliasing) - the property's own oracle, independent of the Lean model;
  * the Lean MODEL (`BareModel/Lib.lean`, driver op "history"), the subject of the theorems of `BareProofs/C15.lean`.

implementation vs reference  -> ctx.witness   (a concrete history on which the property fails on the real code)
implementation vs model      -> ctx.compare   (the theorems no longer speak about this code)

Stream `lib-through-machine`: the same histories as script text, parsed and executed by the implementation and by the Lean jump
MACHINE whose library is that model (`BareModel/HostLib.lean`, second driver `drv_hostlib`, op "exec" on the parsed statement
list with the initial pool and its aliasing) - the tie for the machine-level theorems of `BareProofs/HostLibBridge.lean`.

Call-backs (added after seeding round 4): the pool holds script-defined functions (MATCHERS, defined by the implementation's own
parser/runtime) and host functions whose results range over every value class; the reference gives the match-function form of
arrayIndexOf / arrayLastIndexOf its contract (match_pred: the returned value read with the language's truth rules) - stream
`callbacks` (every function x every element class, exhaustive, + random arrays) and ~30% of the searches of the `lib` stream.
Stream `sort`: arraySort (outside the Lean model) against the sequence contract of a sort, with and without compare call-backs.

Function values (added after seeding rounds 5 and 6, stream `function-values`): calls issued THROUGH a function value - a library
function bound with systemPartial and called repeatedly (no / some / wrong / surplus extra arguments, again after a failed call), bound
again, passed as a match function; library functions themselves as match functions; script functions with a last-argument array that
record, change or return the array of arguments of every call (RECORDERS) as match functions, bound or called by name - against the
reference (RefFn / FvWorld: the direct call with bound + extra arguments, a fresh argument array per call) and, where its library can
express the history, against the Lean jump machine over HostLib.hostLib.  The `sort` stream has recording compare functions too.
Text without a UTF-8 form (streams `lib-surrogates`, `text-surrogates`): strings, keys and character codes with lone surrogates,
implementation-side against the Python reference only (a Lean Char cannot be a surrogate).
Boundary families and hidden state (added after seeding rounds 8 and 9): stream `empties` (the empty string / array / object / key / rest list in every
argument position of every function, full product), stream `code-points` (strings built by stringFromCharCode from every single code, every ordered
pair and chosen longer sequences of the UTF-8-length / surrogate / BMP / range boundary code points, taken apart again by every string function) and
stream `history-independence` (implementation-side: every probe call must give the same result alone in a FRESH instance of the implementation
package and inside several differently ordered histories - probes over the host-equal but distinct values 0.0 / -0.0 / 0 / False, 1.0 / 1 / True, ...,
with a scale axis of calls formatting 0..4097 distinct floats, and every container-returning call issued twice with the first result changed).
"""

import copy
import datetime
import importlib
import itertools
import json
import os
import re
import sys
import urllib.parse
from fractions import Fraction

import fw
import progen   # execution-stream helpers (canonical model form of a parsed script), used by the lib-through-machine stream

ID = 'C15'
LEVEL = 'proof'
LEAN_TARGETS = ['BareProofs.C15', 'BareProofs.HostLibBridge']
DRIVER = 'drv_c15'
DRIVER_ROOT = 'Drv.C15'
EXTRA_TARGETS = ['drv_hostlib']      # second execution driver (Drv/HostLibDrv.lean): the jump machine over HostLib.hostLib
GEN = ['Args', 'LibFns']
THEOREMS = [
    'C15.sig_table', 'C15.fail_table', 'C15.raw_table',
    'C15.bodies_shape', 'C15.lib_frame', 'C15.lib_frame_kind', 'C15.lib_length', 'C15.lib_fresh',
    'C15.lib_fail_unchanged', 'C15.lib_invalid_fails', 'C15.validate_num', 'C15.lib_spec_partial',
    'C15.history_refines', 'C15.history_env', 'C15.history_frame', 'C15.alias_same',
    'C15.dictGet_dictSet', 'C15.dictGet_dictDel', 'C15.dictSet_keys',
    'C15.findFrom_spec', 'C15.lastMatch_spec', 'C15.split_join', 'C15.replace_split_join',
    'C15.regexEscape_literal', 'C15.regexEscape_call', 'C15.urlEncode_reversible', 'C15.urlEncode_call', 'C15.quoteByte_ascii',
    # the library model as the library of the machine (BareModel/HostLib.lean, BareProofs/HostLibBridge.lean)
    'HostLib.decFn_encFn', 'HostLib.encFn_decFn', 'HostLib.ofLib_toLib', 'HostLib.toLib_ofLib', 'HostLib.ofImpl_toImpl',
    'HostLib.toImpl_ofImpl', 'HostLib.lib_call_is_lib', 'HostLib.lib_call_is_step', 'HostLib.callValue_lib',
    'HostLib.machine_lib_frame', 'HostLib.machine_lib_fresh', 'HostLib.machine_lib_fail_unchanged',
    'HostLib.machine_lib_unmodelled', 'HostLib.machine_lib_heap', 'HostLib.machine_history_refines',
    'HostLib.machine_history_refines_execute', 'HostLib.rel_initState', 'HostLib.namesOK_vName', 'HostLib.namesOK_gen',
    'HostLib.hostLib_truthyBool', 'HostLib.hostLib_noGlobalSet_except_system', 'HostLib.hostLib_other_noGlobalSet',
]
ASSUMPTIONS = [
    'CPython str methods find/rfind/split/replace/strip/startswith/endswith and list/dict primitives behave as modelled over code points '
    '(pyFind, pyRFind, pySplit, pyReplace, pyStrip, pyGetItem, pySlice, dictSet ...): tied by the lib stream, not verified',
    're.escape escapes exactly re._special_chars_map and urllib.parse.quote leaves exactly _ALWAYS_SAFE + safe unquoted '
    '(both tables are re-extracted from the running CPython on every run into Gen/LibFns.lean)',
    'str.isspace code points are those enumerated from the running CPython (Gen.pySpace)',
    'numbers are finite (every finite int/float is an exact rational); int vs float spelling is the subject of C12, not C15',
    'strings contain no lone surrogates (not representable as Lean Char); stringFromCharCode of a surrogate is unmodelled - in the Lean '
    'model and the streams compared with it; the implementation-only streams lib-surrogates / text-surrogates run such text against the Python reference',
    'containers are acyclic (finding F18: a container reachable from itself breaks value_json/value_compare); generators never build cycles',
]
TRUSTED = [
    'the pure-Python reference Ref in harness/props/C15.py (written from the documented contracts) is the oracle that turns a '
    'behavioural change into a witness',
]

UTC = datetime.timezone.utc
EPOCH = datetime.datetime(1970, 1, 1, tzinfo=UTC)


def _fn0(unused_args, unused_options):
    return None


def _fn1(unused_args, unused_options):
    return None


REGEXES = [re.compile('a'), re.compile('b+')]
REGEX_TYPE = type(REGEXES[0])
DT2020 = datetime.datetime(2020, 1, 1, tzinfo=datetime.timezone.utc)


# ---------------------------------------------------------------------------------------------------------------------
# Function values of the pool: call-backs handed to the library (match function of arrayIndexOf / arrayLastIndexOf, compare
# function of arraySort).  `{"f": i}` in protocol form:  i = 0, 1 the two opaque host functions above (they return null);
# 2 .. 2+len(MATCHERS)-1 the SCRIPT-DEFINED functions of MATCHERS (defined by the implementation's own parser/runtime from
# MATCHER_PRELUDE, i.e. what a script author writes); then one HOST twin per matcher (a Python callable of the embedding
# application that returns the reference result) and HOST_ONLY (results a script cannot spell: host ints, function/regex values).
# Every entry carries its reference semantics  element -> returned value  written from the function text; what the LIBRARY
# does with the returned value (judge it with the language's truth rules) is the thing under test.  The results range over
# every value class: null, false/true, 0/non-zero/fractional/negative numbers, ''/non-empty strings, []/non-empty arrays,
# {}/non-empty objects, datetime, function, regex - for constant functions and for functions of the element.
# ---------------------------------------------------------------------------------------------------------------------

def _is_num(x):
    return isinstance(x, (int, float)) and not isinstance(x, bool)


def _truthy(x):
    """The truth rules of the language (documentation of `if` / systemBoolean): null, false, 0, '' and [] are false - all else true."""
    if x is None:
        return False
    if isinstance(x, bool):
        return x
    if _is_num(x):
        return x != 0
    if isinstance(x, (str, list)):
        return len(x) > 0
    return True


# (name, parameter list text, body lines, reference  element -> value)
MATCHERS = [
    ('mNoReturn', 'x', ['y = x'], lambda x: None),
    ('mId', 'x', ['return x'], lambda x: x),
    ('mNot', 'x', ['return !x'], lambda x: not _truthy(x)),
    ('mNull', 'x', ['return null'], lambda x: None),
    ('mFalse', 'x', ['return false'], lambda x: False),
    ('mTrue', 'x', ['return true'], lambda x: True),
    ('mZero', 'x', ['return 0'], lambda x: 0.0),
    ('mOne', 'x', ['return 1'], lambda x: 1.0),
    ('mHalf', 'x', ['return 0.5'], lambda x: 0.5),
    ('mNeg', 'x', ['return 0 - 1'], lambda x: -1.0),
    ('mEmptyStr', 'x', ["return ''"], lambda x: ''),
    ('mStr', 'x', ["return 'false'"], lambda x: 'false'),
    ('mEmptyArr', 'x', ['return arrayNew()'], lambda x: []),
    ('mArrZero', 'x', ['return arrayNew(0)'], lambda x: [0.0]),
    ('mEmptyObj', 'x', ['return objectNew()'], lambda x: {}),
    ('mObj', 'x', ["return objectNew('a', null)"], lambda x: {'a': None}),
    ('mDate', 'x', ['return datetimeNew(2020, 1, 1)'], lambda x: DT2020),
    ('mRegex', 'x', ["return regexNew('a')"], lambda x: REGEXES[0]),
    ('mWrapArr', 'x', ['return arrayNew(x)'], lambda x: [x]),
    ('mWrapObj', 'x', ["return objectNew('v', x)"], lambda x: {'v': x}),
    ('mGetA', 'x', ["return objectGet(x, 'a')"], lambda x: x['a'] if isinstance(x, dict) and 'a' in x else None),
    ('mGetADefault', 'x', ["return objectGet(x, 'a', objectNew())"], lambda x: x['a'] if isinstance(x, dict) and 'a' in x else {}),
    ('mKeys', 'x', ['return objectKeys(x)'], lambda x: list(x) if isinstance(x, dict) else None),
    ('mObjCopy', 'x', ['return objectCopy(x)'], lambda x: dict(x) if isinstance(x, dict) else None),
    ('mArrCopy', 'x', ['return arrayCopy(x)'], lambda x: list(x) if isinstance(x, list) else None),
    ('mArrLen', 'x', ['return arrayLength(x)'], lambda x: float(len(x)) if isinstance(x, list) else 0.0),
    ('mStrLen', 'x', ['return stringLength(x)'], lambda x: float(len(x)) if isinstance(x, str) else 0.0),
    ('mIsStr', 'x', ["return systemType(x) == 'string'"], lambda x: isinstance(x, str)),
    ('mIsObj', 'x', ["return systemType(x) == 'object'"], lambda x: isinstance(x, dict)),
    ('mType', 'x', ['return systemType(x)'], lambda x: 'type-name'),
    ('mGt1', 'x', ["return systemType(x) == 'number' && x > 1"], lambda x: _is_num(x) and x > 1),
    ('mIfObjArr', 'x', ['return if(x, objectNew(), arrayNew())'], lambda x: {} if _truthy(x) else []),
    ('mBranch', 'x', ['if x:', '    return objectNew()', 'endif', "return ''"], lambda x: {} if _truthy(x) else ''),
    ('mNoParam', '', ['return objectNew()'], lambda x: {}),                  # surplus call-back argument
    ('mSecond', 'x, y', ['return y'], lambda x: None),                       # missing call-back argument
    ('mSecondOr', 'x, y', ['return y || objectCopy(x)'], lambda x: dict(x) if isinstance(x, dict) else None),
    ('mRest', 'x...', ['return x'], lambda x: [x]),                          # last-argument-array call-backs
    ('mRestTail', 'x, y...', ['return y'], lambda x: []),
]
MATCHER_PRELUDE = '\n'.join(f'function {name}({params}):\n' + '\n'.join('    ' + ln for ln in body) + '\nendfunction'
                            for name, params, body, _ in MATCHERS)
HOST_ONLY = [
    ('hIntZero', lambda x: 0), ('hIntOne', lambda x: 1), ('hNegZero', lambda x: -0.0), ('hFn', lambda x: _fn0),
    ('hRegex', lambda x: REGEXES[1]), ('hDate', lambda x: EPOCH), ('hIsNone', lambda x: x is None),
]
FN_REFS = [lambda x: None, lambda x: None] + [m[3] for m in MATCHERS] + [m[3] for m in MATCHERS] + [h[1] for h in HOST_ONLY]
FN_NAMES = ['fn0', 'fn1'] + [m[0] for m in MATCHERS] + ['host:' + m[0] for m in MATCHERS] + ['host:' + h[0] for h in HOST_ONLY]
NFN = len(FN_REFS)
FN_SCRIPT0 = 2                       # first script-defined function
FN_HOST0 = 2 + len(MATCHERS)         # first host twin


def _host_fn(ref):
    def host(args, unused_options):
        return ref(args[0] if args else None)
    return host


_FN_CACHE = {}


def fns():
    """The function values, index = protocol id (built once per loaded implementation: the script functions are the objects the
    implementation's runtime creates for `function` statements)."""
    mods = fw.impl()
    if _FN_CACHE.get('mods') is not mods:
        glob = {}
        mods['runtime'].execute_script(mods['parser'].parse_script(MATCHER_PRELUDE), {'globals': glob, 'maxStatements': 10000})
        table = [_fn0, _fn1] + [glob[m[0]] for m in MATCHERS] + [_host_fn(m[3]) for m in MATCHERS] + [_host_fn(h[1]) for h in HOST_ONLY]
        _FN_CACHE.update(mods=mods, fns=table, index={id(f): i for i, f in enumerate(table)})
    return _FN_CACHE['fns']


def fn_index(f):
    fns()
    return _FN_CACHE['index'].get(id(f), 99)


def fn_id(name):
    return FN_NAMES.index(name)


# ---------------------------------------------------------------------------------------------------------------------
# protocol values <-> Python values
# ---------------------------------------------------------------------------------------------------------------------

def is_num(x):
    return isinstance(x, (int, float)) and not isinstance(x, bool)


def scalar_proto(x):
    """A non-container Python value -> protocol value."""
    if x is None or isinstance(x, bool):
        return x
    if is_num(x):
        fr = Fraction(x)
        return {'n': [fr.numerator, fr.denominator]}
    if isinstance(x, str):
        return {'s': x}
    if isinstance(x, datetime.datetime):
        return {'dt': (x - EPOCH) // datetime.timedelta(milliseconds=1)}
    if isinstance(x, REGEX_TYPE):
        return {'re': next((i for i, r in enumerate(REGEXES) if r is x), 99)}
    if isinstance(x, RefFn):
        return {'f': 99}             # function values are opaque (library functions, bound functions, script functions of a history)
    if callable(x):
        return {'f': fn_index(x)}
    return {'unknown': type(x).__name__}


def build_pool(spec):
    """spec = {'heap': [cell...], 'env': [value...]} (protocol form) -> (cells as Python objects, env values)."""
    cells = [[] if 'arr' in c else {} for c in spec['heap']]

    def val(p):
        if p is None or isinstance(p, bool):
            return p
        if 'n' in p:
            return p['n'][0] / p['n'][1] if p['n'][1] != 1 else float(p['n'][0])
        if 's' in p:
            return p['s']
        if 'dt' in p:
            return EPOCH + datetime.timedelta(milliseconds=p['dt'])
        if 'a' in p:
            return cells[p['a']]
        if 'o' in p:
            return cells[p['o']]
        if 'f' in p:
            return fns()[p['f']]
        if 're' in p:
            return REGEXES[p['re']]
        raise ValueError(p)
    for c, obj in zip(spec['heap'], cells):
        if 'arr' in c:
            obj.extend(val(p) for p in c['arr'])
        else:
            for k, p in c['obj']:
                obj[k] = val(p)
    return cells, [val(p) for p in spec['env']], val


def canon_state(env):
    """Python values -> ref-independent graph: containers numbered in first-visit (DFS) order from the variables."""
    ids = {}
    nodes = []

    def val(x):
        if isinstance(x, (list, dict)):
            k = id(x)
            if k not in ids:
                ids[k] = len(ids)
                nodes.append(None)
                n = ids[k]
                if isinstance(x, list):
                    nodes[n] = {'arr': [val(y) for y in x]}
                else:
                    nodes[n] = {'obj': [[key, val(y)] for key, y in x.items()]}
            return {'a' if isinstance(x, list) else 'o': ids[k]}
        return scalar_proto(x)
    return {'env': [val(x) for x in env], 'nodes': nodes}


def canon_model(env, heap):
    """Same canonical form from the model's (env, heap) in protocol form."""
    ids = {}
    nodes = []

    def val(p):
        if isinstance(p, dict) and ('a' in p or 'o' in p):
            r = p['a'] if 'a' in p else p['o']
            if r not in ids:
                ids[r] = len(ids)
                nodes.append(None)
                n = ids[r]
                c = heap[r] if r < len(heap) else {'dangling': r}
                if 'arr' in c:
                    nodes[n] = {'arr': [val(y) for y in c['arr']]}
                elif 'obj' in c:
                    nodes[n] = {'obj': [[k, val(y)] for k, y in c['obj']]}
                else:
                    nodes[n] = c
            return {'a' if 'a' in p else 'o': ids[r]}
        return p
    return {'env': [val(x) for x in env], 'nodes': nodes}


def reaches(x, target):
    """Is container `target` reachable from value x (x itself included)?"""
    seen = set()
    todo = [x]
    while todo:
        y = todo.pop()
        if not isinstance(y, (list, dict)) or id(y) in seen:
            continue
        if y is target:
            return True
        seen.add(id(y))
        todo.extend(y if isinstance(y, list) else y.values())
    return False


# ---------------------------------------------------------------------------------------------------------------------
# The reference: documented contracts as plain list / dict / str operations
# ---------------------------------------------------------------------------------------------------------------------

class Fail(Exception):
    """The documented failure of a call; .value is what the call evaluates to."""

    def __init__(self, value=None):
        super().__init__()
        self.value = value


class Skip(Exception):
    """The reference does not say what the result is (text of floats / datetimes / containers inside arrayJoin)."""


MISSING = object()


def need(cond, value=None):
    if not cond:
        raise Fail(value)


def is_index(x):
    return is_num(x) and x == int(x) and x >= 0


def rtype(x):
    if x is None:
        return 'null'
    if isinstance(x, str):
        return 'string'
    if isinstance(x, bool):
        return 'boolean'
    if is_num(x):
        return 'number'
    if isinstance(x, datetime.date):
        return 'datetime'
    if isinstance(x, dict):
        return 'object'
    if isinstance(x, list):
        return 'array'
    if isinstance(x, REGEX_TYPE):
        return 'regex'
    return 'function'


def ref_truthy(x):
    """The language's truth rules: only null, false, 0, '' and [] are false."""
    t = rtype(x)
    if t == 'null':
        return False
    if t == 'boolean':
        return x
    if t == 'number':
        return x != 0
    if t in ('string', 'array'):
        return len(x) > 0
    return True


def match_pred(v):
    """arrayIndexOf / arrayLastIndexOf: 'the value to find in the array, or a match function, f(value) -> bool' - the returned
    value is a value of the language, read as a boolean the way every other construct of the language reads it."""
    if isinstance(v, RefFn):
        return lambda el: ref_truthy(v.apply([el], True))
    if rtype(v) == 'function':
        i = fn_index(v)
        if i >= NFN:
            raise Skip()
        return lambda el: ref_truthy(FN_REFS[i](el))
    return lambda el: ref_equal(el, v)


def ref_equal(a, b):
    """Equality as the comparison of the language defines it (same type and equal, containers structurally)."""
    ta = rtype(a)
    if ta != rtype(b):
        return False
    if ta == 'array':
        return len(a) == len(b) and all(ref_equal(x, y) for x, y in zip(a, b))
    if ta == 'object':
        return sorted(a) == sorted(b) and all(ref_equal(a[k], b[k]) for k in a)
    if ta in ('function', 'regex', 'null'):
        return True
    return a == b


def ref_string(x):
    t = rtype(x)
    if t == 'null':
        return 'null'
    if t == 'string':
        return x
    if t == 'boolean':
        return 'true' if x else 'false'
    if t == 'number' and x == int(x) and abs(x) < 1e15 and (x != 0 or str(x)[0] != '-'):
        return str(int(x))
    if t == 'function':
        return '<function>'
    if t == 'regex':
        return '<regex>'
    raise Skip()


def _args(args, lo, hi, fail=None):
    """between lo and hi arguments, padded with MISSING"""
    need(lo <= len(args) <= hi, fail)
    return list(args) + [MISSING] * (hi - len(args))


def r_array_copy(args):
    a, = _args(args, 1, 1)
    need(isinstance(a, list))
    return list(a)


def r_array_delete(args):
    a, i = _args(args, 2, 2)
    need(isinstance(a, list) and is_index(i) and i < len(a))
    del a[int(i)]
    return None


def r_array_extend(args):
    a, b = _args(args, 2, 2)
    need(isinstance(a, list) and isinstance(b, list))
    a.extend(list(b))
    return a


def r_array_get(args):
    a, i = _args(args, 2, 2)
    need(isinstance(a, list) and is_index(i) and i < len(a))
    return a[int(i)]


def r_array_index_of(args):
    a, v, i = _args(args, 1, 3, -1)
    need(isinstance(a, list), -1)
    v = None if v is MISSING else v
    i = 0 if i is MISSING else i
    need(is_index(i) and i < len(a), -1)
    pred = match_pred(v)
    for k in range(int(i), len(a)):
        if pred(a[k]):
            return k
    return -1


def r_array_last_index_of(args):
    a, v, i = _args(args, 1, 3, -1)
    need(isinstance(a, list), -1)
    v = None if v is MISSING else v
    if i is MISSING or i is None:
        i = len(a) - 1
    else:
        need(is_index(i) and i < len(a), -1)
    pred = match_pred(v)
    for k in range(int(i), -1, -1):
        if pred(a[k]):
            return k
    return -1


def r_array_join(args):
    a, sep = _args(args, 2, 2)
    need(isinstance(a, list) and isinstance(sep, str))
    return sep.join(ref_string(x) for x in a)


def r_array_length(args):
    a, = _args(args, 1, 1, 0)
    need(isinstance(a, list), 0)
    return len(a)


def r_array_new(args):
    return list(args)


def r_array_new_size(args):
    n, v = _args(args, 0, 2)
    n = 0 if n is MISSING else n
    v = 0 if v is MISSING else v
    need(is_index(n))
    return [v] * int(n)


def r_array_pop(args):
    a, = _args(args, 1, 1)
    need(isinstance(a, list) and len(a) > 0)
    return a.pop()


def r_array_push(args):
    need(len(args) >= 1 and isinstance(args[0], list))
    args[0].extend(args[1:])
    return args[0]


def r_array_set(args):
    a, i, v = _args(args, 2, 3)
    v = None if v is MISSING else v
    need(isinstance(a, list) and is_index(i) and i < len(a))
    a[int(i)] = v
    return v


def r_array_shift(args):
    a, = _args(args, 1, 1)
    need(isinstance(a, list) and len(a) > 0)
    return a.pop(0)


def r_array_slice(args):
    a, s, e = _args(args, 1, 3)
    need(isinstance(a, list))
    s = 0 if s is MISSING else s
    e = len(a) if e is MISSING or e is None else e
    need(is_index(s) and is_index(e) and s <= len(a) and e <= len(a))
    return a[int(s):int(e)]


def r_object_assign(args):
    o, o2 = _args(args, 2, 2)
    need(isinstance(o, dict) and isinstance(o2, dict))
    for k, v in list(o2.items()):
        o[k] = v
    return o


def r_object_copy(args):
    o, = _args(args, 1, 1)
    need(isinstance(o, dict))
    return dict(o)


def r_object_delete(args):
    o, k = _args(args, 2, 2)
    need(isinstance(o, dict) and isinstance(k, str))
    o.pop(k, None)
    return None


def r_object_get(args):
    dflt = args[2] if len(args) >= 3 else None
    o, k, d = _args(args, 2, 3, dflt)
    need(isinstance(o, dict) and isinstance(k, str), dflt)
    return o[k] if k in o else dflt


def r_object_has(args):
    o, k = _args(args, 2, 2, False)
    need(isinstance(o, dict) and isinstance(k, str), False)
    return k in o


def r_object_keys(args):
    o, = _args(args, 1, 1)
    need(isinstance(o, dict))
    return list(o)


def r_object_new(args):
    o = {}
    for i in range(0, len(args), 2):
        need(isinstance(args[i], str))
        o[args[i]] = args[i + 1] if i + 1 < len(args) else None
    return o


def r_object_set(args):
    o, k, v = _args(args, 2, 3)
    v = None if v is MISSING else v
    need(isinstance(o, dict) and isinstance(k, str))
    o[k] = v
    return v


def r_string_char_code_at(args):
    s, i = _args(args, 2, 2)
    need(isinstance(s, str) and is_index(i) and i < len(s))
    return ord(s[int(i)])


def r_string_ends_with(args):
    s, t = _args(args, 2, 2)
    need(isinstance(s, str) and isinstance(t, str))
    return s[len(s) - len(t):] == t if len(t) <= len(s) else False


def r_string_from_char_code(args):
    for c in args:
        need(is_index(c) and c <= 0x10FFFF)
    return ''.join(chr(int(c)) for c in args)


def r_string_index_of(args):
    s, t, i = _args(args, 2, 3, -1)
    i = 0 if i is MISSING else i
    need(isinstance(s, str) and isinstance(t, str) and is_index(i) and i < len(s), -1)
    for k in range(int(i), len(s) - len(t) + 1):
        if s[k:k + len(t)] == t:
            return k
    return -1


def r_string_last_index_of(args):
    s, t, i = _args(args, 2, 3, -1)
    need(isinstance(s, str) and isinstance(t, str), -1)
    if i is MISSING or i is None:
        i = max(len(s) - 1, 0)      # "the end of the string": the last index (0 for the empty string, as String.lastIndexOf clamps)
    else:
        need(is_index(i) and i < len(s), -1)
    for k in range(min(int(i), len(s) - len(t)), -1, -1):
        if s[k:k + len(t)] == t:
            return k
    return -1


def r_string_length(args):
    s, = _args(args, 1, 1, 0)
    need(isinstance(s, str), 0)
    return len(s)


def r_string_lower(args):
    s, = _args(args, 1, 1)
    need(isinstance(s, str))
    return s.lower()


def r_string_upper(args):
    s, = _args(args, 1, 1)
    need(isinstance(s, str))
    return s.upper()


def r_string_repeat(args):
    s, n = _args(args, 2, 2)
    need(isinstance(s, str) and is_index(n))
    return ''.join(s for _ in range(int(n)))


def r_string_replace(args):
    s, a, b = _args(args, 3, 3)
    need(isinstance(s, str) and isinstance(a, str) and isinstance(b, str))
    return s.replace(a, b)


def r_string_slice(args):
    s, b, e = _args(args, 2, 3)
    need(isinstance(s, str))
    e = len(s) if e is MISSING or e is None else e
    need(is_index(b) and is_index(e) and b <= len(s) and e <= len(s))
    return ''.join(s[k] for k in range(int(b), int(e)))


def r_string_split(args):
    s, sep = _args(args, 2, 2)
    need(isinstance(s, str) and isinstance(sep, str) and sep != '')
    return s.split(sep)


def r_string_starts_with(args):
    s, t = _args(args, 2, 2)
    need(isinstance(s, str) and isinstance(t, str))
    return s[:len(t)] == t


def r_string_trim(args):
    s, = _args(args, 1, 1)
    need(isinstance(s, str))
    return s.strip()


def r_regex_escape(args):
    s, = _args(args, 1, 1)
    need(isinstance(s, str))
    return re.escape(s)


def has_surrogate(s):
    return any(0xD800 <= ord(ch) <= 0xDFFF for ch in s)


def percent_decode(text):
    """%XX -> byte, everything else must be ASCII; the bytes read as UTF-8 (a surrogate's three-byte form is accepted: any
    reversible rendering of a string that has no UTF-8 form is fine) -> the string, or None when `text` is no percent-encoding"""
    out = bytearray()
    i = 0
    while i < len(text):
        ch = text[i]
        if ch == '%':
            try:
                out.append(int(text[i + 1:i + 3], 16) if len(text) >= i + 3 else -1)
            except ValueError:
                return None
            i += 3
        elif ord(ch) > 127:
            return None
        else:
            out.append(ord(ch))
            i += 1
    try:
        return out.decode('utf-8', 'surrogatepass')
    except UnicodeDecodeError:
        return None


def url_encoding_ok(s, enc):
    """'URL encoding is reversible by percent-decoding': the result decodes to the argument; text with a lone surrogate has no
    UTF-8 form - there the call may instead fail (null)"""
    if enc is None:
        return has_surrogate(s)
    return isinstance(enc, str) and percent_decode(enc) == s


def r_url_encode(args):
    s, = _args(args, 1, 1)
    need(isinstance(s, str))
    if has_surrogate(s):
        raise Skip()          # null or any reversible encoding: judged by url_encoding_ok in check_history
    return urllib.parse.quote(s, safe="':/&+")


def r_url_encode_component(args):
    s, = _args(args, 1, 1)
    need(isinstance(s, str))
    if has_surrogate(s):
        raise Skip()
    return urllib.parse.quote(s, safe="'")


# name -> (reference, documented parameter kinds, mutator?, returns-a-fresh-container?)
#   parameter kinds: A array, O object, S string, I index, N count, V any, K key(string);  '?' optional, '*' rest
FUNCS = {
    'arrayCopy': (r_array_copy, ['A'], False, True),
    'arrayDelete': (r_array_delete, ['A', 'I'], True, False),
    'arrayExtend': (r_array_extend, ['A', 'A'], True, False),
    'arrayGet': (r_array_get, ['A', 'I'], False, False),
    'arrayIndexOf': (r_array_index_of, ['A', 'V', 'I?'], False, False),
    'arrayJoin': (r_array_join, ['A', 'S'], False, False),
    'arrayLastIndexOf': (r_array_last_index_of, ['A', 'V', 'I?'], False, False),
    'arrayLength': (r_array_length, ['A'], False, False),
    'arrayNew': (r_array_new, ['V*'], False, True),
    'arrayNewSize': (r_array_new_size, ['N?', 'V?'], False, True),
    'arrayPop': (r_array_pop, ['A'], True, False),
    'arrayPush': (r_array_push, ['A', 'V*'], True, False),
    'arraySet': (r_array_set, ['A', 'I', 'V'], True, False),
    'arrayShift': (r_array_shift, ['A'], True, False),
    'arraySlice': (r_array_slice, ['A', 'I?', 'I?'], False, True),
    'objectAssign': (r_object_assign, ['O', 'O'], True, False),
    'objectCopy': (r_object_copy, ['O'], False, True),
    'objectDelete': (r_object_delete, ['O', 'K'], True, False),
    'objectGet': (r_object_get, ['O', 'K', 'V?'], False, False),
    'objectHas': (r_object_has, ['O', 'K'], False, False),
    'objectKeys': (r_object_keys, ['O'], False, True),
    'objectNew': (r_object_new, ['KV*'], False, True),
    'objectSet': (r_object_set, ['O', 'K', 'V'], True, False),
    'stringCharCodeAt': (r_string_char_code_at, ['S', 'I'], False, False),
    'stringEndsWith': (r_string_ends_with, ['S', 'S'], False, False),
    'stringFromCharCode': (r_string_from_char_code, ['C*'], False, False),
    'stringIndexOf': (r_string_index_of, ['S', 'S', 'I?'], False, False),
    'stringLastIndexOf': (r_string_last_index_of, ['S', 'S', 'I?'], False, False),
    'stringLength': (r_string_length, ['S'], False, False),
    'stringLower': (r_string_lower, ['S'], False, False),
    'stringRepeat': (r_string_repeat, ['S', 'N'], False, False),
    'stringReplace': (r_string_replace, ['S', 'S', 'S'], False, False),
    'stringSlice': (r_string_slice, ['S', 'I', 'I?'], False, False),
    'stringSplit': (r_string_split, ['S', 'S'], False, True),
    'stringStartsWith': (r_string_starts_with, ['S', 'S'], False, False),
    'stringTrim': (r_string_trim, ['S'], False, False),
    'stringUpper': (r_string_upper, ['S'], False, False),
    'regexEscape': (r_regex_escape, ['S'], False, False),
    'urlEncode': (r_url_encode, ['S'], False, False),
    'urlEncodeComponent': (r_url_encode_component, ['S'], False, False),
}
FUNC_NAMES = sorted(FUNCS)


def ref_call(name, args):
    """-> ('ok'|'fail'|'skip', value); mutates the (shadow) containers among args."""
    try:
        return 'ok', FUNCS[name][0](list(args))
    except Fail as f:
        return 'fail', f.value
    except Skip:
        return 'skip', None


# ---------------------------------------------------------------------------------------------------------------------
# Script text
# ---------------------------------------------------------------------------------------------------------------------

def lit_text(p, consts):
    """protocol literal -> BareScript expression text (a string that cannot be written as a literal goes to a constant)."""
    if p is None:
        return 'null'
    if p is True:
        return 'true'
    if p is False:
        return 'false'
    if 'n' in p:
        num, den = p['n']
        x = num / den
        txt = f'{x:.1f}' if den == 1 else repr(x)
        if 'e' in txt or 'n' in txt:
            raise ValueError('number literal ' + txt)
        return txt
    if 's' in p:
        s = p['s']
        if '\n' in s or '\r' in s or has_surrogate(s):      # (a script file has no lone surrogates: such text is host supplied)
            name = f'c{len(consts)}'
            consts[name] = s
            return name
        return "'" + s.replace('\\', '\\\\').replace("'", "\\'") + "'"
    raise ValueError(p)


def script_of(calls, nenv, consts):
    lines = []
    for k, c in enumerate(calls):
        args = [f'v{a["var"]}' if isinstance(a, dict) and 'var' in a else lit_text(a, consts) for a in c['args']]
        lines.append(f'v{nenv + k} = {c["fn"]}({", ".join(args)})')
        lines.append('__snap()')
    return '\n'.join(lines)


# ---------------------------------------------------------------------------------------------------------------------
# Running one history on the three parties
# ---------------------------------------------------------------------------------------------------------------------

def shallow(x):
    """contents of one container, elements by identity (containers) or value (scalars)"""
    def el(y):
        return ('ref', id(y)) if isinstance(y, (list, dict)) else ('val', json.dumps(scalar_proto(y), sort_keys=True))
    return [el(y) for y in x] if isinstance(x, list) else [(k, el(y)) for k, y in x.items()]


def reachable(env):
    out = {}
    todo = list(env)
    while todo:
        y = todo.pop()
        if isinstance(y, (list, dict)) and id(y) not in out:
            out[id(y)] = y
            todo.extend(y if isinstance(y, list) else y.values())
    return out


def run_impl(spec):
    """Execute the history through a script on the implementation (one statement per call, `__snap()` after each).
    -> {'initial': snap, 'steps': [snap...], 'error', 'script', 'keep'}; snap = {'state': canonical state of all variables,
    'objs': {id: shallow contents} of every reachable container, 'env_ids': id per variable, 'res': canonical result, 'res_id'}"""
    impl = fw.impl()
    _, env, _ = build_pool(spec)
    nenv = len(env)
    consts = {}
    text = script_of(spec['calls'], nenv, consts)
    glob = {f'v{i}': v for i, v in enumerate(env)}
    glob.update(consts)
    keep = []      # keeps every container alive so that ids stay unique
    steps = []

    def snapshot(k):
        cur = [glob.get(f'v{i}') for i in range(nenv + k)]
        objs = reachable(cur)
        keep.extend(objs.values())
        res = cur[-1] if cur else None
        return {'state': canon_state(cur), 'objs': {i: shallow(o) for i, o in objs.items()},
                'env_ids': [id(v) if isinstance(v, (list, dict)) else None for v in cur],
                'res': canon_state([res])['env'][0], 'res_id': id(res) if isinstance(res, (list, dict)) else None}

    initial = snapshot(0)

    def snap(unused_args, unused_options):
        steps.append(snapshot(len(steps) + 1))
        return None
    glob['__snap'] = snap
    error = None
    try:
        impl['runtime'].execute_script(impl['parser'].parse_script(text),
                                       {'globals': glob, 'maxStatements': 400 * len(spec['calls']) + 1000})   # call-backs count too
    except Exception as exc:  # pylint: disable=broad-except
        error = f'{type(exc).__name__}: {exc}'
    return {'initial': initial, 'steps': steps, 'error': error, 'script': text, 'keep': keep}


def hints_of(run, ncalls):
    """The implementation's scalar results, given to the driver for calls the model does not cover."""
    out = []
    for k in range(ncalls):
        got = run['steps'][k]['res'] if k < len(run['steps']) else None
        out.append(None if isinstance(got, dict) and ('a' in got or 'o' in got) else got)
    return out


def check_history(spec, model_steps=None, run=None):
    """One history on implementation and reference (and against the model's answer when given).
    -> (witnesses [(oracle, step, expected, actual)], disagreements [(step, impl, model)], info)"""
    witnesses = []
    disagreements = []
    run = run or run_impl(spec)
    isteps = run['steps']
    info = {'script': run['script'], 'unmodelled': 0, 'fails': 0, 'skips': 0}
    if run['error'] is not None or len(isteps) != len(spec['calls']):
        witnesses.append(('no-exception-escapes', len(isteps), 'every call evaluates to a value', run['error'] or 'script stopped early'))
        return witnesses, disagreements, info
    _, renv, val = build_pool(spec)      # the reference's shadow pool (same aliasing)
    renv = list(renv)
    prev = run['initial']
    seen = dict(prev['objs'])            # every container that existed at some point before the current call
    heap = [copy.deepcopy(c) for c in spec['heap']]
    menv = list(spec['env'])
    for k, c in enumerate(spec['calls']):
        ist = isteps[k]
        fn = c['fn']
        args = [(renv[a['var']] if a['var'] < len(renv) else None) if isinstance(a, dict) and 'var' in a else val(a)
                for a in c['args']]
        kind, res = ref_call(fn, args)
        if kind == 'skip':
            info['skips'] += 1
            if isinstance(ist['res'], dict) and ('a' in ist['res'] or 'o' in ist['res']):
                witnesses.append(('reference-result', k, 'a scalar', ist['res']))
                break
            res = build_pool({'heap': [], 'env': [ist['res']]})[1][0]
            if fn in ('urlEncode', 'urlEncodeComponent') and not url_encoding_ok(args[0], res):
                witnesses.append((fn + '-reversible', k, {'call': c, 'argument': args[0], 'result': 'null, or text that percent-decodes to the argument'}, ist['res']))
                break
        if kind == 'fail':
            info['fails'] += 1
        renv.append(res)
        want_state = canon_state(renv)
        found = []
        # 1. result and complete state (deep, aliasing by identity) against the reference
        if ist['state'] != want_state:
            found.append(('reference-state', k, {'call': c, 'kind': kind, 'state': want_state}, ist['state']))
        # 2. frame: only the container passed first to a mutator may change; a failing call changes nothing
        mutator = FUNCS[fn][2]
        first = c['args'][0] if c['args'] else None
        target = None
        if mutator and isinstance(first, dict) and 'var' in first and first['var'] < len(prev['env_ids']):
            target = prev['env_ids'][first['var']]
        changed = [i for i, sh in prev['objs'].items() if i in ist['objs'] and ist['objs'][i] != sh]
        if kind == 'fail' and changed:
            found.append(('failure-leaves-arguments-unchanged', k, {'call': c, 'changed': 0}, {'changed': len(changed)}))
        if [i for i in changed if i != target]:
            found.append(('frame', k, {'call': c, 'changed': 'at most the first argument'},
                          {'changed': len(changed), 'first-argument-among-them': target in changed}))
        if ist['env_ids'][:len(prev['env_ids'])] != prev['env_ids']:
            found.append(('identity-kept', k, {'call': c}, 'a variable was rebound'))
        # 3. freshness: a returned copy / slice / new container is not a container that existed before the call
        if FUNCS[fn][3] and kind == 'ok' and (ist['res_id'] is None or ist['res_id'] in seen):
            found.append(('fresh-result', k, {'call': c, 'fresh': True}, {'fresh': False}))
        seen.update(ist['objs'])
        prev = ist
        witnesses.extend(found)
        # 4. the model
        if model_steps is not None:
            ms = model_steps[k] if k < len(model_steps) else {'bad': 'missing step'}
            if 'bad' in ms:
                disagreements.append((k, ist['state'], ms))
                break
            for idx, cell in ms['d']:
                while len(heap) <= idx:
                    heap.append(None)
                heap[idx] = cell
            menv.append(ms['v'])
            if ms['r'] == 'unmodelled':
                info['unmodelled'] += 1
            mstate = canon_model(menv, heap)
            ikind = 'fail' if kind == 'fail' else 'ok'
            if mstate != ist['state'] or (ms['r'] != 'unmodelled' and kind != 'skip' and ms['r'] != ikind):
                disagreements.append((k, {'kind': ikind, 'state': ist['state']}, {'kind': ms['r'], 'state': mstate}))
                break
        if found:
            break
    return witnesses, disagreements, info


# ---------------------------------------------------------------------------------------------------------------------
# Generators
# ---------------------------------------------------------------------------------------------------------------------

ALPHABET = ['a', 'b', 'c', 'A', 'B', ' ', ',', '.', '-', '/', '%', "'", '"', '\\', '*', '(', '\t', '\n', '\u20ac', '\u65e5', '\U0001f600', '\u00a0']
WIDE = ALPHABET + ['\u00e9', '\u00c9', '\u00df', '+', '?', '[', ']', '{', '}', '|', '^', '$', '#', '&', '~', ':', '=', '\x00', '\x7f', '\u0130', '\u2003']
KEYS = ['a', 'b', 'k', '', 'key', '\u20ac']
CHAR_CODES = [97, 98, 32, 10, 0x20ac, 0x1f600, 65, 0, 0x10ffff]
# text that has no UTF-8 form: lone surrogates (a script builds them with stringFromCharCode, a host passes them in) - outside
# the Lean model (Char), used by the implementation-only streams `lib-surrogates` and `text-surrogates`
SURROGATES = ['\ud83d', '\ude00', '\ud800', '\udfff']
SURROGATE_CODES = [0xD83D, 0xDE00, 0xD800, 0xDFFF, 0xDBFF, 0xDC00]


class surrogate_mode:
    """within the block the generators draw characters, keys and character codes from the surrogate-extended tables"""

    def __enter__(self):
        global ALPHABET, KEYS, CHAR_CODES                        # pylint: disable=global-statement
        self.saved = (ALPHABET, KEYS, CHAR_CODES)
        ALPHABET = ALPHABET + SURROGATES + SURROGATES
        KEYS = KEYS + ['\ud83d', 'a\ude00']
        CHAR_CODES = CHAR_CODES + SURROGATE_CODES

    def __exit__(self, *unused):
        global ALPHABET, KEYS, CHAR_CODES                        # pylint: disable=global-statement
        ALPHABET, KEYS, CHAR_CODES = self.saved
DTS = [0, 1577836800000]


def rand_string(rng, alphabet=None, maxlen=6):
    alphabet = alphabet or ALPHABET
    return ''.join(rng.choice(alphabet) for _ in range(rng.choice([0, 1, 1, 2, 3, 3, maxlen])))


def rand_scalar(rng):
    k = rng.randrange(8)
    if k == 0:
        return None
    if k == 1:
        return rng.random() < 0.5
    if k in (2, 3):
        return {'n': [rng.randint(-3, 9), 1]}
    if k == 4:
        return {'n': [rng.choice([1, 3, 5, -1, 7]), rng.choice([2, 4])]}
    return {'s': rand_string(rng)}


def rand_pool(rng):
    """An acyclic pool with aliases: cells may refer to earlier cells; several variables share one container."""
    ncell = rng.randint(2, 6)
    heap = []
    for r in range(ncell):
        def elem():
            if r > 0 and rng.random() < 0.25:
                t = rng.randrange(r)
                return {'a' if 'arr' in heap[t] else 'o': t}
            return rand_scalar(rng)
        if rng.random() < 0.6:
            heap.append({'arr': [elem() for _ in range(rng.choice([0, 1, 2, 3, 3, 4, 5]))]})
        else:
            keys = rng.sample(KEYS, rng.randint(0, 4))
            heap.append({'obj': [[k, elem()] for k in keys]})
    env = []
    for r, c in enumerate(heap):
        for _ in range(rng.choice([1, 1, 2, 2, 3])):
            env.append({'a' if 'arr' in c else 'o': r})
    env += [{'s': rand_string(rng)}, {'s': rand_string(rng)}, {'n': [rng.randint(0, 4), 1]}, None, True,
            {'dt': rng.choice(DTS)}, {'f': rng.randrange(2)}, {'re': rng.randrange(2)}]
    env += [{'f': rng.randrange(NFN)} for _ in range(rng.choice([0, 1, 2, 3]))]      # call-backs: script-defined and host functions
    rng.shuffle(env)
    return {'heap': heap, 'env': env}


class Gen:
    """Online generator: keeps a reference pool to know lengths, keys and what would create a cycle."""

    def __init__(self, rng, spec, p_bad=0.08):
        self.rng = rng
        self.spec = spec
        self.p_bad = p_bad
        _, env, self.val = build_pool(spec)
        self.env = list(env)

    def vars_of(self, pred):
        return [i for i, v in enumerate(self.env) if pred(v)]

    def pick_var(self, pred):
        c = self.vars_of(pred)
        return {'var': self.rng.choice(c)} if c else None

    def any_value(self, avoid_target=None, scalar_bias=0.6):
        rng = self.rng
        if rng.random() < scalar_bias:
            return rand_scalar(rng)
        c = [i for i, v in enumerate(self.env) if avoid_target is None or not reaches(v, avoid_target)]
        return {'var': rng.choice(c)} if c else rand_scalar(rng)

    def wrong(self, kind):
        """a value of a type the parameter kind does not accept"""
        rng = self.rng
        accept = {'A': 'array', 'O': 'object', 'S': 'string', 'K': 'string', 'I': 'number', 'N': 'number', 'C': 'number'}.get(kind[0])
        types = [t for t in ('null', 'boolean', 'number', 'string', 'datetime', 'array', 'object', 'function', 'regex') if t != accept]
        t = rng.choice(types)
        if t == 'null':
            return None
        if t == 'boolean':
            return rng.random() < 0.5
        if t == 'number':
            return {'n': [rng.randint(0, 3), 1]}
        if t == 'string':
            return {'s': rand_string(rng)}
        v = self.pick_var(lambda x: rtype(x) == t)
        return v if v is not None else None

    def index_for(self, length):
        """indices from -2 .. len+2, mostly in range, sometimes fractional"""
        rng = self.rng
        r = rng.random()
        if r < 0.7 and length > 0:
            return {'n': [rng.randrange(length), 1]}
        if r < 0.93:
            return {'n': [rng.randint(-2, length + 2), 1]}
        return {'n': [2 * rng.randint(-1, length + 1) + 1, 2]}

    def value_of(self, a):
        if isinstance(a, dict) and 'var' in a:
            return self.env[a['var']] if a['var'] < len(self.env) else None
        return self.val(a)

    def gen_call(self):
        rng = self.rng
        fn = rng.choice(FUNC_NAMES)
        kinds = FUNCS[fn][1]
        args = []
        first = None
        for pos, kind in enumerate(kinds):
            opt = kind.endswith('?')
            base = kind[0]
            if kind.endswith('*'):
                n = rng.choice([0, 1, 1, 2, 3])
                for j in range(n):
                    if kind == 'KV*':
                        args.append({'s': rng.choice(KEYS)} if rng.random() > self.p_bad / 2 else self.wrong('K'))
                        if j < n - 1 or rng.random() < 0.8:
                            args.append(self.any_value())
                    elif kind == 'C*':
                        args.append({'n': [rng.choice(CHAR_CODES), 1]} if rng.random() > self.p_bad
                                    else rng.choice([{'n': [-1, 1]}, {'n': [3, 2]}, {'n': [0x110000, 1]}, None, {'s': 'a'}, True]))
                    else:
                        args.append(self.any_value(avoid_target=first))
                break
            if opt and rng.random() < 0.35:
                break
            if rng.random() < self.p_bad:
                args.append(self.wrong(kind))
                continue
            if base == 'A':
                v = self.pick_var(lambda x: isinstance(x, list) and (first is None or fn != 'arrayExtend' or not any(reaches(y, first) for y in x)))
                args.append(v if v is not None else self.wrong('A'))
            elif base == 'O':
                v = self.pick_var(lambda x: isinstance(x, dict) and (first is None or not any(reaches(y, first) for y in x.values())))
                args.append(v if v is not None else self.wrong('O'))
            elif base == 'S':
                if rng.random() < 0.4:
                    v = self.pick_var(lambda x: isinstance(x, str))
                    args.append(v if v is not None else {'s': rand_string(rng)})
                elif pos > 0 and isinstance(first, str) and first and rng.random() < 0.6:
                    i = rng.randrange(len(first))
                    args.append({'s': first[i:i + rng.choice([0, 1, 1, 2])]})
                else:
                    args.append({'s': rand_string(rng)})
            elif base == 'K':
                keys = list(first) if isinstance(first, dict) else []
                args.append({'s': rng.choice(keys)} if keys and rng.random() < 0.6 else {'s': rng.choice(KEYS)})
            elif base == 'I':
                length = len(first) if isinstance(first, (list, str)) else 3
                if opt and rng.random() < 0.1:
                    args.append(None)
                else:
                    args.append(self.index_for(length))
            elif base == 'N':
                args.append({'n': [rng.choice([0, 1, 2, 3, 3, -1]), 1]} if rng.random() < 0.9 else {'n': [3, 2]})
            elif base == 'V':
                if fn in ('arrayIndexOf', 'arrayLastIndexOf') and rng.random() < 0.3 and self.vars_of(callable):
                    args.append(self.pick_var(callable))             # the match-function form
                elif fn in ('arrayIndexOf', 'arrayLastIndexOf') and isinstance(first, list) and first and rng.random() < 0.7:
                    el = rng.choice(first)
                    if isinstance(el, (list, dict)) or rtype(el) in ('function', 'regex', 'datetime'):
                        v = self.pick_var(lambda x: x is el)
                        args.append(v if v is not None else rand_scalar(rng))
                    else:
                        args.append(scalar_proto(el))
                else:
                    args.append(self.any_value(avoid_target=first if FUNCS[fn][2] else None))
            if pos == 0:
                first = self.value_of(args[0])
        r = rng.random()
        if r < 0.04 and args:
            args = args[:-1]
        elif r < 0.08:
            args = args + [self.any_value(avoid_target=first if FUNCS[fn][2] else None)]
        # never build a cycle (F18) and keep text / numbers small enough for exact modelling
        vals = [self.value_of(a) for a in args]
        if FUNCS[fn][2] and vals and isinstance(vals[0], (list, dict)):
            others = vals[1:]
            if fn == 'arrayExtend' and len(vals) > 1 and isinstance(vals[1], list):
                others = list(vals[1])
            if fn == 'objectAssign' and len(vals) > 1 and isinstance(vals[1], dict):
                others = list(vals[1].values())
            if any(reaches(o, vals[0]) for o in others):
                return None
        if fn == 'stringRepeat' and isinstance(vals[0] if vals else None, str) and len(vals[0]) > 40:
            return None
        if fn in ('arrayExtend', 'arrayPush', 'arrayNew', 'arrayNewSize') and any(isinstance(v, list) and len(v) > 40 for v in vals):
            return None
        call = {'fn': fn, 'args': args}
        _, res = ref_call(fn, vals)
        if isinstance(res, str) and len(res) > 200:
            res = res[:200]   # the reference value is only used for generation here
        self.env.append(res)
        return call


def gen_history(rng, maxlen=30, p_bad=0.08):
    spec = rand_pool(rng)
    g = Gen(rng, spec, p_bad)
    calls = []
    n = rng.randint(1, maxlen)
    tries = 0
    while len(calls) < n and tries < 4 * maxlen:
        tries += 1
        c = g.gen_call()
        if c is not None:
            calls.append(c)
    spec['calls'] = calls
    return spec


TYPE_SAMPLES = [('null', None), ('boolean', True), ('number', {'n': [1, 1]}), ('string', {'s': 'a'}), ('datetime', {'var': 4}),
                ('array', {'var': 0}), ('object', {'var': 1}), ('function', {'var': 5}), ('regex', {'var': 6}),
                ('fraction', {'n': [1, 2]}), ('negative', {'n': [-1, 1]}), ('script-function', {'var': 8})]
ARGS_POOL = {'heap': [{'arr': [{'n': [1, 1]}, {'s': 'x'}, None]}, {'obj': [['a', {'n': [1, 1]}], ['b', {'a': 0}]]}, {'arr': []}, {'obj': []}],
             'env': [{'a': 0}, {'o': 1}, {'a': 2}, {'o': 3}, {'dt': 0}, {'f': 0}, {'re': 0}, {'s': 'abcabc'}, {'f': FN_NAMES.index('mWrapObj')}]}
VALID = {'A': {'var': 0}, 'O': {'var': 1}, 'S': {'s': 'abcabc'}, 'K': {'s': 'a'}, 'I': {'n': [1, 1]}, 'N': {'n': [2, 1]}, 'V': {'s': 'x'},
         'C': {'n': [97, 1]}}


def args_cases():
    """every function x every parameter position x every type (others valid) + missing + surplus arguments"""
    for fn in FUNC_NAMES:
        kinds = FUNCS[fn][1]
        base = []
        for kind in kinds:
            if kind == 'KV*':
                base += [{'s': 'k'}, {'n': [1, 1]}]
            elif kind.endswith('*'):
                base += [VALID[kind[0]]]
            else:
                base.append(VALID[kind[0]])
        yield fn, 'valid', base
        for pos in range(len(base)):
            for tname, sample in TYPE_SAMPLES:
                yield fn, f'arg{pos}:{tname}', base[:pos] + [sample] + base[pos + 1:]
        for n in range(len(base)):
            yield fn, f'missing:{len(base) - n}', base[:n]
        yield fn, 'surplus:1', base + [None]
        yield fn, 'surplus:2', base + [{'n': [0, 1]}, {'s': 'z'}]


# ---------------------------------------------------------------------------------------------------------------------
# Streams
# ---------------------------------------------------------------------------------------------------------------------

def load_corpus(key='calls'):
    """the hand-picked histories that have member `key`: 'calls' = histories of the lib stream, 'stmts' = FV histories"""
    path = os.path.join(fw.VERIF, 'harness', 'corpus', 'C15.jsonl')
    out = []
    if os.path.exists(path):
        with open(path, encoding='utf-8') as fh:
            for ln in fh:
                ln = ln.strip()
                if ln and not ln.startswith('#'):
                    spec = json.loads(ln)
                    if key not in spec:
                        continue
                    for v in spec['env']:      # function values may be written by name: {"f": "mGetA"} / {"f": "host:mGetA"}
                        if isinstance(v, dict) and isinstance(v.get('f'), str):
                            v['f'] = fn_id(v['f'])
                    out.append(spec)
    return out


def run_batch(ctx, stream, st, specs, tags_of):
    reqs = []
    runs = []
    for spec in specs:
        run = run_impl(spec)
        runs.append(run)
        calls = []
        for c, h in zip(spec['calls'], hints_of(run, len(spec['calls']))):
            cc = {'fn': c['fn'], 'args': c['args']}
            if h is not None:
                cc['hint'] = h
            calls.append(cc)
        reqs.append({'op': 'history', 'heap': spec['heap'], 'env': spec['env'], 'calls': calls})
    resps = ctx.driver.batch(reqs)
    answered = []
    for spec, resp, run in zip(specs, resps, runs):
        answered.append((spec, resp.get('steps', [{'bad': resp}])))
        wit, dis, info = check_history(spec, resp.get('steps', [{'bad': resp}]), run)
        nontrivial, tags = tags_of(spec, info)
        st.case({'heap': spec['heap'], 'env': spec['env'], 'calls': spec['calls']}, nontrivial=nontrivial, tags=tags)
        for oracle, k, want, got in wit:
            ctx.witness(oracle, {'spec': spec, 'step': k, 'script': info['script']}, want, got)
        if dis:
            k, impl, model = dis[0]
            ctx.compare(stream, {'spec': spec, 'step': k, 'script': info['script']}, impl, model)
        else:
            ctx.compare(stream, None, 0, 0)
    return answered


def stream_lib(ctx):
    st = ctx.stream('lib', 'histories of <=30 library calls (array*/object*/string*/regexEscape/urlEncode*) issued from a script on a pool of '
                           'aliased, nested containers (plus up to 3 script-defined / host call-back functions, used as match function in ~30% of the '
                           'arrayIndexOf / arrayLastIndexOf calls); indices -2..len+2 as float literals, ~8% of the arguments wrong-typed, ~8% of the calls with a missing / surplus argument; '
                           'after every call: result, complete state with aliasing, frame, freshness against reference and model; '
                           'non-trivial = at least 3 calls of which one mutates a container that has an alias')
    rng = ctx.rng('lib')
    specs = load_corpus() + [gen_history(rng) for _ in range(ctx.scale(2500, 24000))]

    def tags_of(spec, info):
        tags = [f'len{min(len(spec["calls"]) // 5 * 5, 30)}']
        tags += ['fn:' + c['fn'] for c in spec['calls']]
        tags += ['unmodelled'] * info['unmodelled'] + ['failing-call'] * info['fails'] + ['ok-call'] * (len(spec['calls']) - info['fails'])
        return len(spec['calls']) >= 3 and any(FUNCS[c['fn']][2] for c in spec['calls']), tags
    answered = []
    for i in range(0, len(specs), 400):
        answered += run_batch(ctx, 'lib', st, specs[i:i + 400], tags_of)
    return answered


# ---------------------------------------------------------------------------------------------------------------------
# The same histories through the MACHINE: script text -> parse_script -> execute_script  vs  drv_hostlib "exec"
# ---------------------------------------------------------------------------------------------------------------------

def machine_script(calls, nenv, consts):
    """`v<k> = f(args...)` + a log line with the type of the result after every call; the script returns the last result."""
    lines = []
    for k, c in enumerate(calls):
        args = [f'v{a["var"]}' if isinstance(a, dict) and 'var' in a else lit_text(a, consts) for a in c['args']]
        lines.append(f'v{nenv + k} = {c["fn"]}({", ".join(args)})')
        lines.append(f'systemLog(systemType(v{nenv + k}))')
    lines.append(f'return v{nenv + len(calls) - 1}')
    return '\n'.join(lines)


def run_impl_machine(spec, text, consts, nvars):
    """execute the script on the implementation -> {'state': canonical graph of v0..v<nvars-1> and the result, 'log', 'count'} | {'error'}"""
    impl = fw.impl()
    _, env, _ = build_pool(spec)
    glob = {f'v{i}': v for i, v in enumerate(env)}
    glob.update(consts)
    log = []
    options = {'globals': glob, 'maxStatements': 10 * len(spec['calls']) + 100, 'logFn': log.append}
    try:
        model = impl['parser'].parse_script(text)
        result = impl['runtime'].execute_script(model, options)
    except Exception as exc:  # pylint: disable=broad-except
        return None, {'error': f'{type(exc).__name__}: {exc}'}
    return model, {'state': canon_state([glob.get(f'v{i}') for i in range(nvars)] + [result]), 'log': log,
                   'count': options.get('statementCount')}


def modelled_prefix(spec, steps):
    """the longest prefix of the history every call of which the Lean library model covers (drv_c15's answer)"""
    k = 0
    while k < len(spec['calls']) and k < len(steps) and steps[k].get('r') in ('ok', 'fail'):
        k += 1
    return k


def stream_lib_through_machine(ctx, answered):
    st = ctx.stream('lib-through-machine',
                    'the histories of the lib stream, cut before the first call the library model does not cover, rendered as script text '
                    '(v<k> = f(args...); systemLog(systemType(v<k>)); ... return v<last>), parsed and executed by the implementation AND by '
                    'the Lean jump machine over HostLib.hostLib (drv_hostlib op "exec" on the parsed model, initial pool with its aliasing): '
                    'result, every variable and the whole heap by reference, log, statement count must agree; '
                    'non-trivial = at least 3 calls of which one mutates a container')
    drv = fw.Driver('drv_hostlib')
    todo = []
    for spec, steps in answered:
        k = modelled_prefix(spec, steps)
        if k == 0:
            continue
        cut = {'heap': spec['heap'], 'env': spec['env'], 'calls': spec['calls'][:k]}
        consts = {}
        nenv = len(cut['env'])
        text = machine_script(cut['calls'], nenv, consts)
        model, impl_out = run_impl_machine(cut, text, consts, nenv + k)
        todo.append((cut, text, consts, model, impl_out, k < len(spec['calls'])))
    reqs = []
    for cut, text, consts, model, impl_out, _ in todo:
        nenv = len(cut['env'])
        if model is None:
            reqs.append({'op': 'none'})
            continue
        reqs.append({'op': 'exec', 'script': progen.canon_script(model),
                     'pool': {'heap': cut['heap'], 'env': [[f'v{i}', p] for i, p in enumerate(cut['env'])]},
                     'globals': [[name, text_] for name, text_ in consts.items()],
                     'observe': [f'v{i}' for i in range(nenv + len(cut['calls']))],
                     'max': 10 * len(cut['calls']) + 100, 'fuel': 100000})
    resps = []
    for i in range(0, len(reqs), 400):
        resps += drv.batch(reqs[i:i + 400])
    ctx.driver.requests += drv.requests
    for (cut, text, consts, model, impl_out, was_cut), resp in zip(todo, resps):
        calls = cut['calls']
        tags = [f'len{min(len(calls) // 5 * 5, 30)}'] + (['cut-at-unmodelled'] if was_cut else ['whole-history'])
        tags += ['fn:' + c['fn'] for c in calls]
        st.case({'heap': cut['heap'], 'env': cut['env'], 'calls': calls},
                nontrivial=len(calls) >= 3 and any(FUNCS[c['fn']][2] for c in calls), tags=tags)
        if 'state' in resp and 'error' not in resp:
            mstate = resp['state']
            model_out = {'state': canon_model(mstate['env'], mstate['heap']), 'log': resp.get('log'), 'count': resp.get('count')}
        else:
            model_out = {k: v for k, v in resp.items() if k in ('error', 'bad', 'oof')} or {'bad': resp}
        ctx.compare('lib-through-machine', {'spec': cut, 'script': text}, impl_out, model_out)


def stream_args(ctx):
    st = ctx.stream('args', 'every function x every parameter position x every value type (null, boolean, number, string, datetime, array, '
                            'object, host function, script-defined function, regex, fractional, negative) + missing + surplus arguments on a fixed pool: documented failure '
                            'value, nothing changes, no exception escapes; non-trivial = the call fails')
    specs = []
    labels = []
    for fn, label, args in args_cases():
        spec = copy.deepcopy(ARGS_POOL)
        spec['calls'] = [{'fn': fn, 'args': args}]
        specs.append(spec)
        labels.append(label)
    it = iter(labels)

    def tags_of(spec, info):
        label = next(it)
        return info['fails'] > 0, [label.split(':')[0] if label.startswith(('missing', 'surplus')) else label.split(':')[-1],
                                   'fails' if info['fails'] else 'succeeds']
    run_batch(ctx, 'args', st, specs, tags_of)
    st.exhaustive = True


def text_oracles(ctx):
    """regexEscape(s) matches exactly s; URL encoding is reversible - on the implementation, through scripts."""
    impl = fw.impl()
    st = ctx.stream('text', 'random strings over ASCII incl. every regex metacharacter, controls, cased and caseless non-ASCII, non-BMP: '
                            're.fullmatch(regexEscape(s), t) <=> t == s for t = s and near misses; unquote(urlEncode*(s)) == s; model agrees; '
                            'non-trivial = the string contains a character that has to be escaped')
    rng = ctx.rng('text')
    strings = ['', '.', 'a.c', '\\', '\\d', '[a]', 'a|b', '(', '^$', '\n', ' ', '#', 'é', 'a b&c=d/e?f', '%41', '100%', "it's", '\U0001f600']
    strings += [rand_string(rng, WIDE, 10) for _ in range(ctx.scale(3000, 40000))]
    script = impl['parser'].parse_script('e = regexEscape(s)\nu = urlEncode(s)\nc = urlEncodeComponent(s)')
    reqs = []
    for s in strings:
        reqs.append({'op': 'history', 'heap': [], 'env': [{'s': s}], 'calls': [
            {'fn': 'regexEscape', 'args': [{'var': 0}]}, {'fn': 'urlEncode', 'args': [{'var': 0}]}, {'fn': 'urlEncodeComponent', 'args': [{'var': 0}]}]})
    resps = ctx.driver.batch(reqs)
    for s, resp in zip(strings, resps):
        glob = {'s': s}
        try:
            impl['runtime'].execute_script(script, {'globals': glob, 'maxStatements': 100})
            got = [glob.get('e'), glob.get('u'), glob.get('c')]
        except Exception as exc:  # pylint: disable=broad-except
            ctx.witness('no-exception-escapes', {'s': s}, 'three strings', f'{type(exc).__name__}: {exc}')
            continue
        st.case(s, nontrivial=any(not (ch.isalnum() and ch.isascii()) for ch in s), tags=[f'len{min(len(s), 10)}'])
        bad = text_failures(s, got, rng)
        for oracle, want, actual in bad:
            ctx.witness(oracle, {'s': s}, want, actual)
        model = [stp.get('v') for stp in resp.get('steps', [])]
        ctx.compare('text', {'s': s}, [scalar_proto(x) for x in got], model)


def near_misses(s, rng):
    out = [s + 'x', 'x' + s, s + s if s else 'a', s[:-1], s[1:], s.swapcase(), s + '\n', s.replace('.', 'x'), s.replace('\\', '')]
    if s:
        i = rng.randrange(len(s))
        out.append(s[:i] + rng.choice(WIDE) + s[i + 1:])
        out.append(s[:i] + s[i + 1:])
    return [t for t in out if t != s]


def text_failures(s, got, rng):
    bad = []
    e, u, c = got
    if not isinstance(e, str):
        bad.append(('regexEscape-matches-exactly', 'a pattern', e))
    else:
        try:
            if re.fullmatch(e, s) is None:
                bad.append(('regexEscape-matches-exactly', {'matches': s}, {'pattern': e, 'matches': False}))
            for t in near_misses(s, rng):
                if re.fullmatch(e, t) is not None:
                    bad.append(('regexEscape-matches-exactly', {'rejects': t}, {'pattern': e, 'matches': True}))
                    break
        except re.error as exc:
            bad.append(('regexEscape-matches-exactly', 'a valid pattern', f'{e!r}: {exc}'))
    for name, enc in (('urlEncode', u), ('urlEncodeComponent', c)):
        if has_surrogate(s):
            if not url_encoding_ok(s, enc):
                bad.append((name + '-reversible', {'argument': s, 'result': 'null, or text that percent-decodes to the argument'}, enc))
            continue
        if not isinstance(enc, str) or urllib.parse.unquote(enc) != s:
            bad.append((name + '-reversible', s, enc))
        elif not all(ch.isascii() and (ch.isalnum() or ch in "-_.~%':/&+") for ch in enc):
            bad.append((name + '-ascii-only', 'unreserved / safe / %XX only', enc))
    return bad


def index_cases():
    """every index-taking function x container length 0..3 x every index -2..len+2 (integral and half-way) - and every pair
    of them for the two slices; the container has an alias and a copy so that frame and freshness are exercised"""
    for length in range(4):
        elems = [{'n': [10 + i, 1]} for i in range(length)]
        text = 'abca'[:length]
        idxs = [{'n': [i, 1]} for i in range(-2, length + 3)] + [{'n': [2 * i + 1, 2]} for i in range(-1, length + 1)]
        pool = {'heap': [{'arr': elems}, {'arr': list(elems)}], 'env': [{'a': 0}, {'a': 0}, {'a': 1}, {'s': text}]}
        for ix in idxs:
            for fn, args in (('arrayGet', [{'var': 0}, ix]), ('arraySet', [{'var': 0}, ix, {'s': 'z'}]), ('arrayDelete', [{'var': 0}, ix]),
                             ('arrayIndexOf', [{'var': 0}, {'n': [10 + max(length - 1, 0), 1]}, ix]),
                             ('arrayLastIndexOf', [{'var': 0}, {'n': [10, 1]}, ix]), ('arrayNewSize', [ix, {'var': 0}]),
                             ('arraySlice', [{'var': 0}, ix]), ('stringCharCodeAt', [{'var': 3}, ix]),
                             ('stringIndexOf', [{'var': 3}, {'s': 'a'}, ix]), ('stringIndexOf', [{'var': 3}, {'s': ''}, ix]),
                             ('stringLastIndexOf', [{'var': 3}, {'s': 'a'}, ix]), ('stringLastIndexOf', [{'var': 3}, {'s': ''}, ix]),
                             ('stringLastIndexOf', [{'var': 3}, {'s': 'bc'}, ix]),
                             ('stringRepeat', [{'var': 3}, ix]), ('stringSlice', [{'var': 3}, ix])):
                yield pool, fn, args
            for jx in idxs + [None]:
                yield pool, 'arraySlice', [{'var': 0}, ix, jx]
                yield pool, 'stringSlice', [{'var': 3}, ix, jx]


def stream_index(ctx):
    st = ctx.stream('index', 'every index-taking function x length 0..3 x every index -2..len+2 written as a float literal (integral and '
                             'x.5), every (start, end) pair for the slices, on an array with an alias and a copy; non-trivial = all')
    specs = []
    for pool, fn, args in index_cases():
        spec = copy.deepcopy(pool)
        spec['calls'] = [{'fn': fn, 'args': args}, {'fn': 'arrayLength', 'args': [{'var': 1}]}, {'fn': 'arrayLength', 'args': [{'var': 2}]}]
        specs.append(spec)
    run_batch(ctx, 'index', st, specs, lambda spec, info: (True, ['fn:' + spec['calls'][0]['fn'], 'fails' if info['fails'] else 'succeeds']))
    st.exhaustive = True


# ---------------------------------------------------------------------------------------------------------------------
# Call-backs: the match-function form of arrayIndexOf / arrayLastIndexOf over every class of returned value
# ---------------------------------------------------------------------------------------------------------------------

# elements, one (or more) per value class and per class of member "a" (what mGetA / mKeys / mObjCopy ... return for them)
CB_HEAP = [{'arr': []}, {'arr': [{'n': [0, 1]}]}, {'obj': []}, {'obj': [['a', None]]}, {'obj': [['a', {'o': 2}]]}, {'obj': [['a', {'a': 0}]]},
           {'obj': [['a', {'n': [0, 1]}]]}, {'obj': [['a', {'s': ''}]]}, {'obj': [['a', {'n': [1, 1]}]]}, {'obj': [['a', {'s': 'x'}]]},
           {'obj': [['a', {'a': 1}]]}, {'obj': [['a', {'o': 8}]]}, {'obj': [['b', {'n': [1, 1]}]]}, {'obj': [['a', False]]},
           {'arr': [{'a': 0}]}, {'obj': [['a', {'o': 12}], ['', None]]}]
CB_ELEMS = [None, False, True, {'n': [0, 1]}, {'n': [1, 1]}, {'n': [2, 1]}, {'n': [-1, 1]}, {'n': [1, 2]}, {'s': ''}, {'s': 'a'}, {'s': ' '},
            {'s': '0'}, {'dt': 0}, {'f': 0}, {'re': 0}] + [{'a' if 'arr' in c else 'o': r} for r, c in enumerate(CB_HEAP)]
CB_FNS = ('arrayIndexOf', 'arrayLastIndexOf')


def cb_spec(elems, fn_ids):
    """pool: the array under test (two variables) and a copy of it, the given function values; -> (spec, index of the first function variable)"""
    n = len(CB_HEAP)
    spec = {'heap': copy.deepcopy(CB_HEAP) + [{'arr': list(elems)}, {'arr': list(elems)}],
            'env': [{'a': n}, {'a': n}, {'a': n + 1}] + [{'f': i} for i in fn_ids], 'calls': []}
    return spec, 3


def callback_specs(rng, nrandom):
    # 1. every function x every element class as the only element (the decisive one) x both searches, without / with a start index
    #    (histories of 8 functions each: the snapshot after every call is linear in the number of variables)
    for e in CB_ELEMS:
        for lo in range(0, NFN, 8):
            ids = list(range(lo, min(lo + 8, NFN)))
            spec, f0 = cb_spec([e], ids)
            for j, i in enumerate(ids):
                for fn in CB_FNS:
                    spec['calls'].append({'fn': fn, 'args': [{'var': 0}, {'var': f0 + j}]})
                spec['calls'].append({'fn': CB_FNS[i % 2], 'args': [{'var': 1}, {'var': f0 + j}, {'n': [0, 1]}]})
            spec['calls'] += [{'fn': 'arrayLength', 'args': [{'var': 1}]}, {'fn': 'arrayLength', 'args': [{'var': 2}]}]
            yield 'single', spec
    # 2. arrays of 2..6 elements: first / last match, start index in and out of range, null (= from the end), fractional
    for _ in range(nrandom):
        elems = [rng.choice(CB_ELEMS) for _ in range(rng.choice([2, 2, 3, 3, 4, 5, 6]))]
        ids = [rng.randrange(NFN) for _ in range(4)]
        spec, f0 = cb_spec(elems, ids)
        for _ in range(12):
            args = [{'var': rng.randrange(2)}, {'var': f0 + rng.randrange(len(ids))}]
            r = rng.random()
            if r < 0.45:
                args.append({'n': [rng.randrange(len(elems)), 1]})
            elif r < 0.55:
                args.append(rng.choice([None, {'n': [len(elems), 1]}, {'n': [-1, 1]}, {'n': [1, 2]}, {'s': '0'}]))
            spec['calls'].append({'fn': rng.choice(CB_FNS), 'args': args})
        yield 'random', spec


def stream_callbacks(ctx):
    st = ctx.stream('callbacks',
                    f'match-function form of arrayIndexOf / arrayLastIndexOf: {len(MATCHERS)} script-defined functions (constant and '
                    f'element-dependent results of every value class: null, booleans, 0 / non-zero / fractional numbers, empty / non-empty '
                    f'strings, arrays, objects, datetime, regex; 0-, 1-, 2-parameter and rest-parameter functions), their host twins and '
                    f'{len(HOST_ONLY)} host-only results (host ints, -0, function values) x every element class as the decisive element '
                    f'(exhaustive) + random arrays of 2..6 elements with start indices; result = first / last index whose returned value is '
                    f'true by the language\'s rules, nothing changes; non-trivial = all')
    rng = ctx.rng('callbacks')
    kinds = []
    specs = []
    for kind, spec in callback_specs(rng, ctx.scale(400, 6000)):
        kinds.append(kind)
        specs.append(spec)
    it = iter(kinds)

    def tags_of(spec, info):
        tags = [next(it)]
        for c in spec['calls']:
            if len(c['args']) > 1 and isinstance(c['args'][1], dict) and 'var' in c['args'][1]:
                f = spec['env'][c['args'][1]['var']]
                if isinstance(f, dict) and 'f' in f:
                    tags.append('cb:' + FN_NAMES[f['f']])
        return True, tags
    for i in range(0, len(specs), 400):
        run_batch(ctx, 'callbacks', st, specs[i:i + 400], tags_of)


# ---------------------------------------------------------------------------------------------------------------------
# arraySort: the third call-back taking function (outside the Lean model - an oracle on the implementation only).
# The ORDER itself is the subject of C11; here: the sequence contract of a sort - in place, the passed array is returned,
# a permutation (by identity) of its elements, adjacent elements in order by the compare function (a script-defined or host
# call-back returning negative / zero / positive numbers, fractional ones included) or, without one, by the language's comparison;
# no element is touched; a failing call (not an array, compare function of a wrong type, surplus argument) returns null and
# leaves the order alone.  Stability is NOT demanded (the contract does not state it): ties may come out in any order.
# ---------------------------------------------------------------------------------------------------------------------

def ref_compare(a, b):
    """The language's comparison: null first, same types by value (arrays / sorted key-value lists lexicographically),
    different types by type name, functions / regexes of the same type equal."""
    if a is None or b is None:
        return (a is not None) - (b is not None)
    ta, tb = rtype(a), rtype(b)
    if ta != tb:
        return (ta > tb) - (ta < tb)
    if ta in ('string', 'boolean', 'number', 'datetime'):
        return (a > b) - (a < b)
    if ta == 'array':
        for x, y in zip(a, b):
            c = ref_compare(x, y)
            if c:
                return c
        return (len(a) > len(b)) - (len(a) < len(b))
    if ta == 'object':
        ka, kb = sorted(a), sorted(b)
        for x, y in zip(ka, kb):
            c = ref_compare(x, y) or ref_compare(a[x], b[y])
            if c:
                return c
        return (len(ka) > len(kb)) - (len(ka) < len(kb))
    return 0


def _k(x):
    return x['k'] if isinstance(x, dict) and is_num(x.get('k')) else 0.0


# (name, body lines of `function name(a, b)`, reference (a, b) -> number, domain of the elements)
COMPARATORS = [
    ('cAsc', ['return a - b'], lambda a, b: a - b, 'num'),
    ('cDesc', ['return b - a'], lambda a, b: b - a, 'num'),
    ('cQuarter', ['return (a - b) / 4'], lambda a, b: (a - b) / 4, 'num'),            # results strictly between -1 and 1
    ('cScaled', ['return (a - b) * 1000'], lambda a, b: (a - b) * 1000, 'num'),
    ('cSign', ['if a < b:', '    return 0 - 1', 'endif', 'return if(a > b, 1, 0)'], lambda a, b: (a > b) - (a < b), 'num'),
    ('cLen', ['return stringLength(a) - stringLength(b)'], lambda a, b: len(a) - len(b), 'str'),
    ('cLenHalf', ['return (stringLength(b) - stringLength(a)) / 2'], lambda a, b: (len(b) - len(a)) / 2, 'str'),
    ('cKey', ["return objectGet(a, 'k') - objectGet(b, 'k')"], lambda a, b: _k(a) - _k(b), 'rec'),
    ('cKeyTenth', ["return (objectGet(b, 'k') - objectGet(a, 'k')) / 8"], lambda a, b: (_k(b) - _k(a)) / 8, 'rec'),
    ('cSys', ['return systemCompare(a, b)'], ref_compare, 'any'),
    ('cSysRev', ['return systemCompare(b, a)'], lambda a, b: ref_compare(b, a), 'any'),
    ('cSysHalf', ['return systemCompare(a, b) / 2'], lambda a, b: ref_compare(a, b) / 2, 'any'),
    ('cEqual', ['return 0'], lambda a, b: 0, 'any'),
    # last-argument-array compare functions (COMPARATOR_PARAMS) that RECORD the array of arguments of every call in the global
    # `sortKept` or change it: every call gets its own fresh two-element array (sort_failures checks the recorded arrays)
    ('cRestSys', ['arrayPush(sortKept, ab)', 'return systemCompare(arrayGet(ab, 0), arrayGet(ab, 1))'], ref_compare, 'any'),
    ('cRestNum', ['arrayPush(sortKept, ab)', 'return arrayGet(ab, 0) - arrayGet(ab, 1)'], lambda a, b: a - b, 'num'),
    ('cRestMut', ['arrayPush(sortKept, arrayCopy(ab))', 'r = systemCompare(arrayGet(ab, 1), arrayGet(ab, 0))', 'arraySet(ab, 0, null)', 'arrayPop(ab)',
                  "arrayPush(ab, 'm', 'm')", 'return r'], lambda a, b: ref_compare(b, a), 'any'),
]
COMPARATOR_PARAMS = {'cRestSys': 'ab...', 'cRestNum': 'ab...', 'cRestMut': 'ab...'}
COMPARATOR_PRELUDE = '\n'.join(f'function {name}({COMPARATOR_PARAMS.get(name, "a, b")}):\n' + '\n'.join('    ' + ln for ln in body) + '\nendfunction'
                               for name, body, _, _ in COMPARATORS)
COMPARATOR_REF = {c[0]: c[2] for c in COMPARATORS}
_CMP_CACHE = {}


def comparator(name, host):
    mods = fw.impl()
    if _CMP_CACHE.get('mods') is not mods:
        glob = {}
        mods['runtime'].execute_script(mods['parser'].parse_script(COMPARATOR_PRELUDE), {'globals': glob, 'maxStatements': 10000})
        _CMP_CACHE.update(mods=mods, script={c[0]: glob[c[0]] for c in COMPARATORS})
    if host:
        ref = COMPARATOR_REF[name]
        return lambda args, unused_options: ref(args[0], args[1])
    return _CMP_CACHE['script'][name]


def sort_failures(case):
    """case = {'heap': cells, 'arr': protocol value of the first argument, 'cmp': None (no second argument) | 'null' | comparator name |
    'host:' + name | {'wrong': protocol scalar}, 'surplus': bool}  ->  [(oracle, expected, actual)]"""
    impl = fw.impl()
    _, env, val = build_pool({'heap': case['heap'], 'env': [case['arr']]})
    arr = env[0]
    kept = []
    glob = {'a': arr, 'alias': arr, 'sortKept': kept}
    cmp_ = case.get('cmp')
    ref = None
    call = 'arraySort(a'
    if cmp_ is not None:
        call += ', f'
        if cmp_ == 'null':
            glob['f'] = None
        elif isinstance(cmp_, dict):
            glob['f'] = val(cmp_['wrong'])
        else:
            name = cmp_[5:] if cmp_.startswith('host:') else cmp_
            glob['f'] = comparator(name, cmp_.startswith('host:'))
            ref = COMPARATOR_REF[name]
    if case.get('surplus'):
        call += ', null' if cmp_ is not None else ', null, null'
    fails = not isinstance(arr, list) or isinstance(cmp_, dict) or bool(case.get('surplus'))
    before = list(arr) if isinstance(arr, list) else []
    contents = [canon_state([e]) for e in before]
    nelem = len(before)
    try:
        impl['runtime'].execute_script(impl['parser'].parse_script(f'r = {call})\nn = arrayLength(alias)'),
                                       {'globals': glob, 'maxStatements': 100 + 50 * nelem * nelem})
    except Exception as exc:  # pylint: disable=broad-except
        return [('no-exception-escapes', 'the call evaluates to a value', f'{type(exc).__name__}: {exc}')]
    r = glob.get('r')
    bad = []
    if glob.get('a') is not arr or glob.get('alias') is not arr:
        bad.append(('identity-kept', 'variables keep their containers', 'a variable was rebound'))
    if isinstance(arr, list):
        if [canon_state([e]) for e in before] != contents:
            bad.append(('frame', 'no element of the array is touched', 'an element changed'))
        if sorted(id(e) if isinstance(e, (list, dict)) else -1 for e in arr) != sorted(id(e) if isinstance(e, (list, dict)) else -1 for e in before) \
           or sorted(json.dumps(scalar_proto(e), sort_keys=True) for e in arr if not isinstance(e, (list, dict))) != \
              sorted(json.dumps(scalar_proto(e), sort_keys=True) for e in before if not isinstance(e, (list, dict))) \
           or glob.get('n') != len(before):
            bad.append(('sort-is-a-permutation', canon_state([before]), canon_state([arr])))
    # the arrays of arguments a recording compare function kept: one fresh array [x, y] of two elements of the array per call
    if glob.get('sortKept') is not kept or len({id(k) for k in kept}) != len(kept) or any(k is arr for k in kept) or \
       any(not isinstance(k, list) or len(k) != 2 or any(not any(e is x or (not isinstance(e, (list, dict)) and canon_state([e]) == canon_state([x]))
                                                                 for x in before) for e in k) for k in kept):
        bad.append(('callback-argument-arrays', 'one fresh array [x, y] of two elements of the sorted array per call of the compare function',
                    canon_state([kept, arr])))
    if fails:
        if r is not None:
            bad.append(('failure-value', None, canon_state([r])))
        if len(arr if isinstance(arr, list) else []) != nelem or any(x is not y for x, y in zip(arr if isinstance(arr, list) else [], before)):
            bad.append(('failure-leaves-arguments-unchanged', canon_state([before]), canon_state([arr])))
    elif not bad:
        if r is not arr:
            bad.append(('sort-returns-the-passed-array', 'the array passed (sorted in place, seen through every alias)', canon_state([arr, r])))
        order = ref or ref_compare
        for i in range(len(arr) - 1):
            if order(arr[i], arr[i + 1]) > 0:
                bad.append(('sort-orders-adjacent-elements', {'position': i, 'compare(r[i], r[i+1])': '<= 0'},
                            {'result': canon_state([arr]), 'compare(r[i], r[i+1])': str(order(arr[i], arr[i + 1]))}))
                break
    return bad


SORT_NUMS = [{'n': [i, 1]} for i in range(-3, 10)] + [{'n': [i, 2]} for i in (-3, -1, 1, 3, 5)] + [{'n': [i, 4]} for i in (-1, 1, 3, 5, 7, 9)] + \
            [{'n': [1, 8]}, {'n': [3, 8]}, {'n': [1000001, 1000]}]
SORT_TYPES = ['null', 'boolean', 'number', 'string', 'datetime', 'array', 'object', 'function', 'regex']
SORT_ARRAYS = [[], [{'n': [0, 1]}], [{'n': [0, 1]}, {'n': [1, 1]}], [{'s': 'a'}], [None], [True], [{'n': [1, 2]}]]
SORT_OBJECTS = [[], [['a', {'n': [1, 1]}]], [['a', {'n': [2, 1]}]], [['b', {'n': [0, 1]}]], [['b', {'n': [0, 1]}], ['a', {'n': [1, 1]}]], [['a', None]]]


def sort_cases(rng, n):
    def elem(t, heap):
        if t == 'null':
            return None
        if t == 'boolean':
            return rng.random() < 0.5
        if t == 'number':
            return rng.choice(SORT_NUMS)
        if t == 'string':
            return {'s': rand_string(rng, WIDE if rng.random() < 0.3 else ALPHABET)}
        if t == 'datetime':
            return {'dt': rng.choice(DTS + [1, 86400000, -1000])}
        if t == 'array':
            heap.append({'arr': list(rng.choice(SORT_ARRAYS))})
            return {'a': len(heap) - 1}
        if t == 'object':
            heap.append({'obj': [list(kv) for kv in rng.choice(SORT_OBJECTS)]})
            return {'o': len(heap) - 1}
        return {'f': rng.randrange(2)} if t == 'function' else {'re': rng.randrange(2)}

    def finish(heap, elems, cmp_, **extra):
        heap.append({'arr': elems})
        case = {'heap': heap, 'arr': {'a': len(heap) - 1}, 'cmp': cmp_}
        case.update(extra)
        return case
    by_domain = {d: [c[0] for c in COMPARATORS if c[3] == d] for d in ('num', 'str', 'rec', 'any')}
    # every pair of value types (the same type twice included) in one array, default order and the same order through a call-back
    for i, t1 in enumerate(SORT_TYPES):
        for t2 in SORT_TYPES[i:]:
            for length in (2, 3, 5, 8):
                for cmp_ in (None, 'cSys'):
                    heap = []
                    elems = [elem(t1, heap), elem(t2, heap)] + [elem(rng.choice([t1, t2]), heap) for _ in range(length - 2)]
                    rng.shuffle(elems)
                    yield 'type-pair', finish(heap, elems, cmp_)
    for _ in range(n):
        heap = []
        r = rng.random()
        length = rng.choice([0, 1, 2, 2, 3, 3, 4, 5, 6, 8, 12])
        if r < 0.2:
            domain, elems = 'num', [rng.choice(SORT_NUMS) for _ in range(length)]
        elif r < 0.3:
            domain, elems = 'str', [elem('string', heap) for _ in range(length)]
        elif r < 0.42:
            domain, elems = 'rec', []
            for i in range(length):
                heap.append({'obj': [['k', rng.choice(SORT_NUMS)], ['id', {'n': [i, 1]}]]})
                elems.append({'o': len(heap) - 1})
        else:
            domain = 'any'
            types = rng.sample(SORT_TYPES, rng.choice([1, 2, 2, 2, 3, 3, 4, len(SORT_TYPES)]))
            elems = [elem(rng.choice(types), heap) for _ in range(length)]
        q = rng.random()
        if q < 0.3:
            cmp_ = rng.choice([None, None, 'null'])
            if domain == 'rec':
                cmp_ = rng.choice(by_domain['rec'])
        else:
            cmp_ = rng.choice(by_domain[domain] + (by_domain['any'] if rng.random() < 0.3 else []))
            if rng.random() < 0.3:
                cmp_ = 'host:' + cmp_
        q = rng.random()
        if q < 0.04:
            yield 'surplus', finish(heap, elems, cmp_, surplus=True)
        elif q < 0.10:
            yield 'wrong-compare', finish(heap, elems, {'wrong': rng.choice([False, True, {'n': [0, 1]}, {'n': [1, 1]}, {'s': ''}, {'s': 'cAsc'}, {'dt': 0}, {'re': 0}])})
        elif q < 0.13:
            yield 'not-an-array', {'heap': heap, 'arr': rng.choice([None, True, {'n': [1, 1]}, {'s': 'ba'}, {'dt': 0}, {'f': 0}, {'re': 0}]), 'cmp': cmp_}
        else:
            yield domain, finish(heap, elems, cmp_)


def stream_sort(ctx):
    st = ctx.stream('sort', 'arraySort (implementation-only oracle, the function is outside the Lean model): arrays of 0..12 elements - numbers '
                            '(integral, halves, quarters, eighths), strings, records {k, id}, every pair of value types and mixtures of 1..9 of them with nested arrays / '
                            f'objects - without compare function / with null / with one of {len(COMPARATORS)} script-defined compare functions or '
                            'their host twins (results negative / 0 / positive, fractional between -1 and 1, scaled), wrong-typed compare '
                            'function, surplus argument, non-array: returns the passed array, permutation by identity, adjacent elements in '
                            'order by the reference comparison, elements untouched, failure = null and order unchanged; '
                            'non-trivial = at least 2 elements')
    rng = ctx.rng('sort')
    for kind, case in sort_cases(rng, ctx.scale(2500, 40000)):
        cell = case['heap'][case['arr']['a']] if isinstance(case['arr'], dict) and 'a' in case['arr'] else {'arr': []}
        cmp_ = case.get('cmp')
        st.case(case, nontrivial=len(cell['arr']) >= 2,
                tags=[kind, 'cmp:' + ('none' if cmp_ is None else 'wrong' if isinstance(cmp_, dict) else cmp_), f'len{min(len(cell["arr"]), 8)}'])
        for oracle, want, got in sort_failures(case):
            ctx.witness(oracle, {'sort': case}, want, got)


# ---------------------------------------------------------------------------------------------------------------------
# Function values (added after seeding rounds 5 and 6): calls issued THROUGH a function value, and call-backs that keep or
# change the array of arguments they are handed.
#
# The histories above call every library function by name with a fresh argument list per call, and their call-backs are pure
# functions of one element.  A script can do more: bind a library function with systemPartial and call the bound function any
# number of times (with no, some, wrong or surplus extra arguments, again after a failed call), pass a library function or such
# a bound function as the match function of a search, and define functions with a last-argument array (`function f(vals...)`)
# that RECORD the array of arguments of every call in a global array (`kept`), change it, or return it.  The contract is the
# one of the property: the call behaves as the direct call with the bound arguments followed by the extra ones (documentation
# of systemPartial), every call of a script function gets its own, fresh last-argument array, a search is not a mutator - so
# the arrays a call-back recorded are ordinary independent arrays ([element] per visited element, in visiting order) that
# change only when the script passes them to a mutator, and then only that one.
#
# FV history (protocol form): {'heap', 'env', 'kept': index of the variable that is the global `kept`, 'stmts': [stmt...]},
#   stmt = {'callee': {'lib': name} | {'rec': name} | {'var': k}, 'args': [literal | {'var': k} | {'lib': name} | {'rec': name}]}
#   rendered as  v<n> = callee(args...)  ({'lib': name} / {'rec': name} as an argument is the function VALUE of that name).
# Three parties: the implementation (script + __snap() after every statement), the reference (`FvWorld`: the Ref functions
# above + RefFn for function values + the recorders' reference semantics written from their text and the language's rules for
# binding arguments) -> ctx.witness; the Lean jump machine over HostLib.hostLib (drv_hostlib "exec": script functions,
# systemPartial and the match-function form of arrayIndexOf are HostImpl trees there) -> ctx.compare.
# ---------------------------------------------------------------------------------------------------------------------

class RefFn:
    """A function value of the reference world: a library function by name, a systemPartial application or a recorder."""

    def __init__(self, kind, world, name=None, target=None, bound=()):
        self.kind = kind
        self.world = world
        self.name = name
        self.target = target
        self.bound = list(bound)

    def apply(self, args, nested):
        """The value of a call with the argument list `args`; nested = the call is issued by a library function (call-back).
        A FAILING library call issued by a library function is outside what the property states (the failure value of the inner
        call versus the one of the outer call): Skip - the generators never keep such a history."""
        if self.kind == 'partial':
            if not isinstance(self.target, RefFn):
                raise Skip()
            return self.target.apply(self.bound + list(args), nested)
        if self.kind == 'rec':
            return RECORDER_REF[self.name](self.world, list(args))
        if self.name == 'systemPartial':
            if len(args) < 2 or rtype(args[0]) != 'function':
                if nested:
                    raise Skip()
                return None
            return RefFn('partial', self.world, target=args[0], bound=args[1:])
        if len(args) > 1 and rtype(args[1]) == 'function' and (self.name == 'arrayLastIndexOf' or (self.name == 'arrayIndexOf' and len(args) != 2)):
            self.world.beyond_machine = True
        if self.name in ('stringLower', 'stringUpper') and args and isinstance(args[0], str) and not args[0].isascii():
            self.world.beyond_machine = True         # case mapping of non-ASCII text is outside the Lean library model
        kind, res = ref_call(self.name, list(args))
        if kind == 'skip' or (kind == 'fail' and nested):
            raise Skip()
        return res


def _arg(args, k):
    return args[k] if k < len(args) else None      # a missing argument of a script function is null


def _rec_keep(w, a):
    w.kept().append(list(a))
    return False


def _rec_keep_second(w, a):
    w.kept().append(list(a))
    return len(w.kept()) >= 2


def _rec_keep_tail(w, a):
    w.kept().append(list(a[1:]))
    return False


def _rec_grow(w, a):
    vals = list(a)
    vals.append('m')
    w.kept().append(vals)
    return False


def _rec_set(w, a):
    vals = list(a)
    if vals:
        vals[0] = 'z'
    w.kept().append(vals)
    return False


def _rec_shrink(w, a):
    vals = list(a)
    w.kept().append(vals.pop() if vals else None)
    w.kept().append(float(len(vals)))
    return False


def _rec_keep_x(w, a):
    w.kept().append(_arg(a, 0))
    return False


def _rec_keep_pair(w, a):
    w.kept().append([_arg(a, 0), _arg(a, 1)])
    return _arg(a, 1)


def _rec_is_str(w, a):
    w.kept().append(list(a))
    return bool(a) and isinstance(a[0], str)


def _rec_vals(unused_w, a):
    return list(a)


def _rec_tail(unused_w, a):
    return list(a[1:])


# (name, parameter list, body, reference (world, argument list) -> value).  `kept` is a global array of the history.
RECORDERS = [
    ('rKeep', 'vals...', ['arrayPush(kept, vals)', 'return false'], _rec_keep),
    ('rKeepSecond', 'vals...', ['arrayPush(kept, vals)', 'return arrayLength(kept) >= 2'], _rec_keep_second),
    ('rKeepTail', 'x, rest...', ['arrayPush(kept, rest)', 'return false'], _rec_keep_tail),
    ('rGrow', 'vals...', ["arrayPush(vals, 'm')", 'arrayPush(kept, vals)', 'return false'], _rec_grow),
    ('rSet', 'vals...', ["arraySet(vals, 0, 'z')", 'arrayPush(kept, vals)', 'return false'], _rec_set),
    ('rShrink', 'vals...', ['arrayPush(kept, arrayPop(vals))', 'arrayPush(kept, arrayLength(vals))', 'return false'], _rec_shrink),
    ('rKeepX', 'x', ['arrayPush(kept, x)', 'return false'], _rec_keep_x),
    ('rKeepPair', 'x, y', ['arrayPush(kept, arrayNew(x, y))', 'return y'], _rec_keep_pair),
    ('rIsStr', 'vals...', ['arrayPush(kept, vals)', "return systemType(arrayGet(vals, 0)) == 'string'"], _rec_is_str),
    ('rVals', 'vals...', ['return vals'], _rec_vals),
    ('rTail', 'x, rest...', ['return rest'], _rec_tail),
]
RECORDER_REF = {r[0]: r[3] for r in RECORDERS}
RECORDER_NAMES = [r[0] for r in RECORDERS]
RECORDER_PRELUDE = '\n'.join(f'function {name}({params}):\n' + '\n'.join('    ' + ln for ln in body) + '\nendfunction'
                             for name, params, body, _ in RECORDERS)
# library functions that make sense as a match function of one argument (a failing inner call drops the case, see RefFn.apply)
FV_MATCH_LIBS = ['arrayNew', 'arrayLength', 'arrayPop', 'arrayShift', 'arrayCopy', 'arrayPush', 'objectKeys', 'objectCopy', 'objectNew',
                 'stringLength', 'stringTrim', 'stringUpper', 'arrayNewSize', 'regexEscape', 'urlEncodeComponent', 'stringFromCharCode']
# (library function, bound arguments as kinds) - bound functions that make sense as a match function: the element is the LAST argument
FV_MATCH_PARTIALS = [('arrayIndexOf', 'A'), ('arrayLastIndexOf', 'A'), ('arrayPush', 'A'), ('arrayGet', 'A'), ('arrayNew', 'V'),
                     ('arraySet', 'AI'), ('objectSet', 'OK'), ('objectGet', 'O'), ('objectHas', 'O'), ('stringIndexOf', 'S'),
                     ('stringStartsWith', 'S'), ('stringRepeat', 'S'), ('arrayExtend', 'A'), ('arraySlice', 'A'), ('stringSlice', 'S')]


class FvWorld:
    """The reference state of an FV history: the variables (same aliasing as the pool), function values as RefFn."""

    def __init__(self, spec):
        _, env, self.val = build_pool(spec)
        self.env = list(env)
        self.kept_idx = spec['kept']
        self.beyond_machine = False  # a call the machine's library does not model was issued (directly, bound, as a call-back)

    def kept(self):
        return self.env[self.kept_idx]

    def value(self, a):
        if isinstance(a, dict):
            if 'var' in a:
                return self.env[a['var']]
            if 'lib' in a:
                return RefFn('lib', self, name=a['lib'])
            if 'rec' in a:
                return RefFn('rec', self, name=a['rec'])
        return self.val(a)

    def step(self, stmt):
        f = self.value(stmt['callee'])
        if not isinstance(f, RefFn):
            raise Skip()
        res = f.apply([self.value(a) for a in stmt['args']], False)
        self.env.append(res)
        return res


def fv_replay(spec, stmts):
    """the reference world after the statements (raises Skip where the reference does not say)"""
    world = FvWorld(spec)
    for s in stmts:
        world.step(s)
    return world


def fv_sane(env):
    """acyclic (F18) and small"""
    state = {}

    def visit(x):
        if isinstance(x, str):
            return len(x) <= 300
        if not isinstance(x, (list, dict)):
            return True
        k = id(x)
        if state.get(k) == 1:
            return False
        if state.get(k) == 2:
            return True
        if len(x) > 60:
            return False
        state[k] = 1
        ok = all(visit(y) for y in (x if isinstance(x, list) else x.values()))
        state[k] = 2
        return ok
    return all(visit(v) for v in env)


def fv_term(a, consts):
    if isinstance(a, dict):
        if 'var' in a:
            return f'v{a["var"]}'
        if 'lib' in a:
            return a['lib']
        if 'rec' in a:
            return a['rec']
    return lit_text(a, consts)


def fv_script(spec, consts, snap):
    """snap: `__snap()` after every statement (oracle run); else the machine form (type of every result logged, last result returned)"""
    nenv = len(spec['env'])
    lines = [RECORDER_PRELUDE]
    for k, s in enumerate(spec['stmts']):
        lines.append(f'v{nenv + k} = {fv_term(s["callee"], consts)}({", ".join(fv_term(a, consts) for a in s["args"])})')
        lines.append('__snap()' if snap else f'systemLog(systemType(v{nenv + k}))')
    if not snap:
        lines.append(f'return v{nenv + len(spec["stmts"]) - 1}')
    return '\n'.join(lines)


def fv_globals(spec, consts):
    _, env, _ = build_pool(spec)
    glob = {f'v{i}': v for i, v in enumerate(env)}
    glob['kept'] = env[spec['kept']]
    glob.update(consts)
    return glob


def fv_budget(spec):
    return 600 * len(spec['stmts']) + 1000


def fv_run_impl(spec):
    """-> {'steps': [canonical state of all variables after each statement], 'error', 'script'}"""
    impl = fw.impl()
    consts = {}
    text = fv_script(spec, consts, True)
    glob = fv_globals(spec, consts)
    nenv = len(spec['env'])
    steps = []

    def snap(unused_args, unused_options):
        steps.append(canon_state([glob.get(f'v{i}') for i in range(nenv + len(steps) + 1)]))
        return None
    glob['__snap'] = snap
    error = None
    try:
        impl['runtime'].execute_script(impl['parser'].parse_script(text), {'globals': glob, 'maxStatements': fv_budget(spec)})
    except Exception as exc:  # pylint: disable=broad-except
        error = f'{type(exc).__name__}: {exc}'
    return {'steps': steps, 'error': error, 'script': text}


def fv_oracle_name(world, stmt):
    if 'var' in stmt['callee'] or 'rec' in stmt['callee']:
        return 'call-through-function-value'
    for a in stmt['args']:
        if isinstance(a, dict) and ('lib' in a or 'rec' in a or ('var' in a and isinstance(world.env[a['var']], RefFn))):
            return 'callback-history'
    return 'reference-state'


def fv_check(spec):
    """One FV history on implementation and reference -> ([(oracle, step, expected, actual)], script)"""
    run = fv_run_impl(spec)
    if run['error'] is not None or len(run['steps']) != len(spec['stmts']):
        return [('no-exception-escapes', len(run['steps']), 'every call evaluates to a value', run['error'] or 'script stopped early')], run['script']
    world = FvWorld(spec)
    for k, s in enumerate(spec['stmts']):
        name = fv_oracle_name(world, s)
        try:
            world.step(s)
        except Skip:
            break
        want = canon_state(world.env)
        if run['steps'][k] != want:
            return [(name, k, {'stmt': s, 'state': want}, run['steps'][k])], run['script']
    return [], run['script']


class FvGen:
    """Online generator of FV histories (the reference is replayed from the start for every proposal: a rejected proposal - the
    reference does not say, a cycle would arise, something grows large - leaves no trace)."""

    def __init__(self, rng, spec):
        self.rng = rng
        self.spec = spec
        self.stmts = []
        self.pending = []        # (function variable, extra arguments prepared for it)
        self.peeked = None       # variable holding an element of `kept`

    def fresh(self):
        world = fv_replay(self.spec, self.stmts)
        g = Gen(self.rng, self.spec, 0.06)
        g.env = world.env
        g.val = world.val
        return world, g

    def fn_vars(self, world):
        return [i for i, v in enumerate(world.env) if isinstance(v, RefFn)]

    def arg_of_kind(self, g, kind, first):
        rng = self.rng
        if kind == 'A':
            return g.pick_var(lambda x: isinstance(x, list))
        if kind == 'O':
            return g.pick_var(lambda x: isinstance(x, dict))
        if kind == 'S':
            return {'s': rand_string(rng)}
        if kind == 'K':
            return {'s': rng.choice(KEYS)}
        if kind == 'I':
            return g.index_for(len(first) if isinstance(first, (list, str)) else 3)
        return g.any_value()

    def extras(self, g):
        rng = self.rng
        r = rng.random()
        if r < 0.4:
            return []
        if r < 0.6:
            return [g.index_for(3)]
        if r < 0.85:
            return [g.any_value()]
        return [g.any_value(), g.any_value()]

    def matcher(self, world, g):
        """a function value for the match-function position -> (argument, statements to issue first)"""
        rng = self.rng
        r = rng.random()
        if r < 0.5:
            return {'rec': rng.choice(RECORDER_NAMES)}
        if r < 0.7:
            return {'lib': rng.choice(FV_MATCH_LIBS)}
        fvars = self.fn_vars(world)
        if fvars and r < 0.9:
            return {'var': rng.choice(fvars)}
        return {'rec': rng.choice(RECORDER_NAMES)}

    def propose(self, world, g):
        rng = self.rng
        nvar = len(world.env)
        fvars = self.fn_vars(world)
        r = rng.random()
        if self.peeked is not None and isinstance(world.env[self.peeked], list) and r < 0.6:
            v = {'var': self.peeked}
            self.peeked = None
            return rng.choice([{'callee': {'lib': 'arrayPush'}, 'args': [v, {'n': [99, 1]}]}, {'callee': {'lib': 'arrayPop'}, 'args': [v]},
                               {'callee': {'lib': 'arraySet'}, 'args': [v, {'n': [0, 1]}, {'s': 'q'}]},
                               {'callee': {'lib': 'arrayShift'}, 'args': [v]}])
        if self.pending and r < 0.65:
            var, extra = self.pending.pop(rng.randrange(len(self.pending)))
            return {'callee': {'var': var}, 'args': extra}
        r = rng.random()
        if r < 0.16:
            # bind a library function: a plausible call split into bound and extra arguments
            call = g.gen_call()
            if call is None or not call['args']:
                return None
            k = rng.randint(1, len(call['args']))
            self.pending.append((nvar, call['args'][k:]))
            if rng.random() < 0.5:
                self.pending.append((nvar, []))
            return {'callee': {'lib': 'systemPartial'}, 'args': [{'lib': call['fn']}] + call['args'][:k]}
        if r < 0.22:
            # bind a function that makes sense as a match function
            fn, kinds = rng.choice(FV_MATCH_PARTIALS)
            bound = []
            first = None
            for kind in kinds:
                a = self.arg_of_kind(g, kind, first)
                if a is None:
                    return None
                bound.append(a)
                if first is None:
                    first = g.value_of(a)
            return {'callee': {'lib': 'systemPartial'}, 'args': [{'lib': fn}] + bound}
        if r < 0.28:
            # bind a recorder / a bound function once more / nothing bound (fails) / not a function (fails)
            q = rng.random()
            if q < 0.6:
                target = {'rec': rng.choice(RECORDER_NAMES)}
            elif q < 0.85 and fvars:
                target = {'var': rng.choice(fvars)}
            elif q < 0.93:
                return {'callee': {'lib': 'systemPartial'}, 'args': [{'lib': rng.choice(FUNC_NAMES)}]}
            else:
                target = g.any_value()
            return {'callee': {'lib': 'systemPartial'}, 'args': [target] + [g.any_value() for _ in range(rng.choice([1, 1, 2]))]}
        if r < 0.50 and fvars:
            return {'callee': {'var': rng.choice(fvars)}, 'args': self.extras(g)}
        if r < 0.58:
            return {'callee': {'rec': rng.choice(RECORDER_NAMES)}, 'args': [g.any_value() for _ in range(rng.choice([0, 1, 1, 2, 3]))]}
        if r < 0.85:
            arr = g.pick_var(lambda x: isinstance(x, list) and len(x) >= rng.choice([0, 1, 2, 2, 2]))
            if arr is None:
                return None
            args = [arr, self.matcher(world, g)]
            if rng.random() < 0.3:
                args.append(g.index_for(len(g.value_of(arr))))
            return {'callee': {'lib': rng.choice(CB_FNS)}, 'args': args}
        if r < 0.92 and world.kept():
            self.peeked = nvar
            return {'callee': {'lib': 'arrayGet'}, 'args': [{'var': self.spec['kept']}, {'n': [rng.randrange(len(world.kept())), 1]}]}
        call = g.gen_call()
        if call is None:
            return None
        return {'callee': {'lib': call['fn']}, 'args': call['args']}

    def history(self, nstmt):
        tries = 0
        while len(self.stmts) < nstmt and tries < 6 * nstmt:
            tries += 1
            peeked, pending = self.peeked, list(self.pending)
            world, g = self.fresh()
            stmt = self.propose(world, g)
            ok = stmt is not None
            if ok:
                try:
                    consts = {}
                    for a in [stmt['callee']] + stmt['args']:
                        fv_term(a, consts)
                    ok = fv_sane(fv_replay(self.spec, self.stmts + [stmt]).env)
                except (Skip, ValueError, IndexError):
                    ok = False
            if ok:
                self.stmts.append(stmt)
            else:
                self.peeked, self.pending = peeked, pending
        out = dict(self.spec)
        out['stmts'] = self.stmts
        return out


def fv_pool(rng):
    spec = rand_pool(rng)
    spec['env'] = [v for v in spec['env'] if not (isinstance(v, dict) and 'f' in v)]     # function values arise in the history
    spec['heap'].append({'arr': []})
    spec['env'].append({'a': len(spec['heap']) - 1})
    spec['kept'] = len(spec['env']) - 1
    return spec


def gen_fv_history(rng, maxlen=14):
    return FvGen(rng, fv_pool(rng)).history(rng.randint(3, maxlen))


def fv_systematic():
    """every recorder x both searches x (by name | bound with a leading tag | bound twice) over arrays of 0..3 elements, then one
    recorded array is fetched and changed; every match library function and every bound match function over a fitting array"""
    heap = [{'arr': [{'n': [10, 1]}, {'s': 'b'}, {'n': [30, 1]}]}, {'arr': [{'n': [1, 1]}]}, {'arr': []},
            {'arr': [{'a': 1}, {'a': 2}, {'a': 0}]}, {'obj': [['a', {'n': [1, 1]}]]}, {'arr': [{'s': 'a'}, {'s': ' b '}, {'s': ''}]},
            {'arr': [{'n': [0, 1]}, {'n': [2, 1]}, {'n': [1, 1]}]}, {'arr': [{'o': 4}, {'o': 4}]}, {'arr': []}]
    env = [{'a': 0}, {'a': 0}, {'a': 1}, {'a': 2}, {'a': 3}, {'o': 4}, {'a': 5}, {'a': 6}, {'a': 7}, {'s': 'abcab'}, {'a': 8}]
    kept = len(env) - 1
    n = len(env)

    def spec(stmts):
        return {'heap': copy.deepcopy(heap), 'env': list(env), 'kept': kept, 'stmts': stmts}
    for name in RECORDER_NAMES:
        for search in CB_FNS:
            for arr in (0, 2, 3, 4):
                yield 'recorder', spec([
                    {'callee': {'lib': search}, 'args': [{'var': arr}, {'rec': name}]},
                    {'callee': {'lib': 'arrayGet'}, 'args': [{'var': kept}, {'n': [0, 1]}]},
                    {'callee': {'lib': 'arrayPush'}, 'args': [{'var': n + 1}, {'n': [99, 1]}]},
                    {'callee': {'lib': search}, 'args': [{'var': arr}, {'rec': name}]},
                    {'callee': {'rec': name}, 'args': [{'var': 2}, {'s': 'x'}]},
                    {'callee': {'rec': name}, 'args': []}])
                yield 'recorder', spec([
                    {'callee': {'lib': search}, 'args': [{'var': arr}, {'rec': name}, {'n': [1, 1]}]},
                    {'callee': {'lib': 'arrayGet'}, 'args': [{'var': kept}, {'n': [1, 1]}]},
                    {'callee': {'lib': 'arraySet'}, 'args': [{'var': n + 1}, {'n': [0, 1]}, {'var': 2}]},
                    {'callee': {'lib': search}, 'args': [{'var': arr}, {'rec': name}, {'n': [0, 1]}]}])
            yield 'bound-recorder', spec([
                {'callee': {'lib': 'systemPartial'}, 'args': [{'rec': name}, {'s': 'tag'}]},
                {'callee': {'var': n}, 'args': []},
                {'callee': {'lib': search}, 'args': [{'var': 0}, {'var': n}]},
                {'callee': {'var': n}, 'args': []},
                {'callee': {'lib': 'systemPartial'}, 'args': [{'var': n}, {'var': 2}]},
                {'callee': {'var': n + 4}, 'args': []},
                {'callee': {'var': n + 4}, 'args': [{'n': [7, 1]}]},
                {'callee': {'lib': search}, 'args': [{'var': 7}, {'var': n + 4}]},
                {'callee': {'var': n + 4}, 'args': []},
                {'callee': {'var': n}, 'args': []},            # the function bound first is not affected by binding it again
                {'callee': {'var': n}, 'args': [{'s': 'y'}]}])
    for fn in FV_MATCH_LIBS:
        for arr in (0, 4, 6, 7, 8):
            for search in CB_FNS:
                yield 'library-match-function', spec([{'callee': {'lib': search}, 'args': [{'var': arr}, {'lib': fn}]},
                                                      {'callee': {'lib': search}, 'args': [{'var': arr}, {'lib': fn}, {'n': [1, 1]}]}])
    # every library function bound to its first k valid arguments, called with the rest: no extra / the rest / the rest again /
    # a surplus argument / the rest once more (a second and third use after a failure)
    for fn in FUNC_NAMES:
        kinds = FUNCS[fn][1]
        base = []
        for kind in kinds:
            if kind == 'KV*':
                base += [{'s': 'k'}, {'n': [1, 1]}]
            else:
                base.append({'A': {'var': 0}, 'O': {'var': 5}, 'S': {'var': 9}, 'K': {'s': 'a'}, 'I': {'n': [1, 1]}, 'N': {'n': [2, 1]},
                             'V': {'s': 'b'}, 'C': {'n': [97, 1]}}[kind[0]])
        for k in range(1, len(base) + 1):
            rest = base[k:]
            yield 'bound-library-function', spec([
                {'callee': {'lib': 'systemPartial'}, 'args': [{'lib': fn}] + base[:k]},
                {'callee': {'var': n}, 'args': []},
                {'callee': {'var': n}, 'args': rest},
                {'callee': {'var': n}, 'args': []},
                {'callee': {'var': n}, 'args': rest + [None, None, None]},
                {'callee': {'var': n}, 'args': rest},
                {'callee': {'var': n}, 'args': []},
                {'callee': {'lib': 'arrayLength'}, 'args': [{'var': 1}]}])


def fv_usable(spec):
    """the reference speaks about every statement and nothing cyclic / large arises (systematic cases are filtered, not generated)"""
    try:
        return fv_sane(fv_replay(spec, spec['stmts']).env)
    except Skip:
        return False


def norm_fns(x):
    """function values are opaque: {'f': anything} -> {'f': '*'}"""
    if isinstance(x, dict):
        return {'f': '*'} if set(x) == {'f'} else {k: norm_fns(v) for k, v in x.items()}
    if isinstance(x, list):
        return [norm_fns(v) for v in x]
    return x


def fv_machine(ctx, specs):
    """the FV histories as script text through the implementation and through the Lean jump machine over HostLib.hostLib"""
    impl = fw.impl()
    drv = fw.Driver('drv_hostlib')
    reqs = []
    outs = []
    for spec in specs:
        consts = {}
        text = fv_script(spec, consts, False)
        glob = fv_globals(spec, consts)
        nvars = len(spec['env']) + len(spec['stmts'])
        log = []
        options = {'globals': glob, 'maxStatements': fv_budget(spec), 'logFn': log.append}
        try:
            model = impl['parser'].parse_script(text)
            result = impl['runtime'].execute_script(model, options)
            out = {'state': norm_fns(canon_state([glob.get(f'v{i}') for i in range(nvars)] + [result])), 'log': log,
                   'count': options.get('statementCount')}
        except Exception as exc:  # pylint: disable=broad-except
            model, out = None, {'error': f'{type(exc).__name__}: {exc}'}
        outs.append((text, out))
        if model is None:
            reqs.append({'op': 'none'})
            continue
        reqs.append({'op': 'exec', 'script': progen.canon_script(model),
                     'pool': {'heap': spec['heap'], 'env': [[f'v{i}', p] for i, p in enumerate(spec['env'])] + [['kept', spec['env'][spec['kept']]]]},
                     'globals': [[name, text_] for name, text_ in consts.items()],
                     'observe': [f'v{i}' for i in range(nvars)], 'max': fv_budget(spec), 'fuel': 200000})
    resps = []
    for i in range(0, len(reqs), 400):
        resps += drv.batch(reqs[i:i + 400])
    ctx.driver.requests += drv.requests
    for spec, (text, out), resp in zip(specs, outs, resps):
        if 'state' in resp and 'error' not in resp:
            mstate = resp['state']
            model_out = {'state': norm_fns(canon_model(mstate['env'], mstate['heap'])), 'log': resp.get('log'), 'count': resp.get('count')}
        else:
            model_out = {k: v for k, v in resp.items() if k in ('error', 'bad', 'oof')} or {'bad': resp}
        ctx.compare('function-values', {'fv': spec, 'script': text}, out, model_out)


def fv_machine_expressible(spec):
    """the machine's library has the match-function form of the two-argument arrayIndexOf only (HostLib.hostKeeps, HostImpl.lib);
    everything else of an FV history (script functions with last-argument arrays, systemPartial, library functions as values) it can run"""
    try:
        return not fv_replay(spec, spec['stmts']).beyond_machine
    except Skip:
        return False


def stream_function_values(ctx):
    st = ctx.stream('function-values',
                    'histories of 3..14 statements v = callee(args) on a pool of aliased containers and a global array `kept`: callee = a library '
                    'function by name | a function bound with systemPartial (a library function with 1..n of a plausible call\'s arguments, a '
                    f'recorder, a bound function again; called repeatedly with no / the remaining / wrong / surplus extra arguments, again after a failed call) | one of {len(RECORDERS)} '
                    'script-defined RECORDERS (last-argument-array functions that push the array of arguments they got to `kept`, grow / '
                    'overwrite / pop it, or return it); arguments include library functions, recorders and bound functions as the match '
                    'function of arrayIndexOf / arrayLastIndexOf; a recorded array is fetched from `kept` and changed by a mutator. '
                    'After every statement: complete state of all variables with aliasing == reference (direct call with bound + extra '
                    'arguments; a fresh last-argument array per call; searches change nothing but what the call-back changes). '
                    'Systematic part: every recorder x both searches x by name / bound once / bound twice; every match library function; every '
                    'library function x every split into bound and extra arguments, 6 calls of the same bound function. '
                    'Model: the same script through the Lean jump machine over HostLib.hostLib (script functions, systemPartial and the '
                    'match-function form of arrayIndexOf(array, function) are HostImpl trees of that machine) - except histories with the match-function form of '
                    'arrayLastIndexOf or of arrayIndexOf with a start index, which the machine\'s library does not have, or with stringLower / stringUpper of non-ASCII text: implementation-side oracle only there. '
                    'non-trivial = a function value is called or passed at least twice')
    rng = ctx.rng('function-values')
    cases = [(kind, spec) for kind, spec in fv_systematic() if fv_usable(spec)]
    cases += [('corpus', spec) for spec in load_corpus('stmts')]
    cases += [('random', gen_fv_history(rng)) for _ in range(ctx.scale(700, 14000))]
    expressible = []
    for kind, spec in cases:
        uses = 0
        for s in spec['stmts']:
            uses += ('var' in s['callee'] or 'rec' in s['callee']) + sum(1 for a in s['args'] if isinstance(a, dict) and ('lib' in a or 'rec' in a))
        tags = [kind, f'len{min(len(spec["stmts"]) // 3 * 3, 12)}']
        for s in spec['stmts']:
            c = s['callee']
            tags.append('call:partial' if 'var' in c else 'call:' + (c.get('rec') or ('systemPartial' if c.get('lib') == 'systemPartial' else 'library')))
            tags += ['arg:' + (a.get('rec') or a.get('lib')) for a in s['args'] if isinstance(a, dict) and ('lib' in a or 'rec' in a)]
        st.case({k: spec[k] for k in ('heap', 'env', 'kept', 'stmts')}, nontrivial=uses >= 2, tags=tags)
        wit, script = fv_check(spec)
        for oracle, k, want, got in wit:
            ctx.witness(oracle, {'fv': spec, 'step': k, 'script': script}, want, got)
        if fv_machine_expressible(spec):
            expressible.append(spec)
    fv_machine(ctx, expressible)


# ---------------------------------------------------------------------------------------------------------------------
# Text without a UTF-8 form (added after seeding round 6): a string is a sequence of code points and may hold a lone surrogate
# (stringFromCharCode(55357), host-supplied data).  Lean's Char cannot (ASSUMPTIONS), so these two streams are
# implementation-side only: the Python reference above (str is a code-point sequence, lone surrogates included) is the oracle.
# ---------------------------------------------------------------------------------------------------------------------

def stream_lib_surrogates(ctx):
    st = ctx.stream('lib-surrogates',
                    'histories as in the lib stream (<= 14 calls) whose strings, object keys and character codes (stringFromCharCode) are drawn '
                    'from tables extended with lone surrogates (U+D83D, U+DE00, U+D800, U+DFFF, ...): every string function treats them as code '
                    'points (length, slices, searches, split / replace / join, case mapping, keys), regexEscape escapes around them, urlEncode* '
                    'returns null or text that percent-decodes to the argument; result, complete state, frame and freshness against the '
                    'Python reference after every call.  Implementation-side oracle only: Lean strings cannot hold a lone surrogate; '
                    'non-trivial = a surrogate occurs in the pool or in an argument')
    rng = ctx.rng('lib-surrogates')
    with surrogate_mode():
        specs = [gen_history(rng, maxlen=14) for _ in range(ctx.scale(500, 10000))]
    for spec in specs:
        wit, _, info = check_history(spec)
        text = json.dumps([spec['heap'], spec['env'], spec['calls']], ensure_ascii=True)
        st.case({'heap': spec['heap'], 'env': spec['env'], 'calls': spec['calls']}, nontrivial='\\ud' in text or any(f'[{c}, 1]' in text for c in SURROGATE_CODES),
                tags=[f'len{min(len(spec["calls"]) // 5 * 5, 30)}'] + ['fn:' + c['fn'] for c in spec['calls']] + ['failing-call'] * info['fails'])
        for oracle, k, want, got in wit:
            ctx.witness(oracle, {'spec': spec, 'step': k, 'script': info['script']}, want, got)


TEXT_SCRIPT = 'e = regexEscape(s)\nu = urlEncode(s)\nc = urlEncodeComponent(s)'


def text_run(s, codes=None):
    """regexEscape / urlEncode / urlEncodeComponent of s through a script; codes: the script builds s itself with stringFromCharCode
    -> ([e, u, c], s as the script saw it) | raises"""
    impl = fw.impl()
    if codes is None:
        glob = {'s': s}
        text = TEXT_SCRIPT
    else:
        glob = {}
        text = f's = stringFromCharCode({", ".join(str(c) for c in codes)})\n' + TEXT_SCRIPT
    impl['runtime'].execute_script(impl['parser'].parse_script(text), {'globals': glob, 'maxStatements': 100})
    return [glob.get('e'), glob.get('u'), glob.get('c')], glob.get('s')


def stream_text_surrogates(ctx):
    st = ctx.stream('text-surrogates',
                    'random strings of 1..10 code points over ASCII incl. every regex metacharacter, non-ASCII, non-BMP AND lone surrogates (at '
                    'least one per string; high / low alone, in the wrong order, next to a valid pair), supplied by the host or built by the script '
                    'with stringFromCharCode: re.fullmatch(regexEscape(s), t) <=> t == s for t = s and near misses; urlEncode / '
                    'urlEncodeComponent return null (the text has no UTF-8 form) or text that percent-decodes to s - never a lossy '
                    'encoding.  Implementation-side oracle only (Lean strings cannot hold a lone surrogate); non-trivial = all')
    rng = ctx.rng('text-surrogates')
    alphabet = WIDE + SURROGATES
    fixed = ['\ud83d', '\ude00', 'a\ud83db', 'q=\ude00', '\ude00\ud83d', '😀/\ude00\ud83d', '\U0001f600\ud83d', '?\ud800?', '%\udfff', '\ud83d.']
    strings = fixed + [None] * ctx.scale(600, 12000)
    for s in strings:
        if s is None:
            chars = [rng.choice(alphabet) for _ in range(rng.randint(0, 9))]
            chars.insert(rng.randint(0, len(chars)), rng.choice(SURROGATES))
            s = ''.join(chars)
        codes = [ord(ch) for ch in s] if rng.random() < 0.5 else None
        inp = {'s': s} if codes is None else {'s': s, 'codes': codes}
        st.case(inp, nontrivial=True, tags=[f'len{min(len(s), 10)}', 'script-built' if codes else 'host-supplied'])
        try:
            got, seen = text_run(s, codes)
        except Exception as exc:  # pylint: disable=broad-except
            ctx.witness('no-exception-escapes', inp, 'three values', f'{type(exc).__name__}: {exc}')
            continue
        if seen != s:
            ctx.witness('stringFromCharCode-code-points', inp, scalar_proto(s), scalar_proto(seen))
            continue
        for oracle, want, actual in text_failures(s, got, rng):
            ctx.witness(oracle, inp, want, actual)


# ---------------------------------------------------------------------------------------------------------------------
# Boundary families (added after seeding rounds 8 and 9)
#
# `empties`: the empty string / array / object (and the empty key, the empty rest list, count and index 0) in EVERY argument
# position of every function, alone and together with the empties of the other positions (full product of a small value set per
# parameter kind): stringReplace(s, '', x), stringSplit('', ''), arrayExtend(a, a) on [], objectNew('', ''), arrayJoin([], '') ...
# `code-points`: strings BUILT by stringFromCharCode from code points at the UTF-8 length, surrogate, BMP and Unicode range
# boundaries - every single code, every ordered PAIR (a high surrogate next to a low one is two code points, not one astral
# character), chosen longer sequences - and then taken apart again by every string function.
# ---------------------------------------------------------------------------------------------------------------------

EMPTY_POOL = {'heap': [{'arr': []}, {'arr': []}, {'obj': []}, {'obj': []},
                       {'arr': [{'n': [1, 1]}, {'s': 'x'}, None, {'s': ''}]},
                       {'obj': [['a', {'n': [1, 1]}], ['', {'s': 'e'}], ['k', {'s': ''}]]},
                       {'arr': [{'s': ''}, {'a': 1}, {'o': 3}]}],
              'env': [{'a': 0}, {'a': 0}, {'a': 1}, {'o': 2}, {'o': 2}, {'o': 3}, {'a': 4}, {'a': 4}, {'o': 5}, {'o': 5}, {'a': 6}]}
OMIT = {'omit': True}
_S = lambda *xs: [{'s': x} for x in xs]      # noqa: E731
_NUM = lambda *xs: [{'n': [x, 1]} for x in xs]      # noqa: E731
# parameter kind -> (values for the first parameter of that kind, values for a later one); the FIRST value of each list is the empty one
EMPTY_VALUES = {
    'A': ([{'var': 0}, {'var': 6}, {'var': 10}], [{'var': 2}, {'var': 6}, {'var': 0}]),
    'O': ([{'var': 3}, {'var': 8}], [{'var': 5}, {'var': 8}, {'var': 3}]),
    'S': (_S('', 'a', 'abcabc'), _S('', 'a', 'bc', 'abcabc', 'x')),
    'K': (_S('', 'a', 'zz'),) * 2,
    'I': (_NUM(0, 1, 3) + [None],) * 2,
    'N': (_NUM(0, 1, 2),) * 2,
    'V': (_S('') + [{'var': 2}, {'var': 5}] + _S('x') + [None] + _NUM(0),) * 2,
}
EMPTY_REST = {
    'V*': [[], _S(''), [{'var': 2}], [{'var': 5}], _S('') + [{'var': 2}, {'var': 5}], _S('x', '')],
    'KV*': [[], _S(''), _S('', ''), _S('k', ''), _S('') + [{'var': 2}], _S('k') + [{'var': 5}] + _S('') + [None], _S('', 'x', '', '')],
    'C*': [[], _NUM(97), _NUM(0), _NUM(97, 0x1f600), _NUM(0x10ffff, 0)],
}
EMPTY_PROTO = [{'s': ''}, {'var': 0}, {'var': 2}, {'var': 3}, {'var': 5}, {'n': [0, 1]}, None]


def empties_cases():
    """every function x the product of EMPTY_VALUES over its parameters (optional trailing parameters also omitted)"""
    _, env, val = build_pool(EMPTY_POOL)
    for fn in FUNC_NAMES:
        kinds = FUNCS[fn][1]
        axes = []
        seen_kind = set()
        for kind in kinds:
            if kind.endswith('*'):
                axes.append([('rest', r) for r in EMPTY_REST[kind]])
                continue
            vals = EMPTY_VALUES[kind[0]][1 if kind[0] in seen_kind else 0]
            seen_kind.add(kind[0])
            axes.append([('one', v) for v in vals] + ([('one', OMIT)] if kind.endswith('?') else []))
        for combo in itertools.product(*axes):
            args = []
            omitted = False
            ok = True
            for how, v in combo:
                if how == 'rest':
                    args += v
                elif v is OMIT:
                    omitted = True
                elif omitted:
                    ok = False      # a parameter after an omitted one
                else:
                    args.append(v)
            if not ok:
                continue
            vals = [env[a['var']] if isinstance(a, dict) and 'var' in a else val(a) for a in args]
            if FUNCS[fn][2] and vals and isinstance(vals[0], (list, dict)):      # never build a cycle (F18)
                others = vals[1:]
                if fn == 'arrayExtend' and len(vals) > 1 and isinstance(vals[1], list):
                    others = list(vals[1])
                if fn == 'objectAssign' and len(vals) > 1 and isinstance(vals[1], dict):
                    others = list(vals[1].values())
                if any(reaches(o, vals[0]) for o in others):
                    continue
            yield fn, args, sum(1 for a in args if a in EMPTY_PROTO)


def stream_empties(ctx):
    st = ctx.stream('empties', 'every function x the full product over its parameters of a small value set per parameter kind that STARTS with the '
                               "empty value: string '' / one character / the whole subject / an absent one, array [] / non-empty / [ '', [], {} ] / "
                               "the first argument itself, object {} / one with the key '' and the value '' / the first argument itself, key '' / present / "
                               'absent, index and count 0 / 1 / len / null / omitted, any-value \'\' / [] / {} / null / 0, rest lists of 0..4 values with '
                               'empties in every place (objectNew(\'\', \'\'), stringFromCharCode()) - on a pool where every container has an alias; result, '
                               'complete state, frame, freshness against reference and model; non-trivial = at least one argument is an empty value')
    specs = []
    counts = []
    for fn, args, nempty in empties_cases():
        spec = copy.deepcopy(EMPTY_POOL)
        spec['calls'] = [{'fn': fn, 'args': args}]
        specs.append(spec)
        counts.append(nempty)
    it = iter(counts)

    def tags_of(spec, info):
        n = next(it)
        return n > 0, ['fn:' + spec['calls'][0]['fn'], f'empties:{min(n, 3)}', 'fails' if info['fails'] else 'succeeds']
    for i in range(0, len(specs), 400):
        run_batch(ctx, 'empties', st, specs[i:i + 400], tags_of)
    st.exhaustive = True


BOUNDARY_CODES = [0, 0x7F, 0x80, 0x7FF, 0x800, 0xD7FF, 0xD800, 0xDBFF, 0xDC00, 0xDFFF, 0xE000, 0xFFFF, 0x10000, 0x10FFFF]
MORE_CODES = [0x41, 0x20, 0xD83D, 0xDE00, 0xDB7F, 0xDB80, 0xFFFD, 0xFFFE, 0xFEFF, 0x1F600]
BAD_CODES = [{'n': [-1, 1]}, {'n': [0x110000, 1]}, {'n': [2 * 0xD800 + 1, 2]}, {'n': [2 ** 32, 1]}, None, {'s': 'A'}]


def is_surrogate_code(c):
    return 0xD800 <= c <= 0xDFFF


def cp_sequences(rng, tier_quick):
    """-> [(tag, [protocol code...])]"""
    every = BOUNDARY_CODES + MORE_CODES
    out = [('single', [c]) for c in every]
    pair_codes = BOUNDARY_CODES if tier_quick else every
    out += [('pair', [a, b]) for a in pair_codes for b in pair_codes]
    if tier_quick:      # every high x low surrogate adjacency (both orders) also for the codes outside the pair table
        his = [c for c in every if 0xD800 <= c <= 0xDBFF]
        los = [c for c in every if 0xDC00 <= c <= 0xDFFF]
        out += [('pair', [a, b]) for a in his for b in los if not (a in pair_codes and b in pair_codes)]
        out += [('pair', [b, a]) for a in his for b in los if not (a in pair_codes and b in pair_codes)]
    hi, lo, a = 0xD83D, 0xDE00, 0x41
    out += [('longer', s) for s in ([a, hi, lo], [hi, lo, a], [a, hi, lo, a], [hi, hi, lo], [hi, lo, lo], [lo, hi, lo, hi], [0x1F600, hi, lo], [hi, lo, 0x1F600],
                                    [hi, lo, hi, lo], [0xDBFF, 0xDFFF, 0x10FFFF], [0xD800, 0xDC00, 0x10000], [0xFFFF, 0x10000, 0xFFFF], [0, 0, 0],
                                    [0x7F, 0x80, 0x7FF, 0x800], [0xD7FF, 0xD800, 0xDFFF, 0xE000], [hi, a, lo], [0x20, hi, lo, 0x20])]
    for _ in range(0 if tier_quick else 1500):
        out.append(('random', [rng.choice(every) for _ in range(rng.choice([3, 3, 4, 5, 6, 8]))]))
    out = [(tag, [{'n': [c, 1]} for c in s]) for tag, s in out]
    for bad in BAD_CODES:      # a code that is no code point: the call fails, whatever stands next to it
        for good in (0x41, 0xD83D, 0x10FFFF):
            out += [('invalid', [bad]), ('invalid', [{'n': [good, 1]}, bad]), ('invalid', [bad, {'n': [good, 1]}])]
    return out


def cp_history(codes):
    """one history: the string is built from the codes and taken apart again by every string function (all arguments are variables:
    results of earlier calls, so no such character has to be written in the script)"""
    calls = []

    def add(fn, *args):
        calls.append({'fn': fn, 'args': list(args)})
        return {'var': len(calls) - 1}

    def num(i):
        return {'n': [i, 1]}
    s = add('stringFromCharCode', *codes)
    add('stringLength', s)
    valid = all(isinstance(c, dict) and 'n' in c and c['n'][1] == 1 and 0 <= c['n'][0] <= 0x10FFFF for c in codes)
    if not valid:
        return {'heap': [], 'env': [], 'calls': calls}
    n = len(codes)
    pieces = [add('stringSlice', s, num(i), num(i + 1)) for i in range(n)]
    add('stringSlice', s, num(1))
    add('stringSlice', s, num(0), num(n - 1))
    for i in range(n + 1):
        add('stringCharCodeAt', s, num(i))
    for p in pieces:
        add('stringCharCodeAt', p, num(0))
        add('stringLength', p)
    first, last = pieces[0], pieces[-1]
    add('stringIndexOf', s, last)
    add('stringIndexOf', s, last, num(min(1, n - 1)))
    add('stringLastIndexOf', s, first)
    add('stringLastIndexOf', s, first, num(n - 1))
    add('stringStartsWith', s, first)
    add('stringStartsWith', s, last)
    add('stringEndsWith', s, last)
    add('stringEndsWith', s, first)
    add('stringSplit', s, last)
    add('stringSplit', s, first)
    add('stringReplace', s, first, {'s': 'x'})
    add('stringReplace', s, last, {'s': ''})
    add('stringReplace', s, {'s': ''}, first)
    doubled = add('stringRepeat', s, num(2))
    add('stringLength', doubled)
    add('stringIndexOf', doubled, s, num(1))
    add('stringLower', s)
    add('stringUpper', s)
    add('stringTrim', s)
    add('regexEscape', s)
    add('urlEncode', s)
    add('urlEncodeComponent', s)
    o = add('objectNew', s, num(1), first, num(2))
    add('objectKeys', o)
    add('objectGet', o, s)
    add('objectHas', o, last)
    a = add('arrayNew', *pieces)
    joined = add('arrayJoin', a, {'s': ''})
    add('stringLength', joined)
    add('arrayJoin', a, s)
    add('arrayIndexOf', a, last)
    add('arrayLastIndexOf', a, first)
    for c in codes:
        add('stringFromCharCode', c)
    return {'heap': [], 'env': [], 'calls': calls}


def stream_code_points(ctx):
    st = ctx.stream('code-points',
                    'strings built by stringFromCharCode (codes as float literals) from code points at the boundaries: 0, U+7F/80, U+7FF/800 (UTF-8 '
                    'lengths), U+D7FF/D800, U+DBFF/DC00, U+DFFF/E000 (surrogates), U+FFFF/10000 (BMP), U+10FFFF and further surrogates, '
                    'non-characters, BOM, an astral character: every single code, every ordered pair of the boundary codes, every high x low '
                    'surrogate adjacency in both orders, longer sequences (pair inside text, pair next to the astral character it would spell, '
                    'two pairs, reversed pairs), codes that are no code point (-1, 0x110000, x.5, 2^32, null, a string) alone and next to a valid '
                    'one (failure = null).  Each string is taken apart again: length, every one-code-point slice and its code, char code at '
                    '0..len, searches / split / replace (also with the empty search string) / repeat / case / trim by its own first and last '
                    'code point, as object key, array of its pieces joined again, regexEscape (matches exactly it), urlEncode* (null or '
                    'reversible) - against the Python reference (str = code-point sequence) after every call; histories without a surrogate '
                    'also against the Lean model (a Lean Char cannot be a surrogate: the others are implementation-side only); non-trivial = all')
    rng = ctx.rng('code-points')
    seqs = cp_sequences(rng, ctx.quick)
    with_model, tags_model = [], []
    for tag, codes in seqs:
        spec = cp_history(codes)
        ints = [c['n'][0] for c in codes if isinstance(c, dict) and 'n' in c and c['n'][1] == 1]
        tags = [tag, f'len{min(len(codes), 5)}'] + (['surrogate'] if any(is_surrogate_code(c) for c in ints) else ['no-surrogate'])
        if any(0xD800 <= a <= 0xDBFF and 0xDC00 <= b <= 0xDFFF for a, b in zip(ints, ints[1:])):
            tags.append('high-then-low')
        if tag != 'invalid' and not any(is_surrogate_code(c) for c in ints):
            with_model.append(spec)
            tags_model.append(tags)
        else:
            wit, _, info = check_history(spec)
            st.case({'codes': codes}, nontrivial=True, tags=tags + ['failing-call'] * info['fails'])
            for oracle, k, want, got in wit:
                ctx.witness(oracle, {'spec': spec, 'step': k, 'script': info['script']}, want, got)
        # the two text oracles on the string the SCRIPT built
        if tag != 'invalid':
            s = ''.join(chr(c) for c in ints)
            inp = {'s': s, 'codes': ints}
            try:
                got, seen = text_run(s, ints)
            except Exception as exc:  # pylint: disable=broad-except
                ctx.witness('no-exception-escapes', inp, 'three values', f'{type(exc).__name__}: {exc}')
                continue
            if seen != s:
                ctx.witness('stringFromCharCode-code-points', inp, scalar_proto(s), scalar_proto(seen))
                continue
            for oracle, want, actual in text_failures(s, got, rng):
                ctx.witness(oracle, inp, want, actual)
    it = iter(tags_model)
    for i in range(0, len(with_model), 200):
        run_batch(ctx, 'code-points', st, with_model[i:i + 200], lambda spec, info: (True, next(it) + ['failing-call'] * info['fails']))


# ---------------------------------------------------------------------------------------------------------------------
# History independence (added after seeding round 8): the reference model's result of a call is a function of the argument VALUES,
# so "under any history of library calls each call returns the result the reference gives" forbids hidden state - a cache, a memo
# table, an interned result - that makes the result depend on what was called before.  The dangerous keys are values that are
# EQUAL AND HASH-EQUAL for the host but different values of the language: 0.0 / -0.0 / 0 / False, 1.0 / 1 / True, 2.0 / 2,
# 1e16 / 10**16 ... (host-level inputs: the Lean model's numbers are rationals and have neither a negative zero nor an int / float /
# bool spelling - implementation-side stream).  No text of a number is presumed (C13 owns it): every probe call is compared with
# ITSELF - run alone in a FRESH instance of the implementation package (module state as in a process that has called nothing)
# and inside several histories (the whole probe table in listed, reversed and shuffled order, every history in its own fresh
# instance, so every two probes meet in both orders).  SCALE: calls that format N distinct floats, N = 0 .. 4097, are part of
# every history (a bounded cache evicts, an unbounded one grows).
# ---------------------------------------------------------------------------------------------------------------------

HI_TWINS = [[0.0, -0.0, 0, False], [1.0, 1, True], [2.0, 2], [3.0, 3], [-1.0, -1], [97.0, 97], [1e16, 10 ** 16], [2.0 ** 53, 2 ** 53]]
HI_SINGLES = [0.5, -0.5, 1.5, 1e-7, -1e-7, 1e21, 1e22, 123456.789, 5e-324, 1.7976931348623157e308, None, '', '0', '-0', '0.0', '1', 'true',
              'false', 'null']
HI_CONTAINERS = [[0.0], [-0.0], [0], [False], [1, True, 1.0], {'k': 0.0}, {'k': -0.0}, {'k': False}, [], {}]
HI_BASE = {'A': [10.0, 'x', None], 'O': {'a': 1.0, 'b': 'y'}, 'S': 'abcabc', 'K': 'a', 'I': 1.0, 'N': 2.0, 'V': 'x', 'C': 97.0}
HI_HAY = [False, 0, -0.0, 0.0, True, 1, 1.0, '0', '', None, [0.0], [-0.0], {'k': 0}]
HI_FILL = [0, 1, 2, 9, 10, 11, 16, 17, 64, 65, 100, 101, 128, 129, 256, 1000, 1025, 4097]


def hi_canon(x):
    """a result with the host type spelled out: -0.0 is not 0.0, 1 is not 1.0 is not true"""
    if x is None:
        return None
    if isinstance(x, bool):
        return ['bool', x]
    if isinstance(x, int):
        return ['int', str(x)]
    if isinstance(x, float):
        return ['float', repr(x)]
    if isinstance(x, str):
        return ['str', x]
    if isinstance(x, list):
        return ['array', [hi_canon(y) for y in x]]
    if isinstance(x, dict):
        return ['object', [[hi_canon(k), hi_canon(v)] for k, v in x.items()]]
    return ['other', type(x).__name__]


def hi_probes():
    """the probe table: [{'fn', 'args' (JSON-able host values), 'judge'}]"""
    out = []
    seen = set()

    def add(fn, args, judge=True):
        key = json.dumps([fn, hi_canon(args)])
        if key not in seen:
            seen.add(key)
            out.append({'fn': fn, 'args': copy.deepcopy(args), 'judge': judge})
    values = [v for cls in HI_TWINS for v in cls] + HI_SINGLES
    # 1. the text of a value: stringNew, arrayJoin, the JSON text of a container; `+` on a string as part of the history only
    for x in values:
        add('stringNew', [x])
        add('arrayJoin', [[x], ','])
        add('arrayJoin', [[x, 'a', x], ''])
        add('stringNew', [[x]])
        add('stringNew', [{'k': x}])
        add('+', ['', x], judge=False)
    for cls in HI_TWINS:
        for perm in (cls, cls[::-1]):
            add('arrayJoin', [list(perm), ','])
            add('stringNew', [list(perm)])
    # 2. every function: a numeric parameter <- every member of a ==-class, an any-value parameter <- every value
    for fn in FUNC_NAMES:
        kinds = FUNCS[fn][1]
        base = []
        for kind in kinds:
            base += ['k', 1.0] if kind == 'KV*' else [copy.deepcopy(HI_BASE[kind[0]])]
        add(fn, base)
        pos = 0
        for kind in kinds:
            pos += 2 if kind == 'KV*' else 1
            p = pos - 1
            if kind[0] in 'INC':
                alts = [v for cls in HI_TWINS[:6 if kind[0] == 'C' else 4] for v in cls]
            elif kind[0] == 'V' or kind == 'KV*':
                alts = values + HI_CONTAINERS
            else:
                alts = []
            for v in alts:
                add(fn, base[:p] + [v] + base[p + 1:])
    # 3. searches by equality over a haystack of ==-equal values
    for x in values + HI_CONTAINERS:
        add('arrayIndexOf', [HI_HAY, x])
        add('arrayLastIndexOf', [HI_HAY, x])
    # 4. scale: N distinct floats turned into text by one call
    for n in HI_FILL:
        add('arrayJoin', [[k + 0.5 for k in range(n)], ','])
    return out


def fresh_impl():
    """a NEW instance of the implementation package - module-level state (caches, memo tables) as in a process that has not called
    anything yet - without disturbing the instance fw.impl() holds"""
    src = os.path.join(fw.REPO, 'src')

    def ours(k):
        return k == 'bare_script' or k.startswith('bare_script.')
    saved = {k: sys.modules.pop(k) for k in [k for k in sys.modules if ours(k)]}
    added = src not in sys.path
    if added:
        sys.path.insert(0, src)
    try:
        mods = {short: importlib.import_module('bare_script.' + short) for short in ('parser', 'runtime', 'library', 'value')}
    finally:
        for k in [k for k in sys.modules if ours(k)]:
            del sys.modules[k]
        sys.modules.update(saved)
        if added:
            sys.path.remove(src)
    return mods


def hi_call(mods, probe):
    """one probe call through a script on the instance `mods`, arguments supplied by the host (fresh copies)
    -> ([result, arguments after the call] with host types spelled out, the returned value itself)"""
    args = copy.deepcopy(probe['args'])
    glob = {f'a{i}': a for i, a in enumerate(args)}
    names = [f'a{i}' for i in range(len(args))]
    text = 'return ' + (' + '.join(names) if probe['fn'] == '+' else f'{probe["fn"]}({", ".join(names)})')
    try:
        ret = mods['runtime'].execute_script(mods['parser'].parse_script(text), {'globals': glob, 'maxStatements': 50})
    except Exception as exc:  # pylint: disable=broad-except
        return ['exception', type(exc).__name__], None
    return [hi_canon(ret), hi_canon(args)], ret


def hi_run(mods, probe):
    return hi_call(mods, probe)[0]


def hi_mutate(ret):
    """what a script may do with a container a call returned to it"""
    if isinstance(ret, list):
        ret.append('mutated')
    elif isinstance(ret, dict):
        ret['mutated'] = True


def hi_history(before, probe, mutate=False):
    """the probe after the calls `before` (mutate: every container they return is changed by the caller), in a fresh instance"""
    mods = fresh_impl()
    for q in before:
        ret = hi_call(mods, q)[1]
        if mutate:
            hi_mutate(ret)
    return hi_run(mods, probe)


def hi_flat(x):
    if isinstance(x, list):
        return [z for y in x for z in hi_flat(y)]
    if isinstance(x, dict):
        return [z for y in x.values() for z in hi_flat(y)]
    return [x]


def hi_related(p, q):
    """do the two probes share a host-equal argument value of a different spelling (or the same function)?"""
    a, b = hi_flat(p['args']), hi_flat(q['args'])
    return any(x == y and hi_canon(x) != hi_canon(y) for x in a for y in b if x is not None and y is not None and not isinstance(x, str))


def hi_shrink(probe, prefix, alone, budget=60):
    """a short history after which the probe differs from its result alone: one related earlier call, all related ones, or the prefix"""
    related = [q for q in prefix if hi_related(probe, q)]
    for q in related[::-1][:budget]:
        got = hi_history([q], probe)
        if got != alone:
            return [q], got
    if related and len(related) < len(prefix):
        got = hi_history(related, probe)
        if got != alone:
            return related, got
    for q in prefix[::-1][:budget]:
        got = hi_history([q], probe)
        if got != alone:
            return [q], got
    return prefix, hi_history(prefix, probe)


def hi_strip(p):
    return {'fn': p['fn'], 'args': p['args']}


def stream_history_independence(ctx):
    st = ctx.stream('history-independence',
                    'hidden state: every probe call - stringNew / arrayJoin / container text of every member of the host-equal classes 0.0, -0.0, 0, '
                    'False | 1.0, 1, True | 2.0, 2 | 3.0, 3 | -1.0, -1 | 97.0, 97 | 1e16, 10**16 | 2.0**53, 2**53 and further numbers and strings; every function of '
                    'the property with each numeric parameter spelled by every member of its class and each any-value parameter by every value and '
                    'small containers of them; equality searches over a haystack of host-equal values; calls that format N = 0, 1, 2, 9, 10, 11, 16, '
                    '17, 64, 65, 100, 101, 128, 129, 256, 1000, 1025, 4097 distinct floats - is run through a script in several histories (the table '
                    'in listed, reversed and shuffled order, each history in a FRESH instance of the implementation package) and must return the same '
                    'result and leave the same arguments, host types spelled out (-0.0 is not 0.0, 1 is not 1.0 is not true), in all of them; a '
                    'difference is shrunk to  [one earlier call, the probe]  against the probe alone in a fresh instance; every call that returns a '
                    'container is also issued twice, the caller changing the first result in between.  Implementation-side '
                    'oracle only (no negative zero, no int / float / bool spelling in the Lean model); non-trivial = an argument has a host-equal twin')
    rng = ctx.rng('history-independence')
    probes = hi_probes()
    orders = [list(range(len(probes))), list(range(len(probes)))[::-1]]
    for _ in range(ctx.scale(6, 40)):
        o = list(range(len(probes)))
        rng.shuffle(o)
        orders.append(o)
    results = []
    for order in orders:
        mods = fresh_impl()
        res = [None] * len(probes)
        for i in order:
            res[i] = hi_run(mods, probes[i])
        results.append(res)
    twins = [v for cls in HI_TWINS for v in cls]
    reported = 0
    for i, p in enumerate(probes):
        flat = hi_flat(p['args'])
        st.case([p['fn'], hi_canon(p['args'])], nontrivial=any(x == t and not isinstance(x, str) and x is not None for x in flat for t in twins),
                tags=['fn:' + p['fn'], 'judged' if p['judge'] else 'history-only'])
        got = [r[i] for r in results]
        if not p['judge'] or all(g == got[0] for g in got) or reported >= 6:
            continue
        reported += 1
        alone = hi_history([], p)
        j = next((j for j, g in enumerate(got) if g != alone), 0)
        prefix = [probes[k] for k in orders[j][:orders[j].index(i)]]
        before, after = hi_shrink(p, prefix, alone)
        ctx.witness('history-independence', {'hist': {'probe': hi_strip(p), 'before': [hi_strip(q) for q in before]}},
                    {'the call alone (fresh instance of the implementation)': alone}, {'after the history': after})
    # the same call twice, the caller changing the container the first one returned (a result kept and handed out again is shared state)
    mods = fresh_impl()
    reported = 0
    for p in probes:
        if not p['judge']:
            continue
        first, ret = hi_call(mods, p)
        if not isinstance(ret, (list, dict)):
            continue
        hi_mutate(ret)
        if hi_run(mods, p) == first or reported >= 6:
            continue
        alone = hi_history([], p)
        after = hi_history([p], p, mutate=True)
        if after != alone:
            reported += 1
            ctx.witness('history-independence', {'hist': {'probe': hi_strip(p), 'before': [hi_strip(p)], 'mutate': True}},
                        {'the call alone (fresh instance of the implementation)': alone},
                        {'after the same call whose returned container the caller changed': after})


# ---------------------------------------------------------------------------------------------------------------------
# Key alphabets (added after seeding round 10)
#
# An object is a string-keyed map whose key SEQUENCE is the insertion order of the reference dict: a new key goes to the end, an
# overwritten key keeps its place, a deleted and re-inserted key moves to the end, objectAssign appends the source's new keys in the
# source's order, objectCopy / objectNew keep the given order.  objectKeys is the observer (jsonStringify sorts: not an oracle here).
# Every other stream draws keys from six ordinary words, which no key-dependent rule can tell apart; stream `object-keys` draws them
# from FAMILIES of keys a host mapping, another implementation of the language or a cache might treat specially - keys that ARE
# canonical array indices ('0', '7', '10', '4294967295', '4294967296'), keys that only LOOK like numbers ('01', '-1', '1.5', '1e3',
# ' 1', '1_0', non-ASCII digits, ''), keywords / dunder / dict-method names, keys that differ only by case or normalisation form,
# very long keys - inserted in ascending, descending and shuffled order, with a scale axis on the number of keys.
# ---------------------------------------------------------------------------------------------------------------------

KF_INDEX_SPECIALS = [0, 7, 10, 4294967295, 4294967296, 9, 2, 1, 100, 99, 4294967294, 9999999999, 10000000000, 11, 2 ** 53, 2 ** 64, 101]
KF_NEAR = ['', ' 1', '+1', '-0', '-1', '00', '01', '0x10', '1 ', '1.0', '1.5', '1_0', '1e3', 'Infinity', 'NaN',
           '\u0661', '\u0967', '\uff11']      # (Arabic-Indic, Devanagari, fullwidth digit one: int() of the host reads them as 1)
KF_WORDS = ['__class__', '__dict__', '__proto__', 'clear', 'constructor', 'copy', 'false', 'for', 'function', 'get', 'hasOwnProperty', 'if',
            'items', 'keys', 'length', 'null', 'pop', 'prototype', 'return', 'toString', 'true', 'update', 'values']
KF_CASE = sorted(['A', 'a', 'KEY', 'Key', 'key', 'k', '\u212a', 'SS', 'ss', '\u00df', 'fi', '\ufb01', 'i\u0307', '\u0130', '\u00e9', 'e\u0301',
                  '\u00c5', 'A\u030a', '\u212b', '\u03c3', '\u03c2', '\u03a3'])
KF_LONG = sorted(['k', '9', 'k' * 100, 'k' * 101, 'k' * 999 + 'x', 'k' * 1000, 'k' * 1000 + 'x', '9' * 100, '1' + '0' * 99, '1' + '0' * 100,
                  'ab' * 500, 'ab' * 500 + 'a', '\u20ac' * 300, 'K' * 1000, '0' * 1000, '12' * 2048])
# keys a lookup might conflate: equal after strip / int() / float() / case folding / normalisation / truncation / wrap-around at 2**32
KF_CONFUSABLE = sorted(['1', ' 1', '1 ', '+1', '01', '1.0', '\u0661', '\uff11', '10', '1_0', '1000', '1e3', '0', '-0', '', ' ', '00', '0.0', '4294967296', '4294967295', '-1',
                        'key', 'Key', 'KEY', 'key ', 'k', '\u212a', 'ss', '\u00df', '\u00e9', 'e\u0301', 'k' * 1000, 'k' * 1000 + 'x', 'null', 'None', 'true', 'True'])
KF_SIZES = [0, 1, 2, 9, 10, 11, 16, 17, 64, 65, 100, 101, 128, 129, 256, 1000]
KF_ORDERS = ('ascending', 'descending', 'shuffled')


def kf_index(n):
    """n canonical array-index keys (the special ones first, then further small ones) in ascending NUMERIC order"""
    nums = list(KF_INDEX_SPECIALS[:n])
    k = 3
    while len(nums) < n:
        if k not in nums:
            nums.append(k)
        k += 1
    return [str(x) for x in sorted(nums)]


def kf_mixed(n):
    """n keys alternating canonical indices, ordinary words and near-numbers, in ascending code-point order"""
    idx = kf_index((n + 2) // 3)
    out = []
    for i in range(n):
        out.append(idx[i // 3] if i % 3 == 0 else f'k{i}' if i % 3 == 1 else (f'0{i}', f'-{i}', f'{i}.5', f' {i}')[(i // 3) % 4])
    return sorted(out)


# family -> (keys of size n in the family's ascending order, largest size)
KEY_FAMILIES = {
    'index': (kf_index, 1000),
    'mixed': (kf_mixed, 1000),
    'near-number': (lambda n: KF_NEAR[:n], len(KF_NEAR)),
    'words': (lambda n: KF_WORDS[:n], len(KF_WORDS)),
    'case-normalisation': (lambda n: KF_CASE[:n], len(KF_CASE)),
    'long': (lambda n: KF_LONG[:n], len(KF_LONG)),
    'confusable': (lambda n: KF_CONFUSABLE[:n], len(KF_CONFUSABLE)),
}
KF_RANDOM_KEYS = {
    'index': kf_index(17),
    'mixed': kf_index(9) + KF_NEAR[:9] + ['a', 'name', 'x1', 'Alpha', 'zeta'],
    'near-number': KF_NEAR + ['1', '0', '10'],
    'words': KF_WORDS,
    'case-normalisation': KF_CASE,
    'long': KF_LONG + ['10', '2'],
    'confusable': KF_CONFUSABLE,
    'all': kf_index(12) + KF_NEAR + KF_WORDS[:8] + KF_CASE[:8] + KF_LONG[:6],
}
KF_RANDOM_KEYS = {fam: list(dict.fromkeys(keys)) for fam, keys in KF_RANDOM_KEYS.items()}      # (a key table has no duplicates)


def kf_order(keys, order, rng):
    keys = list(keys)
    if order == 'descending':
        keys.reverse()
    elif order == 'shuffled':
        rng.shuffle(keys)
    return keys


def kf_unsorted(keys):
    """is this key sequence different from every order a key-dependent rule would produce (code-point order, indices first)?"""
    keys = list(keys)
    canon = [k for k in keys if re.fullmatch(r'0|[1-9][0-9]*', k, re.ASCII)]
    return len(keys) >= 2 and keys != sorted(keys) and keys != sorted(canon, key=int) + [k for k in keys if k not in canon]


def kf_systematic(rng, shuffles=1, quick=False):
    """family x order x size x build mode, then a fixed tail of calls that observes the key sequence after a copy, two assignments,
    a delete + re-insert, an overwrite - through the object, its alias and the earlier copy.  -> [(tags, spec)]
    quick: of the sizes above 17 only  index x descending / shuffled x host (1000: descending only), index x shuffled x objectNew, mixed x shuffled x host"""
    out = []
    for fam, (keys_of, largest) in KEY_FAMILIES.items():
        for order in KF_ORDERS:
            for n in [s for s in KF_SIZES if s <= largest] + ([largest] if largest not in KF_SIZES else []):
                for mode in ('host', 'objectNew', 'objectSet'):
                    if (mode == 'objectNew' and n > 129) or (mode == 'objectSet' and n > 17):
                        continue
                    if quick and n > 23 and not ((fam, mode) == ('index', 'host') and (order == 'descending' or (order == 'shuffled' and n < 1000))
                                                 or (fam, order, mode) in (('index', 'shuffled', 'objectNew'), ('mixed', 'shuffled', 'host')) and n < 1000):
                        continue
                    for _ in range(shuffles if order == 'shuffled' and n > 2 else 1):
                        keys = kf_order(keys_of(n), order, rng)
                        pairs = [[k, {'n': [i % 7, 1]}] for i, k in enumerate(keys)]
                        # variables: 0, 1 the object and its alias; 2 an empty object; 3 a two-key object sharing one key with the object
                        other = [['zz', {'n': [1, 1]}]] + ([[keys[len(keys) // 2], {'n': [2, 1]}]] if keys else [])
                        heap = [{'obj': pairs if mode == 'host' else []}, {'obj': []}, {'obj': other}]
                        env = [{'o': 0}, {'o': 0}, {'o': 1}, {'o': 2}]
                        calls = []
                        target = {'var': 0}
                        if mode == 'objectNew':
                            calls.append({'fn': 'objectNew', 'args': [x for k, v in pairs for x in ({'s': k}, v)]})
                            target = {'var': 4}
                        elif mode == 'objectSet':
                            calls += [{'fn': 'objectSet', 'args': [{'var': 0}, {'s': k}, v]} for k, v in pairs]
                        base = len(env) + len(calls)
                        calls += [{'fn': 'objectKeys', 'args': [target]},                        # base
                                  {'fn': 'objectCopy', 'args': [target]},                        # base + 1
                                  {'fn': 'objectKeys', 'args': [{'var': base + 1}]},
                                  {'fn': 'objectAssign', 'args': [{'var': 2}, target]},
                                  {'fn': 'objectKeys', 'args': [{'var': 2}]},
                                  {'fn': 'objectAssign', 'args': [{'var': 3}, target]},
                                  {'fn': 'objectKeys', 'args': [{'var': 3}]}]
                        if keys:
                            first, mid = keys[0], keys[len(keys) // 2]
                            calls += [{'fn': 'objectDelete', 'args': [target, {'s': first}]},
                                      {'fn': 'objectKeys', 'args': [target]},
                                      {'fn': 'objectSet', 'args': [target, {'s': first}, None]},
                                      {'fn': 'objectSet', 'args': [target, {'s': mid}, {'s': mid}]}]
                        calls += [{'fn': 'objectKeys', 'args': [{'var': 1} if mode != 'objectNew' else target]},
                                  {'fn': 'objectKeys', 'args': [{'var': base + 1}]}]
                        out.append(([f'family:{fam}', f'order:{order}', f'keys:{n}', f'built-by:{mode}'],
                                    {'heap': heap, 'env': env, 'calls': calls}))
    return out


def kf_lookup():
    """Keys are compared as code-point sequences - no key stands for another one.  For every key k of every family:
    A. an object (with an alias) holding every OTHER key of the family: objectHas / objectGet / objectGet with default / objectDelete of k (absent:
       false / null / the default / nothing changes), objectSet (k goes to the end), objectGet, objectDelete (only k goes);
    B. an object holding ONLY k: objectHas, objectGet with default, objectDelete of the other keys of the family (<= 28 per history), objectKeys.
    -> [(tags, spec)]"""
    out = []
    for fam, keys in sorted(KF_RANDOM_KEYS.items()):
        if fam in ('all', 'mixed'):
            continue
        for j, k in enumerate(keys):
            others = [x for x in reversed(keys) if x != k]
            o, key = {'var': j % 2}, {'s': k}
            calls = [{'fn': 'objectHas', 'args': [o, key]}, {'fn': 'objectGet', 'args': [o, key]}, {'fn': 'objectGet', 'args': [o, key, {'s': 'default'}]},
                     {'fn': 'objectDelete', 'args': [o, key]}, {'fn': 'objectKeys', 'args': [{'var': 0}]}, {'fn': 'objectSet', 'args': [o, key, {'n': [1, 1]}]},
                     {'fn': 'objectKeys', 'args': [{'var': 1}]}, {'fn': 'objectGet', 'args': [o, key, {'s': 'default'}]}, {'fn': 'objectHas', 'args': [o, key]},
                     {'fn': 'objectDelete', 'args': [o, key]}, {'fn': 'objectKeys', 'args': [{'var': 0}]}]
            out.append(([f'family:{fam}', 'lookup:absent-among-all-others'],
                        {'heap': [{'obj': [[x, {'s': x}] for x in others]}], 'env': [{'o': 0}, {'o': 0}], 'calls': calls}))
            for start in range(0, len(others), 28):
                calls = []
                for i, x in enumerate(others[start:start + 28]):
                    fn = ('objectHas', 'objectGet', 'objectDelete')[(i + j) % 3]
                    calls.append({'fn': fn, 'args': [{'var': i % 2}, {'s': x}] + ([{'s': 'default'}] if fn == 'objectGet' else [])})
                calls.append({'fn': 'objectKeys', 'args': [{'var': 0}]})
                out.append(([f'family:{fam}', 'lookup:others-against-one'],
                            {'heap': [{'obj': [[k, {'s': k}]]}], 'env': [{'o': 0}, {'o': 0}], 'calls': calls}))
    return out


def gen_key_history(rng, keys, maxlen=30):
    """A random history over the object functions on a pool of aliased objects; keys from `keys` (a family in ascending order)."""
    order = rng.choice(KF_ORDERS)

    def some_keys(n):
        n = min(n, len(keys))
        picked = set(rng.sample(range(len(keys)), n))
        return kf_order([k for i, k in enumerate(keys) if i in picked], order, rng)

    def value():
        r = rng.random()
        return None if r < 0.1 else {'s': rng.choice(keys)} if r < 0.2 else {'n': [rng.randint(0, 9), 1]}
    heap = [{'obj': [[k, value()] for k in some_keys(rng.choice([0, 0, 1, 2, 3, 5, 8]))]} for _ in range(rng.randint(2, 4))]
    env = [{'o': r} for r in range(len(heap)) for _ in range(rng.choice([1, 2, 2, 3]))] + [{'s': rng.choice(keys)}, {'n': [rng.randint(0, 11), 1]}, None]
    rng.shuffle(env)
    spec = {'heap': heap, 'env': env}
    _, shadow, val = build_pool(spec)
    shadow = list(shadow)
    calls = []

    def emit(fn, args):
        calls.append({'fn': fn, 'args': args})
        shadow.append(ref_call(fn, [shadow[a['var']] if isinstance(a, dict) and 'var' in a else val(a) for a in args])[1])

    def obj():
        return {'var': rng.choice([i for i, v in enumerate(shadow) if isinstance(v, dict)])}

    def key_of(o):
        present = list(shadow[o['var']])
        if rng.random() < 0.03:
            return rng.choice([{'n': [rng.randint(0, 11), 1]}, None, {'var': rng.randrange(len(shadow))}])      # a key that is not a string: the call fails
        return {'s': rng.choice(present)} if present and rng.random() < 0.5 else {'s': rng.choice(keys)}
    n = rng.randint(3, maxlen - 3)
    while len(calls) < n:
        op = rng.choice(['set'] * 5 + ['delete'] * 2 + ['reinsert'] * 2 + ['assign'] * 2 + ['copy', 'new', 'new', 'run', 'get', 'has'] + ['keys'] * 4)
        o = obj()
        if op == 'set':
            emit('objectSet', [o, key_of(o), value()])
        elif op == 'delete':
            emit('objectDelete', [o, key_of(o)])
        elif op == 'reinsert':
            k = key_of(o)
            emit('objectDelete', [o, k])
            emit('objectSet', [obj() if rng.random() < 0.2 else o, k, value()])
        elif op == 'assign':
            emit('objectAssign', [o, obj()])
        elif op == 'copy':
            emit('objectCopy', [o])
        elif op == 'new':
            emit('objectNew', [x for k in some_keys(rng.choice([0, 1, 2, 2, 3, 5])) for x in ({'s': k}, value())])
        elif op == 'run':
            for k in some_keys(rng.choice([2, 3, 4])):
                emit('objectSet', [o, {'s': k}, value()])
        elif op == 'get':
            emit('objectGet', [o, key_of(o)] + ([value()] if rng.random() < 0.5 else []))
        elif op == 'has':
            emit('objectHas', [o, key_of(o)])
        else:
            emit('objectKeys', [o])
    seen = set()
    for i, v in enumerate(list(shadow)):
        if isinstance(v, dict) and id(v) not in seen and len(calls) < maxlen:
            seen.add(id(v))
            emit('objectKeys', [{'var': i}])
    spec['calls'] = calls
    return spec


class key_mode:
    """within the block the generators of the lib stream draw object keys from the given family"""

    def __init__(self, keys):
        self.keys = list(keys)

    def __enter__(self):
        global KEYS                                              # pylint: disable=global-statement
        self.saved = KEYS
        KEYS = self.keys

    def __exit__(self, *unused):
        global KEYS                                              # pylint: disable=global-statement
        KEYS = self.saved


def kf_observed(spec):
    """-> (largest object whose keys a call of the history lists, was one of the listed key sequences distinguishable from a sorted one?)"""
    _, shadow, val = build_pool(spec)
    shadow = list(shadow)
    largest, unsorted = 0, False
    for c in spec['calls']:
        args = [(shadow[a['var']] if a['var'] < len(shadow) else None) if isinstance(a, dict) and 'var' in a else val(a) for a in c['args']]
        kind, res = ref_call(c['fn'], args)
        if c['fn'] == 'objectKeys' and kind == 'ok':
            largest = max(largest, len(res))
            unsorted = unsorted or kf_unsorted(res)
        shadow.append(res)
    return largest, unsorted


def key_history_specs(rng, nrandom, nlib, shuffles=1, quick=False):
    """-> [(tags, spec)]: the systematic product, random object histories per family, lib-stream histories with the family as key table"""
    cases = kf_systematic(rng, shuffles, quick) + kf_lookup()
    fams = sorted(KF_RANDOM_KEYS)
    for i in range(nrandom):
        fam = fams[i % len(fams)]
        cases.append(([f'family:{fam}', 'random-object-history'], gen_key_history(rng, KF_RANDOM_KEYS[fam])))
    for i in range(nlib):
        fam = fams[i % len(fams)]
        with key_mode(KF_RANDOM_KEYS[fam]):
            cases.append(([f'family:{fam}', 'lib-history'], gen_history(rng, maxlen=20)))
    return cases


def stream_object_keys(ctx):
    st = ctx.stream('object-keys',
                    'the key sequence of an object is the insertion order of the reference dict, whatever the keys look like: object histories whose keys come from the '
                    "families index (canonical array indices '0' '7' '10' '4294967295' '4294967296' ...), near-number ('' ' 1' '+1' '-0' '-1' '00' '01' '0x10' '1.0' "
                    "'1.5' '1_0' '1e3' 'NaN', non-ASCII digits), words (keywords, dunder and dict-method names: '__proto__' 'constructor' 'keys' 'items' 'pop' 'if' "
                    "'null'), case-normalisation ('key' 'Key' 'KEY', U+00E9 / e U+0301, sharp s / ss, Kelvin sign / k, final sigma), long (100, 101, 1000, 1001, 4096 "
                    'code points, equal up to the last one) and mixed.  Systematic part: family x inserted in ascending / descending / shuffled order x number of keys 0, 1, 2, 9, 10, 11, 16, '
                    '17, 64, 65, 100, 101, 128, 129, 256, 1000 (as far as the family goes) x built by the host / one objectNew call (<= 129 keys) / objectSet calls (<= 17 '
                    'keys; the quick tier runs the sizes above 17 for index and mixed keys in descending / shuffled order only), followed by objectKeys of the object, of its objectCopy, of an empty and of a two-key object after objectAssign from it, after '
                    'objectDelete and objectSet of its first key (re-inserted: moves to the end), after overwriting its middle key (keeps its place), through '
                    'the alias and of the earlier copy.  Lookup part (keys are compared as code-point sequences - no key stands for another one; family confusable: keys equal after strip / '
                    "int() / float() / case folding / normalisation / truncation at 1000 / wrap-around at 2**32: '1' ' 1' '+1' '01' '1.0' '1_0' | '1000' '1e3' | '0' '-0' '' | "
                    "'4294967296' '4294967295' '-1' | 'key' 'Key' 'key ' | 'null' 'None'): for every key k of every family, an object holding every OTHER key of the family - "
                    'objectHas / objectGet / objectGet with default / objectDelete of k, objectSet of k (goes to the end), objectDelete of k (only k goes) - and an object holding '
                    'ONLY k - objectHas / objectGet with default / objectDelete of every other key of the family.  Random part: <= 30 calls of objectSet / objectDelete / delete + re-insert / objectAssign / objectCopy / '
                    'objectNew / objectGet / objectHas / objectKeys (and ~3% calls with a key that is not a string) on 2-4 objects with 1-3 aliases each, objectKeys of '
                    'every object at the end; lib-stream histories (all functions) with the family as key table.  After every call: result, complete state '
                    '(key order included) with aliasing, frame, freshness against reference and model; non-trivial = objectKeys lists an object whose '
                    'key sequence differs from its sorted and from its indices-first order')
    rng = ctx.rng('object-keys')
    cases = key_history_specs(rng, ctx.scale(300, 4000), ctx.scale(90, 1500), ctx.scale(1, 2), ctx.quick)
    it = iter(cases)

    def tags_of(spec, info):
        tags, _ = next(it)
        largest, unsorted = kf_observed(spec)
        size = next((s for s in KF_SIZES if largest <= s), KF_SIZES[-1])
        return unsorted, tags + [f'listed<={size}'] + ['fn:' + c['fn'] for c in spec['calls'] if c['fn'].startswith('object')] + ['failing-call'] * info['fails']
    specs = [spec for _, spec in cases]
    for i in range(0, len(specs), 200):
        run_batch(ctx, 'object-keys', st, specs[i:i + 200], tags_of)


def streams(ctx):
    stream_args(ctx)
    stream_index(ctx)
    stream_callbacks(ctx)
    stream_sort(ctx)
    stream_function_values(ctx)
    stream_lib_surrogates(ctx)
    stream_text_surrogates(ctx)
    stream_empties(ctx)
    stream_code_points(ctx)
    stream_history_independence(ctx)
    stream_object_keys(ctx)
    text_oracles(ctx)
    answered = stream_lib(ctx)
    stream_lib_through_machine(ctx, answered)


def search(ctx):
    """Something no longer checks: look harder for a history on which implementation and reference differ."""
    rng = ctx.rng('search')
    # 1. the disagreeing cases themselves
    for d in ctx.disagreements:
        if d and isinstance(d.get('case'), dict) and 'spec' in d['case']:
            wit, _, info = check_history(d['case']['spec'])
            for oracle, k, want, got in wit:
                ctx.witness(oracle, {'spec': d['case']['spec'], 'step': k, 'script': info['script']}, want, got)
            if ctx.witnesses:
                return
    # 2. the systematic argument cases, 3. many short histories with a high rate of bad arguments and edge indices
    specs = []
    for fn, _, args in args_cases():
        spec = copy.deepcopy(ARGS_POOL)
        spec['calls'] = [{'fn': fn, 'args': args}]
        specs.append(spec)
    specs += [spec for _, spec in callback_specs(rng, ctx.scale(1000, 10000))]
    specs += [gen_history(rng, maxlen=12, p_bad=0.3) for _ in range(ctx.scale(4000, 40000))]
    for spec in specs:
        wit, _, info = check_history(spec)
        for oracle, k, want, got in wit:
            ctx.witness(oracle, {'spec': spec, 'step': k, 'script': info['script']}, want, got)
        if ctx.witnesses:
            return
    for _, case in sort_cases(rng, ctx.scale(5000, 50000)):
        for oracle, want, got in sort_failures(case):
            ctx.witness(oracle, {'sort': case}, want, got)
        if ctx.witnesses:
            return
    # 4. calls through function values, recording call-backs; text with lone surrogates
    for spec in [spec for _, spec in fv_systematic() if fv_usable(spec)] + [gen_fv_history(rng) for _ in range(ctx.scale(2000, 20000))]:
        wit, script = fv_check(spec)
        for oracle, k, want, got in wit:
            ctx.witness(oracle, {'fv': spec, 'step': k, 'script': script}, want, got)
        if ctx.witnesses:
            return
    with surrogate_mode():
        specs = [gen_history(rng, maxlen=12, p_bad=0.2) for _ in range(ctx.scale(1000, 10000))]
    specs += [spec for _, spec in key_history_specs(rng, ctx.scale(1500, 15000), ctx.scale(500, 5000), 2, ctx.quick)]      # key alphabets
    for spec in specs:
        wit, _, info = check_history(spec)
        for oracle, k, want, got in wit:
            ctx.witness(oracle, {'spec': spec, 'step': k, 'script': info['script']}, want, got)
        if ctx.witnesses:
            return
    impl = fw.impl()
    script = impl['parser'].parse_script('e = regexEscape(s)\nu = urlEncode(s)\nc = urlEncodeComponent(s)')
    for _ in range(5000):
        s = rand_string(rng, WIDE, 10)
        glob = {'s': s}
        impl['runtime'].execute_script(script, {'globals': glob, 'maxStatements': 100})
        for oracle, want, actual in text_failures(s, [glob.get('e'), glob.get('u'), glob.get('c')], rng):
            ctx.witness(oracle, {'s': s}, want, actual)
            return


def replay(witness):
    inp = witness['input']
    if 'sort' in inp:
        return bool(sort_failures(inp['sort']))
    if 'spec' in inp:
        wit, _, _ = check_history(inp['spec'])
        return bool(wit)
    if 'fv' in inp:
        return bool(fv_check(inp['fv'])[0])
    if 'hist' in inp:
        return hi_history([], inp['hist']['probe']) != hi_history(inp['hist']['before'], inp['hist']['probe'], inp['hist'].get('mutate', False))
    try:
        got, seen = text_run(inp['s'], inp.get('codes'))
    except Exception:  # pylint: disable=broad-except
        return True
    return seen != inp['s'] or bool(text_failures(inp['s'], got, fw.rng_for(0, 'C15', 'replay')))


LEVEL_TEXT = ('Theorems over a heap model (arrays/objects as shared cells) for ALL heaps, argument lists and call histories: frame (only the '
              'first argument of the nine mutators can change, everything else keeps contents), freshness (copies/slices/new containers '
              'are new cells), failing calls return the documented failure value and leave the heap unchanged, the Python-shaped bodies '
              '(float indices, int() truncation, negative wrap-around, clamping slices, range loops, find/rfind bounds) equal reference '
              'operations on natural indices (lib_spec_partial), lifted to histories by induction; re.escape output is a literal-atom pattern for '
              'exactly its argument; percent-decoding urllib.parse.quote output gives back the UTF-8 bytes. Argument models, failure '
              'values, URL safe sets, re.escape specials are regenerated from the working tree on every run and must equal the '
              'documented tables (decide). The model is tied to library.py by histories executed through scripts and checked against '
              'an independent pure-Python reference after every call. The same model is the library of the jump machine '
              '(HostLib.hostLib: Machine.Value and Lib.Value are isomorphic, a modelled library call of the machine is exactly one Lib.step), '
              'so frame, freshness and failure hold for calls issued through Machine.callValue (machine_lib_frame/_fresh/_fail_unchanged: '
              'nothing but the first argument of a mutator changes - no other cell, no global, no log line, not the statement counter) and any '
              'straight-line script of library calls run by execM\u2080 / Machine.execute reaches the state Lib.runHistory (= the fold of the '
              'reference operations) describes (machine_history_refines); tied by the lib-through-machine stream (script text executed by '
              'the implementation and by the Lean machine over hostLib).')
LEVEL_NOTE = ('Trusted: Lean kernel; extract.py; the correspondence harness and its reference Ref. Modelled not verified: CPython str/list/dict '
              'primitives, re.escape, urllib.parse.quote (tables re-extracted). The match-function form of arrayIndexOf/arrayLastIndexOf is '
              'outside the Lean model (Eff.unmodelled: the model takes the result from the implementation and still checks that the heap is '
              'untouched); its contract - first / last index whose call-back result is true by the language\'s truth rules, for script-defined '
              'and host call-backs returning every value class - is correspondence-strength: Python reference (match_pred / ref_truthy) in the '
              'callbacks, lib and args streams. Unmodelled (skipped, counted in evidence): arrayJoin over non-integral numbers/datetimes/containers, stringLower/Upper on '
              'non-ASCII, surrogate code points, cyclic containers (F18), stringNew. arraySort is outside the Lean model too (its order is the subject '
              'of C11); the sort stream checks it on the implementation only: the passed array is returned, permuted in place, adjacent '
              'elements in order by the compare call-back (script-defined / host, fractional results) or the reference comparison, '
              'failure = null and nothing moves; stability is not demanded; recording last-argument-array compare functions get one fresh '
              'array [x, y] per call. Calls through function values (systemPartial-bound library functions / recorders, library functions and '
              'bound functions as match functions, last-argument-array script functions that keep or change their argument array) are '
              'correspondence-strength too: stream function-values against the Python reference (RefFn / FvWorld) and, for histories within the '
              'machine\'s library (no match-function form of arrayLastIndexOf / of arrayIndexOf with a start index, no non-ASCII case mapping), '
              'against the Lean jump machine over hostLib; a library call that FAILS while being run as a call-back by another library '
              'function is left out (the property does not say whose failure value the outer call has). Text with lone surrogates: '
              'implementation-only streams lib-surrogates / text-surrogates / the surrogate part of code-points (urlEncode*: null or a reversible encoding). '
              'Hidden state (a cache keyed by host equality, a result handed out twice) is outside the Lean model, whose calls are functions of heap and arguments and whose '
              'numbers have no negative zero and no int / float / bool spelling: stream history-independence compares every probe call with itself, alone in a fresh '
              'instance of the package and inside differently ordered histories (correspondence-strength). For string functions whose body already is '
              'a plain code-point operation (startsWith, endsWith, split, replace, trim, lower/upper) the reference IS the modelled '
              'primitive: their contract is correspondence-strength (lib stream + Python reference), not a theorem. Machine level: the '
              'bridge theorems assume the call is one Lib models (decidable predicate Modelled / AllModelled); an unmodelled call falls back to '
              'the HostImpl tree for systemLog, systemGlobalGet/Set, systemPartial, systemCompare, systemType, systemBoolean and the '
              'predicate form of arrayIndexOf (machine_lib_heap: the heap is untouched unless a script call-back changes it) and to the '
              'wrapper\'s null for every other name (machine_lib_unmodelled); history arguments are variables or null/boolean/number/string '
              'literals (ArgOK).')


# extension: further model code, theorems and streams (DESIGN 13.7)
from props import c15x as _ext  # noqa: E402  pylint: disable=wrong-import-position
_ext.EXTRA_ROOTS = ['Drv.C15X']
fw.attach_extension(globals(), _ext)


# extension: the call-back forms of arrayIndexOf / arrayLastIndexOf / arraySort (CPython binary insertion sort modelled exactly below 64 elements) (DESIGN 13.9)
from props import c15y  # noqa: E402  pylint: disable=wrong-import-position
c15y.EXTRA_ROOTS = ['Drv.C15Y']
fw.attach_extension(globals(), c15y)
