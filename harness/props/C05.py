"""C05 - runtime errors are contained: only documented exceptions escape."""

import copy
import datetime
import json
import os
import re
import sys
import time
from fractions import Fraction

import fw
import progen

ID = 'C05'
LEVEL = 'proof'
LEAN_TARGETS = ['BareProofs.C05']
DRIVER = 'drv_c05'
DRIVER_ROOT = 'Drv.C05'
GEN = []
THEOREMS = [
    # the operator block (host level: Python exceptions are values)
    'C05.binopPy_raises_only', 'C05.handler_covers_block', 'C05.binopSafe_total', 'C05.binopSafe_no_escape',
    'C05.complex_is_null', 'C05.raised_is_null', 'C05.binopF4_escapes_only', 'C05.negSafe_never_raises',
    'C05.jsonVal_only', 'C05.valueString_only', 'C05.cmpVal_only',
    # the call wrapper
    'C05.wrapper_contains', 'C05.wrapper_swallows_every_host_class', 'C05.failure_is_null_or_documented',
    'C05.failure_logged_once_in_debug', 'C05.failure_log_length', 'C05.wrapper_result_config_independent',
    'C05.wrapper_silent_without_logFn_or_debug',
    # machine level
    'C05.no_host_escape_machine', 'C05.no_host_escape_expr', 'C05.libOut_of_wrapCall', 'C05.log_line_iff_machine_logFailure',
    'C05.execution_continues', 'C05.binary_continues', 'C05.args_continue', 'C05.statement_continues',
    # host-level model vs the operator of the correspondence drivers
    'C05.refines_host_arith', 'C05.refines_host_mod', 'C05.compare_scalar', 'C05.refines_host_cmp', 'C05.refines_host_concat',
    'C05.refines_host_unsupported', 'C05.refines_host_pow_partial',
]
ASSUMPTIONS = [
    'values are BareScript values: null, booleans, int/float numbers (any magnitude, non-finite included), strings, date/datetime, '
    'arrays, STRING-keyed objects, functions, regexes. A host-supplied dict with non-string keys (e.g. {1: 2, "x": 3}) is outside the '
    'domain: sorted(items)/json sort_keys raise TypeError on it in == and string concatenation (value.py:215, json encoder). Host values of '
    'OTHER types (decimal.Decimal, Fraction, complex, tuple, set, bytes, enum members, subclasses of the builtin types, opaque objects - '
    'value.py reads them as type "unknown") are not values of the Lean model either, but they are inside the property ("with any globals"): '
    'stream host-values checks on the implementation that no operator, statement site or library call lets a host exception escape on them '
    'and that every operator result is a BareScript value',
    'host functions that re-enter the runtime (execute_script / evaluate_expression / a script function, with the options they were handed, '
    'a copy, a fresh dict, None) are inside the property (a host function is a global): the machine of the Lean model has no such '
    'transition; stream host-reentry checks them on the implementation. Not generated: a loop of the outer script that re-enters with the '
    'SAME options on every iteration under a small maxStatements (the nested execute_script resets the shared statement counter, '
    'runtime.py:43 - a matter of the statement limit, not of containment)',
    'CPython/libm are modelled, not verified (BareModel/HostPy.lean, structure Libm): rounding to binary64, libm pow on a positive '
    'base, timedelta rounding, astimezone() range behaviour, float repr; every theorem holds for ALL such behaviours (Libm is a '
    'parameter); the driver instance HostPy.ieee (correctly rounded binary64, zone UTC) is sampled against CPython by stream binop-host',
    '-0.0 is identified with 0.0 in the host-level model (no exception depends on the sign of zero; results are compared as rationals)',
    'outside the Lean model (DESIGN section 6) but checked on the implementation by stream deep-expression: the recursion limit at '
    'evaluator level. The host stack headroom is treated as a host configuration: what a host could PARSE with 16 frames less room '
    '(default limit 1000, and the smallest limit that still parses) must execute without RecursionError - for the late-nesting class '
    '(a nested operand is the LAST operand of its operator chain; chains of every operator, unary runs, groups, call / if() arguments, '
    'all expression sites) and for wide scripts. NOT in that class, and failing on the unchanged code: a nested LEADING operand '
    '(`!!!...f + 1 + 1 ...`, `((f + 1 + 1) + 1 + 1) ...`, 520 + 520 levels) - the parser is done with it before it descends into the '
    'chain (need max(nesting, chain)), the evaluator needs nesting + chain frames and RecursionError escapes execute_script; also the '
    'last 2 frames below the limit (a 996-term sum parses and escapes). Reported (candidate finding F33; probes are recorded as notes in '
    'the evidence and become witnesses once the finding is listed). Deep SCRIPT recursion is swallowed by the call wrapper '
    '(call = null + one debug line). Also outside: memory / time exhaustion '
    '(arrayNewSize(1e308), mathRound(x, <400-digit int>) would run for ever: such size arguments are not generated), '
    'KeyboardInterrupt/SystemExit, exceptions raised by the host-supplied logFn/urlFn themselves',
    'exec correspondence (driver op exec) is run on the exactly representable fragment only (small dyadic numbers, integral exponents)',
    'host options (doc/options.md): every member is optional and the check runs every case with members ABSENT (debug, logFn, fetchFn, '
    'globals, maxStatements, the whole options argument); a member that is present has its documented type - debug a bool, logFn / '
    'fetchFn callables. An explicit "logFn": None is outside the domain (the include statement and the library tolerate it, the '
    'call wrapper of runtime.py:246 would call it in debug mode: TypeError)',
    'host boundary (streams host-failure, host-fetch): a host function may fail with ANY Exception (sub)class, with or without a message, '
    'whatever its str() is - except that str(exc) itself raising is outside for now: the unchanged handler formats the exception outside '
    'any try (runtime.py:246-247), so in debug mode with a logFn a statement-level call lets the exception of __str__ escape; reported as '
    'candidate finding F34 (probes are notes in the evidence and become witnesses once the finding is listed). A fetchFn answers a str '
    '(doc/options.md: rtype str; any str - empty, blank, a str subclass), None, or raises; other answer types (bytes, numbers, lists of '
    'non-strings) are outside the domain (TypeError from parse_script escapes at statement level). Whether a byte order mark in front of '
    'a fetched text is script text is not a matter of error containment (the include may reject it as a syntax error or drop it). The '
    'exception of a failing logFn coming back to the host that supplied it is not counted (it is only required that nothing ELSE escapes)',
]
TRUSTED = ['harness/props/C05.py: operand/argument pools, the reference reading of the operator block (py_block) and of the wrapper '
           '(callee outcome measured by calling the library function directly)']
LEVEL_TEXT = ('Theorems (Lean 4, for ALL operands, heaps incl. cyclic ones, recursion limits and libm/rounding/zone behaviours): the body '
              'of the operator try-block of evaluate_expression, modelled over partial Python primitives in which exceptions are values, '
              'raises per operator only ZeroDivisionError/OverflowError/ValueError/RecursionError (never TypeError, KeyError, IndexError '
              'or anything else: every primitive sits behind its type guard); the handler of runtime.py:351 covers each of them and '
              'the complex result of ** is mapped to null, so the block is a total function into values (binopSafe_total, no '
              'hypothesis - after fix F25 neither NoHugeInt nor Acyclic is needed); what escaped under the pre-F25 handler is '
              'characterised exactly (binopF4_escapes_only). The call wrapper maps every callee outcome to a value or re-raises '
              'exactly the two documented exceptions; a failing call evaluates to null or the documented failure value, appends '
              'exactly one debug line iff debug and logFn, and the machine state afterwards is the callee\'s state plus that line: '
              'evaluation of the remaining operands/arguments/statements continues as after a normal return. At machine level '
              'no host exception is representable (typing); the doc-comment of no_host_escape_machine lists what the typing assumes '
              'and which theorem discharges it. refines_host_*: the rational operator of the correspondence drivers agrees with the '
              'host-level model on the exactly representable fragment. Tie: host-level model (correctly rounded binary64 instance) '
              'vs CPython primitives vs evaluate_expression on an adversarial operand pool x all operators; every library function '
              'x wrong-typed/missing/surplus argument lists against the wrapper model; generated programs with adversarial operands '
              'vs the jump machine in both debug modes; oracle on the implementation: nothing but BareScriptRuntimeError / '
              'BareScriptParserError ever escapes execute_script / evaluate_expression - under EVERY host configuration: each case of '
              'every stream is run with debug True/False and a logFn, and again under the other combinations of debug '
              'True/False/absent x logFn supplied/absent (scripts: x fetchFn file table/absent/raising, globals absent; expressions: '
              'options None / without globals; corpus: also without maxStatements and with no options at all); outcome, globals, '
              'statement count and what reaches a supplied logFn must be those of the reference configuration with the same debug '
              'mode (one failure line per swallowed failure iff debug and logFn - the wrapper model is run with hasLogFn false too). '
              'Implementation-only oracle streams: deep-expression (the stack headroom of the embedding application as a host '
              'configuration: whatever was parsed 16 frames deeper executes without RecursionError, default and tightest limit, every '
              'expression site, late-nesting expressions of every operator class + wide scripts) and hostile-text (format-string / '
              'template / control / Unicode text in the offending line and URL of a bad include and in every failing or logging '
              'statement: a bad include raises BareScriptParserError with the same description, line and column as with neutral text), '
              'host-failure (host functions / urlFn failing with every builtin exception class without a message, every kind of '
              'message, custom __str__, unusual signatures, the in-script MemoryError(), at every position of the call x host '
              'configuration x kind of logFn x re-use of the options: contained, null, identical to the twin that returns null / fails '
              'with a plain ValueError, one failure line iff debug and logFn; statement-level outcomes also against HostPy.wrapCall) and '
              'host-fetch (what a fetchFn answers: empty / blank / BOM / comment-only / broken text, str subclass, None, raising, wrong '
              'signature, at every position of an include and under systemFetch, histories on shared options), '
              'host-values (54 host values a script cannot create or that are BareScript values by subclassing x every operator / partner / '
              'access path / statement site / library function: nothing escapes, every operator result is a BareScript value), '
              'host-reentry (host functions calling back into execute_script / evaluate_expression / script functions with the same, copied, '
              'fresh or no options, 0-1000 further statements of every kind after the call, 1-9 levels, 1-3 runs: the outer run carries on as '
              'with the twin that answers the same value without re-entering), script-shapes (every combination of the optional members of the '
              'script model the parser produces - `function f(...):`, 0-256 parameters / arguments, empty bodies, bare return / jump, empty '
              'files - executed, never called or called: nothing escapes, nothing is reported that did not fail) and layered-errors (20 failing '
              'statements under every stack of includes 0-65 deep, functions, callbacks, blocks, re-entering host functions: a documented '
              'exception arrives as a documented exception, a contained failure stays contained) and arity (the argument COUNT of what the '
              'evaluator binds itself, outside the wrapper: the built-in if with 0-8 and up to 256 arguments, script functions with 0-8 parameters '
              'x 0-10 arguments, every library function / expression built-in with 0 .. declared + 3 arguments, at 11 statement sites at top level / '
              'in a function / in an included file / in a function of an included file and at 14 stand-alone expression sites: nothing escapes, the '
              'statement after the call runs - inside the function too -, no failure line names if or a script function).')
LEVEL_NOTE = ('Trusted: Lean kernel; correspondence harness (pools, reference reading of the block and of the wrapper). Modelled not '
              'verified: CPython int/float arithmetic, libm pow, datetime/timedelta, json encoder failure modes, str(int) digit '
              'limit (all parameters or explicit cases of BareModel/HostPy.lean, sampled by stream binop-host). Library function '
              'BODIES are not modelled here (C12/C15): C05 uses only that whatever they raise passes through the wrapper. Recursion '
              'limit at evaluator level (sampled by stream deep-expression, not modelled), memory and time are outside the model.')

UTC = datetime.timezone.utc
EPOCH = datetime.datetime(1, 1, 1)
US = datetime.timedelta(microseconds=1)
FAIL_RE = re.compile(r'^BareScript: Function "([^"]*)" failed with error: ')
CORPUS = os.path.join(fw.VERIF, 'harness', 'corpus', 'C05.jsonl')


# ---------------------------------------------------------------------------------------------------------------------
# running the implementation: anything but the two documented exceptions is an ESCAPE
# ---------------------------------------------------------------------------------------------------------------------

def exc_text(exc):
    """str(exc) - the harness itself must survive an exception whose __str__ raises or answers a non-string"""
    try:
        text = str(exc)
    except Exception as inner:  # pylint: disable=broad-except
        return f'<str() of {type(exc).__name__} raised {type(inner).__name__}>'
    return text


def guarded(mods, fn):
    try:
        return ('ok', fn())
    except mods['runtime'].BareScriptRuntimeError as exc:
        return ('rt', exc_text(exc))
    except mods['parser'].BareScriptParserError as exc:
        return ('parser', exc_text(exc).split('\n', 1)[0])
    except (KeyboardInterrupt, SystemExit):
        raise
    except BaseException as exc:  # pylint: disable=broad-except
        return ('escape', type(exc).__name__, exc_text(exc)[:160])


# ---------------------------------------------------------------------------------------------------------------------
# host configurations: the property quantifies over the EMBEDDING too.  Every member of ExecuteScriptOptions is optional
# (doc/options.md), so a run is checked under every combination of  debug {True, False, absent} x logFn {supplied, absent}
# (x fetchFn {a file table, absent, a function that raises} for scripts), and expressions also under options None / {} /
# no 'globals'.  JSON-able, so that a witness can be replayed.  The two REFERENCE configurations (logFn supplied, debug
# True / False) are run for every case; the others rotate over the cases (quick) or are all run (thorough).
# ---------------------------------------------------------------------------------------------------------------------

ABSENT = '<absent>'
REF_ON = {'debug': True, 'logFn': True}
REF_OFF = {'debug': False, 'logFn': True}
EXTRA_CONFIGS = [{'debug': True, 'logFn': False}, {'debug': ABSENT, 'logFn': True}, {'debug': False, 'logFn': False},
                 {'debug': ABSENT, 'logFn': False}]
FETCH_MODES = ['files', 'absent', 'raises']
# the corpus (fixed scripts, known to terminate) is also run without 'maxStatements', without 'globals' and with options None
CORPUS_CONFIGS = EXTRA_CONFIGS + [{'debug': True, 'logFn': False, 'noMax': True, 'noGlobals': True}, {'debug': ABSENT, 'logFn': True, 'noMax': True},
                                  {'debug': True, 'logFn': True, 'noGlobals': True}, {'none': True}]


def cfg_debug(cfg):
    """is debug mode on under this configuration (options.get('debug'))"""
    return cfg['debug'] is True


def cfg_logs(cfg):
    """does a failing call have to be reported under this configuration"""
    return cfg_debug(cfg) and cfg['logFn']


def cfg_tag(cfg):
    if cfg.get('none'):
        return 'options=None'
    return f"debug={cfg['debug']}/logFn={'yes' if cfg['logFn'] else 'no'}" + (f"/fetch={cfg['fetchFn']}" if 'fetchFn' in cfg else '') + \
        ('/noglobals' if cfg.get('noGlobals') else '') + ('/nomax' if cfg.get('noMax') else '')


def extra_configs(ctx, ix, rng=None, fetch=False):
    """the non-reference configurations to run for case number ix (scripts: also fetchFn mode and 'globals' absent)"""
    cfgs = [dict(c) for c in (EXTRA_CONFIGS if not ctx.quick else [EXTRA_CONFIGS[ix % len(EXTRA_CONFIGS)]])]
    if fetch:
        for c in cfgs:
            c['fetchFn'] = rng.choice(FETCH_MODES)
            if rng.random() < 0.25:
                c['noGlobals'] = True
    return cfgs


def make_options(cfg, log, globals_=None, files=None, fetch=None, **more):
    """the options dict of one host configuration (log: the list that collects what reaches logFn, if one is supplied)"""
    options = dict(more)
    if globals_ is not None:
        options['globals'] = globals_
    if cfg['debug'] != ABSENT:
        options['debug'] = cfg['debug']
    if cfg['logFn']:
        options['logFn'] = log.append
    mode = cfg.get('fetchFn', 'files')
    if mode == 'raises':
        def raising_fetch(req):
            raise OSError('fetch failed: ' + str(req)[:40])
        options['fetchFn'] = raising_fetch
    elif mode == 'files':
        if fetch is not None:
            options['fetchFn'] = fetch
        elif files is not None:
            options['fetchFn'] = lambda req: files_lookup(files, req['url'])
    return options


def files_lookup(files, url):
    """the file table of a fetchFn: exact URL, else a key '*suffix' serves every URL that ends with the suffix"""
    if url in files:
        return files[url]
    return next((v for k, v in files.items() if k.startswith('*') and isinstance(url, str) and url.endswith(k[1:])), None)


def run_script(mods, text, globals_=None, debug=True, max_statements=20000, files=None, cfg=None):
    """-> (outcome, log, globals dict)"""
    log = []
    g = dict(globals_ or {})
    cfg = cfg or {'debug': debug, 'logFn': True}
    if cfg.get('none'):                                 # execute_script(script): no options at all
        return guarded(mods, lambda: mods['runtime'].execute_script(mods['parser'].parse_script(text))), log, None
    more = {} if cfg.get('noMax') else {'maxStatements': max_statements}
    options = make_options(cfg, log, None if cfg.get('noGlobals') else g, files=files, **more)

    def go():
        return mods['runtime'].execute_script(mods['parser'].parse_script(text), options)
    out = guarded(mods, go)
    return out, log, (options.get('globals') or {}) if cfg.get('noGlobals') else g


# ---------------------------------------------------------------------------------------------------------------------
# value specs (JSON-able, so that every case can be replayed):  spec -> Python value, spec -> tagged wire value (+ heap)
# ---------------------------------------------------------------------------------------------------------------------

def dt_us(parts):
    return (datetime.datetime(*parts) - EPOCH) // US


def build(spec, mods):
    """spec -> a FRESH Python value"""
    k = spec[0]
    if k == 'none':
        return None
    if k == 'bool':
        return bool(spec[1])
    if k == 'int':
        return int(spec[1], 16)
    if k == 'float':
        return float(spec[1])
    if k == 'str':
        return spec[1]
    if k == 'dt':
        kind, parts, off = spec[1], spec[2], spec[3]
        if kind == 'date':
            return datetime.date(*parts)
        if kind == 'aware':
            return datetime.datetime(*parts, tzinfo=datetime.timezone(datetime.timedelta(minutes=off)))
        return datetime.datetime(*parts)
    if k == 'list':
        return [build(s, mods) for s in spec[1]]
    if k == 'dict':
        return {key: build(s, mods) for key, s in spec[1]}
    if k == 'cyclic_list':
        a = [1]
        a.append(a)
        return a
    if k == 'cyclic_dict':
        d = {'a': 1}
        d['self'] = [d]
        return d
    if k == 'nest':
        a = []
        for _ in range(spec[1]):
            a = [a]
        return a
    if k == 'fn':
        return mods['library'].SCRIPT_FUNCTIONS[spec[1]]
    if k == 'regex':
        return re.compile(spec[1])
    if k == 'pyfn':
        return make_pyfn(spec[1], mods)
    if k == 'hv':
        return hv_build(spec[1])
    raise ValueError(spec)


def make_pyfn(kind, mods):
    runtime = mods['runtime']

    def raise_rt(args, options):
        raise runtime.BareScriptRuntimeError('callback boom')

    def raise_key(args, options):
        raise KeyError('callback key')

    def ident(args, options):
        return args[0] if args else None

    def bad_inner(args, options):       # a script-level failure inside the callback: swallowed by the INNER wrapper
        return runtime.evaluate_expression({'function': {'name': 'arrayGet', 'args': [{'variable': 'null'}, {'number': 9.0}]}},
                                           options, None, False)
    return {'raise_rt': raise_rt, 'raise_key': raise_key, 'ident': ident, 'bad_inner': bad_inner}[kind]


def float_wire(x):
    if x != x:
        return 'nan'
    if x in (float('inf'), float('-inf')):
        return 'inf' if x > 0 else '-inf'
    fr = Fraction(x)
    return [fr.numerator, fr.denominator]


def wire_spec(spec, heap):
    """spec -> tagged value for the driver (containers go to `heap`)"""
    k = spec[0]
    if k == 'none':
        return None
    if k == 'bool':
        return {'b': bool(spec[1])}
    if k == 'int':
        return {'ih': spec[1]}
    if k == 'float':
        return {'f': float_wire(float(spec[1]))}
    if k == 'str':
        return {'s': spec[1]}
    if k == 'dt':
        kind, parts, off = spec[1], spec[2], spec[3]
        us = dt_us(parts)
        if kind == 'aware':
            us -= off * 60 * 1000000
        return {'d': [kind, us]}
    if k == 'list':
        idx = len(heap)
        heap.append(None)
        heap[idx] = {'list': [wire_spec(s, heap) for s in spec[1]]}
        return {'l': idx}
    if k == 'dict':
        idx = len(heap)
        heap.append(None)
        heap[idx] = {'dict': [[key, wire_spec(s, heap)] for key, s in spec[1]]}
        return {'o': idx}
    if k == 'cyclic_list':
        idx = len(heap)
        heap.append({'list': [{'ih': '0x1'}, {'l': idx}]})
        return {'l': idx}
    if k == 'cyclic_dict':
        idx = len(heap)
        heap.append({'dict': [['a', {'ih': '0x1'}], ['self', {'l': idx + 1}]]})
        heap.append({'list': [{'o': idx}]})
        return {'o': idx}
    if k == 'nest':
        base = len(heap)
        heap.append({'list': []})
        for i in range(spec[1]):
            heap.append({'list': [{'l': base + i}]})
        return {'l': base + spec[1]}
    if k in ('fn', 'pyfn'):
        return {'c': 0}
    if k == 'regex':
        return {'r': 0}
    raise ValueError(spec)


def tag(v):
    """a Python RESULT value -> tagged form (results of operators are scalars or naive datetimes)"""
    if v is None:
        return None
    if isinstance(v, bool):
        return {'b': v}
    if isinstance(v, int):
        return {'ih': hex(v)}
    if isinstance(v, float):
        return {'f': float_wire(v)}
    if isinstance(v, str):
        return {'s': v}
    if isinstance(v, datetime.datetime) and v.tzinfo is None:
        return {'d': ['naive', (v - EPOCH) // US]}
    return {'other': type(v).__name__}


def deep(v, lib=None, depth=0, path=()):
    """any value -> canonical JSON-able form (a container met again on the current path is cut: a self-containing array
    that was extended with itself branches; ints as hex text: decimal text above 4300 digits is refused by CPython itself,
    also inside json.dumps)"""
    if depth > 40:
        return '<deep>'
    if v is None or isinstance(v, (bool, str)):
        return v
    if isinstance(v, int):
        return {'ih': hex(v)}
    if isinstance(v, float):
        return {'f': float_wire(v)}
    if isinstance(v, datetime.date):
        return {'d': repr(v)}
    if isinstance(v, (list, dict)):
        if id(v) in path:
            return '<cycle>'
        path = path + (id(v),)
        if isinstance(v, list):
            return [deep(x, lib, depth + 1, path) for x in v]
        return {'o': [[str(k), deep(v[k], lib, depth + 1, path)] for k in sorted(v, key=str)]}
    if callable(v):
        if lib is not None:
            for name, fn in lib.items():
                if fn is v:
                    return {'fn': name}
        return {'fn': getattr(v, '__name__', 'other')}
    return {'other': type(v).__name__}


def I(n):
    return ['int', hex(n)]


def Fl(x):
    return ['float', repr(float(x))]


def S(s):
    return ['str', s]


def DT(kind, parts, off=None):
    return ['dt', kind, list(parts), off]


NUM_SPECS = [
    I(0), I(1), I(-1), I(2), I(3), I(-7), I(10), I(2 ** 53 + 1), I(10 ** 18), I(10 ** 400), I(-10 ** 400), I(10 ** 4299), I(10 ** 4300),
    I(-(10 ** 5000)), I(2 ** 1024), I(2 ** 1023),
    Fl(0.0), Fl(-0.0), Fl(0.5), Fl(1.0), Fl(-1.0), Fl(2.0), Fl(-2.0), Fl(3.0), Fl(-8.0), Fl(0.1), Fl(1e308), Fl(-1e308), Fl(5e-324),
    Fl(2.0 ** 1023), Fl(1e300), Fl(1e-300), Fl(1e16), Fl(123456789.125), Fl(1024.0), Fl(-1024.5), Fl(400.0), Fl(1e13), Fl(-1e13),
    Fl(86400000.0), ['float', 'inf'], ['float', '-inf'], ['float', 'nan'],
]
OTHER_SPECS = [
    ['none'], ['bool', True], ['bool', False], S(''), S('a'), S('abc'), S('10'),
    DT('naive', (2020, 1, 1)), DT('naive', (1, 1, 1)), DT('naive', (1, 1, 2, 0, 0, 0, 1000)), DT('naive', (9999, 12, 31, 23, 59, 59, 999000)),
    DT('naive', (9999, 12, 30, 12)), DT('naive', (1970, 1, 1, 0, 0, 0, 500000)),
    DT('date', (2020, 6, 15)), DT('date', (9999, 12, 31)), DT('date', (1, 1, 1)),
    DT('aware', (2020, 1, 1, 12), 0), DT('aware', (2020, 1, 1, 12), 330), DT('aware', (9999, 12, 31, 23), -300), DT('aware', (1, 1, 1, 1), 600),
    ['list', []], ['list', [I(1), S('x')]], ['list', [Fl(1.5), ['none']]], ['list', [['float', 'inf']]], ['list', [['float', 'nan']]],
    ['list', [I(10 ** 4300)]], ['list', [DT('naive', (9999, 12, 31))]], ['list', [DT('aware', (9999, 12, 31, 23), -300)]],
    ['list', [['list', [['list', [I(1)]]]]]], ['list', [I(1), I(2)]], ['list', [I(1), I(3)]], ['cyclic_list'], ['nest', 40], ['nest', 5000],
    ['dict', []], ['dict', [['a', I(1)]]], ['dict', [['b', ['list', [I(1)]]], ['a', S('x')]]], ['dict', [['a', ['float', 'inf']]]],
    ['dict', [['a', I(2)]]], ['cyclic_dict'],
    ['fn', 'arrayNew'], ['regex', 'a+'],
]
ALL_SPECS = NUM_SPECS + OTHER_SPECS
NEST_PARTNERS = [S(''), S('abc'), I(1), ['none'], ['list', []], ['nest', 40], ['nest', 5000], ['cyclic_list'], ['dict', []]]
OPS = ['**', '*', '/', '%', '+', '-', '<=', '<', '>=', '>', '==', '!=']
EXC_MAP = {'FloatingPointError': 'OverflowError'}


def is_num(v):
    return isinstance(v, (int, float)) and not isinstance(v, bool)


def py_block(mods, op, a, b):
    """Reference reading of the BODY of the operator try-block (runtime.py:273-347) on real CPython values, WITHOUT the
    handler: ('v', value) | ('complex',) | ('exc', class name)."""
    value = mods['value']
    try:
        if op == '+':
            if is_num(a) and is_num(b):
                return ('v', a + b)
            if isinstance(a, str) and isinstance(b, str):
                return ('v', a + b)
            if isinstance(a, str):
                return ('v', a + value.value_string(b))
            if isinstance(b, str):
                return ('v', value.value_string(a) + b)
            if isinstance(a, datetime.date) and is_num(b):
                return ('v', value.value_normalize_datetime(a) + datetime.timedelta(milliseconds=b))
            if is_num(a) and isinstance(b, datetime.date):
                return ('v', value.value_normalize_datetime(b) + datetime.timedelta(milliseconds=a))
            return ('v', None)
        if op == '-':
            if is_num(a) and is_num(b):
                return ('v', a - b)
            if isinstance(a, datetime.date) and isinstance(b, datetime.date):
                diff = value.value_normalize_datetime(a) - value.value_normalize_datetime(b)
                return ('v', value.value_round_number(diff.total_seconds() * 1000, 0))
            return ('v', None)
        if op == '*':
            return ('v', float(a) * b) if is_num(a) and is_num(b) else ('v', None)
        if op == '/':
            return ('v', a / b) if is_num(a) and is_num(b) else ('v', None)
        if op == '%':
            return ('v', a % b) if is_num(a) and is_num(b) else ('v', None)
        if op == '**':
            if is_num(a) and is_num(b):
                res = float(a) ** b
                return ('complex',) if isinstance(res, complex) else ('v', res)
            return ('v', None)
        cmp = value.value_compare(a, b)
        return ('v', {'==': cmp == 0, '!=': cmp != 0, '<=': cmp <= 0, '<': cmp < 0, '>=': cmp >= 0, '>': cmp > 0}[op])
    except Exception as exc:  # pylint: disable=broad-except
        name = type(exc).__name__
        return ('exc', EXC_MAP.get(name, name))


def text_exact(op, sa, sb):
    """is the TEXT of a string result modelled exactly (no float repr / datetime / container text involved)"""
    if op != '+':
        return True
    kinds = {sa[0], sb[0]}
    return kinds <= {'str', 'none', 'bool', 'int'}


def canon_out(out, exact_text, trust):
    """{'v': tagged} | {'complex': True} | {'exc': cls} -> comparable form"""
    if out is None or 'v' not in out:
        return out
    t = out['v']
    if isinstance(t, dict) and 's' in t and not exact_text:
        t = {'s': None}
    if trust == 'kind' and isinstance(t, dict) and 'f' in t and isinstance(t['f'], list):
        t = {'f': 'finite'}
    return {'v': t}


def binop_case(mods, op, sa, sb, builtins=False):
    """run one (op, a, b) on the implementation and on the reference block -> (impl outcome, raw reference)"""
    a, b = build(sa, mods), build(sb, mods)
    raw = py_block(mods, op, a, b)
    a, b = build(sa, mods), build(sb, mods)
    expr = {'binary': {'op': op, 'left': {'variable': 'va'}, 'right': {'variable': 'vb'}}}
    out = guarded(mods, lambda: mods['runtime'].evaluate_expression(expr, {'globals': {'va': a, 'vb': b}}, None, builtins))
    return out, raw


def raw_wire(raw):
    if raw[0] == 'v':
        return {'v': tag(raw[1])}
    if raw[0] == 'complex':
        return {'complex': True}
    return {'exc': raw[1]}


def stream_binop_host(ctx, mods, triples, name='binop-host'):
    st = ctx.stream(name, 'operator x operand pair over an adversarial pool (ints to 5000 digits, all float classes, datetimes at '
                          'the range edges, cyclic / deep / non-finite-holding containers): Lean HostPy.binopPy+binopSafe (ieee '
                          'instance) vs CPython reference reading of the try-body vs evaluate_expression; non-trivial = the body '
                          'raised or returned complex (the handler was needed) or the result is not null')
    reqs = []
    for op, sa, sb in triples:
        heap = []
        wa = wire_spec(sa, heap)
        wb = wire_spec(sb, heap)
        reqs.append({'op': 'binopPy', 'bop': op, 'a': wa, 'b': wb, 'heap': heap, 'L': 1000})
    resps = ctx.driver.batch(reqs)
    for ix, ((op, sa, sb), resp) in enumerate(zip(triples, resps)):
        case = {'kind': 'binop', 'op': op, 'a': sa, 'b': sb}
        out, raw = binop_case(mods, op, sa, sb, builtins=bool(ix % 2))
        exact = text_exact(op, sa, sb)
        trust = resp.get('trust', 'exact')
        rw = raw_wire(raw)
        tags = [op, 'raw-' + (raw[1] if raw[0] == 'exc' else raw[0])]
        nontrivial = raw[0] != 'v' or raw[1] is not None
        st.case([op, sa, sb], nontrivial=nontrivial, tags=tags)
        # --- the property's oracle on the implementation
        if out[0] != 'ok':
            ctx.witness('operator-block-escape', case, 'a value (null for an invalid operation)', list(out))
            ctx.disagree(name, case, list(out), resp.get('safe'), 'implementation raised')
            continue
        if raw[0] != 'v' and out[1] is not None:
            ctx.witness('raised-is-null', case, None, deep(out[1]))
        # --- correspondence: implementation vs model (handler applied), reference body vs model body
        if trust != 'unknown':
            ctx.compare(name, case, canon_out({'v': tag(out[1])}, exact, trust), canon_out(resp.get('safe'), exact, trust))
            ctx.compare(name + '-raw', case, canon_out(rw, exact, trust), canon_out(resp.get('raw'), exact, trust))


def binop_triples(ctx, n_random, exhaustive):
    rng = ctx.rng('binop-host')
    triples = []
    if exhaustive:
        for op in OPS:
            for sa in ALL_SPECS:
                for sb in ALL_SPECS:
                    big_a, big_b = sa == ['nest', 5000], sb == ['nest', 5000]
                    if (big_a and sb not in NEST_PARTNERS) or (big_b and sa not in NEST_PARTNERS):
                        continue                       # a 5000-cell heap per request: only against a few partners
                    triples.append((op, sa, sb))
    else:
        # every op x every number pair class is the core; sample the rest
        for op in OPS:
            for _ in range(n_random // len(OPS)):
                r = rng.random()
                if r < 0.55:
                    sa, sb = rng.choice(NUM_SPECS), rng.choice(NUM_SPECS)
                elif r < 0.8:
                    sa, sb = rng.choice(ALL_SPECS), rng.choice(ALL_SPECS)
                else:
                    sa, sb = rng.choice(OTHER_SPECS), rng.choice(OTHER_SPECS)
                triples.append((op, sa, sb))
    # directed: the operands behind F17 / F18 / F25 with every partner that reaches value_string / value_compare / timedelta
    if not exhaustive:
        hard = [['cyclic_list'], ['cyclic_dict'], ['nest', 5000], ['nest', 40], ['list', [['float', 'inf']]], ['list', [['float', 'nan']]],
                ['list', [I(10 ** 4300)]], ['list', [DT('naive', (9999, 12, 31))]], ['list', [DT('aware', (9999, 12, 31, 23), -300)]],
                ['dict', [['a', ['float', 'inf']]]], DT('naive', (9999, 12, 31, 23, 59, 59, 999000)), DT('date', (9999, 12, 31)),
                DT('naive', (1, 1, 1)), DT('aware', (9999, 12, 31, 23), -300), DT('aware', (1, 1, 1, 1), 600), I(10 ** 4300), I(-(10 ** 5000)),
                ['float', 'nan'], ['float', 'inf']]
        partners = [S(''), S('x'), DT('naive', (2020, 1, 1)), ['float', 'nan'], I(1), Fl(1e300)]
        for op in ['+', '-', '==', '<', '>=']:
            for sa in hard:
                for sb in partners + [sa]:
                    triples.append((op, sa, sb))
                    triples.append((op, sb, sa))
    # random numeric operands (rounding of + - * / % is compared EXACTLY)
    for _ in range(n_random // 2):
        op = rng.choice(['+', '-', '*', '/', '%', '**', '<', '=='])
        triples.append((op, random_number(rng), random_number(rng)))
    return triples


def random_number(rng):
    r = rng.random()
    if r < 0.25:
        return I(rng.choice([1, -1]) * rng.randrange(0, 10 ** rng.choice([1, 3, 17, 40, 320, 420])))
    if r < 0.5:
        return Fl(rng.choice([1, -1]) * rng.randrange(0, 2 ** 53) * 2.0 ** rng.randint(-1074, 971))
    if r < 0.7:
        return Fl(rng.choice([1, -1]) * rng.randrange(0, 4096) / rng.choice([1, 2, 8, 1024]))
    if r < 0.85:
        return Fl(rng.uniform(-1e6, 1e6))
    return rng.choice(NUM_SPECS)


# ---------------------------------------------------------------------------------------------------------------------
# stream wrapper: every library function x wrong-typed / missing / surplus argument lists
# ---------------------------------------------------------------------------------------------------------------------

ARG_POOL = [
    ['none'], ['bool', True], Fl(0.0), Fl(1.0), Fl(-1.0), Fl(1.5), Fl(3.0), I(2), I(10 ** 400), I(16 ** 4000), ['float', 'inf'], ['float', 'nan'],
    Fl(1e308), S(''), S('abc'), S('('), S('2024-01-01'), S('[1,2'), S('a,b\n1,2'), S('x + '), S('len(5)'), S('{0} %s {x'), S('}%(a)d{{'),
    ['list', []], ['list', [Fl(1.0), Fl(2.0), Fl(3.0)]], ['list', [S('b'), S('a')]], ['list', [['list', [Fl(1.0)]], ['list', [Fl(2.0)]]]],
    ['cyclic_list'], ['list', [['float', 'inf']]], ['list', [['dict', [['a', Fl(1.0)]]], ['dict', [['a', S('x')]]]]],
    ['dict', []], ['dict', [['a', Fl(1.0)]]], ['dict', [['a', ['dict', [['b', Fl(2.0)]]]]]], ['cyclic_dict'], ['dict', [['url', S('ok')]]],
    DT('naive', (2020, 1, 1)), DT('naive', (9999, 12, 31, 23, 59, 59)), DT('date', (2020, 6, 15)), DT('aware', (9999, 12, 31, 23), -300),
    ['fn', 'arrayNew'], ['fn', 'systemLog'], ['pyfn', 'raise_rt'], ['pyfn', 'raise_key'], ['pyfn', 'ident'], ['pyfn', 'bad_inner'],
    ['regex', 'a+'], ['nest', 1500],
    # host values a script cannot create (stream host-values): as ARGUMENTS they are wrong-typed for every typed parameter
    ['hv', ['Decimal', '19.99']], ['hv', ['Fraction', [1, 3]]], ['hv', ['complex', ['3', '4']]], ['hv', ['tuple', [1, 2]]], ['hv', ['bytes', 'ab']],
    ['hv', ['hostile', None]], ['hv', ['intenum', 'RED']],
]
SIZE_ARGS = {'arrayNewSize': [0], 'mathRound': [1], 'numberToFixed': [1], 'stringRepeat': [1], 'jsonStringify': [1]}
NONDET = {'datetimeNow', 'datetimeToday', 'mathRandom'}


def dangerous(name, specs):
    """argument lists that make the call run (practically) for ever or exhaust memory: outside the model (time/memory)"""
    for pos in SIZE_ARGS.get(name, []):
        if pos < len(specs) and specs[pos][0] in ('int', 'float'):
            x = build(specs[pos], None)
            if x == x and abs(x) != float('inf') and abs(x) > 5000:
                return True
    return False


def call_program(name, nargs):
    args = ', '.join(f'g{i}' for i in range(nargs))
    return f"systemLog('before')\nrr = {name}({args})\nsystemLog('after')\nreturn rr"


def fetch_fn(req):
    url = req['url'] if isinstance(req, dict) else None
    if url == 'ok':
        return 'text'
    if url == 'bad':
        raise OSError('fetch failed')
    return None


def call_cfg(debug, cfg=None):
    return cfg if cfg is not None else {'debug': bool(debug), 'logFn': True}


def callee_outcome(mods, fn, specs, debug, cfg=None):
    """call the library function DIRECTLY (outside the wrapper), under the same host configuration
    -> (outcome tuple, its own log lines)"""
    log = []
    options = make_options(call_cfg(debug, cfg), log, dict(mods['library'].SCRIPT_FUNCTIONS), fetch=fetch_fn, statementCount=0,
                           maxStatements=20000)
    args = [build(s, mods) for s in specs]
    try:
        out = ('ret', fn(args, options))
    except mods['runtime'].BareScriptRuntimeError as exc:
        out = ('rt', exc_text(exc))
    except mods['parser'].BareScriptParserError as exc:
        out = ('parser', exc_text(exc).split('\n', 1)[0])
    except mods['value'].ValueArgsError as exc:
        out = ('args', exc_text(exc), exc.return_value)       # (a message that cannot be built: the wrapped run shows what the runtime does)
    except (KeyboardInterrupt, SystemExit):
        raise
    except Exception as exc:  # pylint: disable=broad-except
        out = ('host', type(exc).__name__, exc_text(exc))
    return out, log


def wrapped_call(mods, name, specs, debug, via_alias=None, cfg=None):
    """the same call through the evaluator -> (guarded outcome, log)"""
    log = []
    g = {f'g{i}': build(s, mods) for i, s in enumerate(specs)}
    options = make_options(call_cfg(debug, cfg), log, g, fetch=fetch_fn, maxStatements=20000)
    if via_alias is None:
        text = call_program(name, len(specs))
        out = guarded(mods, lambda: mods['runtime'].execute_script(mods['parser'].parse_script(text), options))
    else:
        expr = {'function': {'name': via_alias, 'args': [{'variable': f'g{i}'} for i in range(len(specs))]}}
        out = guarded(mods, lambda: mods['runtime'].evaluate_expression(expr, options, None, True))
    return out, log


def short_tag(v, lib):
    """tagged scalar, anything else as an opaque string of its canonical form"""
    t = tag(v)
    if isinstance(t, dict) and 'other' in t:
        return {'s': '#' + json.dumps(deep(v, lib), sort_keys=True, default=str)[:300]}
    return t


def stream_wrapper(ctx, mods, per_fn):
    lib = mods['library'].SCRIPT_FUNCTIONS
    aliases = {v: k for k, v in mods['library'].EXPRESSION_FUNCTION_MAP.items()}
    st = ctx.stream('wrapper', 'every name of library.SCRIPT_FUNCTIONS x argument lists (missing, each representative value of every '
                               'type incl. huge ints, non-finite floats, cyclic containers, raising callbacks, surplus) x host '
                               'configuration (debug True/False with a logFn for every case + the other combinations of debug '
                               'True/False/absent x logFn supplied/absent: one per case in rotation (quick), all (thorough)), '
                               'through execute_script and (aliases) evaluate_expression with builtins: callee outcome measured by a '
                               'direct call -> Lean HostPy.wrapCall vs what the evaluator did; non-trivial = the callee raised')
    rng = ctx.rng('wrapper')
    cases = []
    for name in sorted(lib):
        lists = [[], [rng.choice(ARG_POOL) for _ in range(10)]]
        singles = list(ARG_POOL)
        rng.shuffle(singles)
        lists += [[s] for s in singles[:per_fn['single']]]
        for _ in range(per_fn['multi']):
            lists.append([rng.choice(ARG_POOL) for _ in range(rng.choice([2, 2, 3, 3, 4]))])
        for specs in lists:
            if not dangerous(name, specs):
                cases.append((name, specs))
    reqs = []
    measured = []
    plan = []
    off = rng.randrange(len(EXTRA_CONFIGS))               # which configuration meets which case depends on VERIF_SEED
    for cix, (name, specs) in enumerate(cases):
        for kix, cfg in enumerate([REF_ON, REF_OFF] + extra_configs(ctx, cix + off)):
            debug, has_log = cfg_debug(cfg), cfg['logFn']
            out, own_log = callee_outcome(mods, lib[name], specs, debug, cfg)
            measured.append((out, own_log))
            o = {'k': out[0]}
            if out[0] == 'ret':
                o['v'] = short_tag(out[1], lib)
            elif out[0] in ('rt', 'parser'):
                o['msg'] = out[1]
            elif out[0] == 'args':
                o['msg'], o['v'] = out[1], short_tag(out[2], lib)
            else:
                o['cls'], o['msg'] = out[1], out[2]
            alias = aliases.get(name) if (cix + kix) % 3 == 0 else None      # one run in three through evaluate_expression
            plan.append((name, specs, cfg, alias))
            reqs.append({'op': 'wrapCall', 'out': o, 'debug': debug, 'hasLogFn': has_log, 'name': alias or name,
                         'log': (['before'] if has_log else []) + own_log})
    resps = ctx.driver.batch(reqs)
    for ix, (name, specs, cfg, alias) in enumerate(plan):
        out, own_log = measured[ix]
        resp = resps[ix]
        debug, has_log = cfg_debug(cfg), cfg['logFn']
        case = {'kind': 'call', 'name': name, 'args': specs, 'debug': debug}
        if cfg not in (REF_ON, REF_OFF):
            case['config'] = cfg
        if alias is not None:
            case['alias'] = alias
        got, log = wrapped_call(mods, name, specs, debug, via_alias=alias, cfg=cfg)
        failing = out[0] in ('args', 'host')
        st.case([name, specs, cfg_tag(cfg)], nontrivial=out[0] != 'ret', tags=[out[0], 'debug' if debug else 'nodebug', cfg_tag(cfg)] +
                ([out[1]] if out[0] == 'host' else []))
        # --- oracle 1: only documented exceptions escape
        if got[0] == 'escape':
            ctx.witness('call-escape', case, 'value or BareScriptRuntimeError/BareScriptParserError', list(got))
            ctx.disagree('wrapper', case, list(got), resp, 'implementation raised')
            continue
        # --- oracle 2 (independent of the model): null / documented failure value, one debug line (iff debug mode and a
        #     logFn), execution continues (the statements after the call ran: 'after' logged, rr returned)
        nfail = [ln for ln in log if (m := FAIL_RE.match(ln)) and m.group(1) == (alias or name)]
        if failing:
            want = out[2] if out[0] == 'args' else None
            if got[0] != 'ok' or deep(got[1], lib) != deep(want, lib):
                ctx.witness('failure-value', case, deep(want, lib), list(got[:1]) + [deep(got[1], lib) if got[0] == 'ok' else got[1]])
            if len(nfail) != (1 if cfg_logs(cfg) else 0):
                ctx.witness('failure-log-once', case, 1 if cfg_logs(cfg) else 0, log[-5:])
            if alias is None and has_log and (not log or log[-1] != 'after'):
                ctx.witness('execution-continues', case, "log ends with 'after'", log[-5:])
        elif out[0] == 'ret' and nfail and name not in ('systemLog', 'systemLogDebug'):
            ctx.witness('spurious-failure-log', case, 0, nfail)
        # --- correspondence with the wrapper model
        if alias is not None:
            impl_log = (['before'] if has_log else []) + log
        else:
            impl_log = log[:-1] if (got[0] == 'ok' and log and log[-1] == 'after') else log
        if got[0] == 'ok':
            res = {'value': short_tag(got[1], lib)}
        elif got[0] == 'rt':
            res = {'raiseRuntime': got[1]}
        else:
            res = {'raiseParser': got[1]}
        model_res = resp.get('res')
        if name in NONDET and out[0] == 'ret':
            res = model_res = {'value': 'nondeterministic'}
        ctx.compare('wrapper', case, no_addr({'res': res, 'log': impl_log}), no_addr({'res': model_res, 'log': resp.get('log')}))


# ---------------------------------------------------------------------------------------------------------------------
# stream exec-adversarial: generated programs + adversarial operands vs the jump machine, debug on/off
# ---------------------------------------------------------------------------------------------------------------------

NUMV = ['va', 'vb', 'vc']


class AdvGen(progen.Gen):
    """progen.Gen whose expressions are, with probability p, adversarial: zero divisors, negative / huge-ish exponents of
    exact bases, calls of non-callable values, undefined functions, library calls with missing / wrong-typed / surplus
    arguments.  Everything stays in the exactly representable fragment of the rational model."""

    def __init__(self, rng, p=0.3, allow_undefined=True, trace=True, **kw):
        super().__init__(rng, **kw)
        self.p = p
        self.allow_undefined = allow_undefined
        self.trace = trace

    def traced(self, e):
        return super().traced(e) if self.trace else e

    def small(self):
        return progen.num(self.rng.choice([0, 1, 2, 3, 4, 8, progen.Fraction(1, 2), progen.Fraction(5, 2)]))

    def anyv(self):
        return progen.var(self.rng.choice(progen.VARS + NUMV))

    def adversarial(self, depth):
        rng = self.rng
        k = rng.choice(['div0', 'divvv', 'div2', 'mod0', 'modk', 'pow', 'pow0neg', 'powvar', 'noncallable', 'arity', 'arity', 'arity',
                        'undefined', 'cmpmix', 'negstr'])
        self.count('adv-' + k)
        g = progen.group
        if k == 'div0':
            return progen.wf_binary('/', g(super().expr(depth + 1)), progen.num(0))
        if k == 'divvv':
            v = self.anyv()
            return progen.wf_binary('/', self.small(), g(progen.wf_binary('-', v, v)))
        if k == 'div2':
            return progen.wf_binary('/', self.anyv(), progen.num(rng.choice([2, 4, progen.Fraction(1, 2), 8])))
        if k == 'mod0':
            return progen.wf_binary('%', self.anyv(), progen.num(0))
        if k == 'modk':
            return progen.wf_binary('%', self.anyv(), progen.num(rng.choice([2, 3, progen.Fraction(5, 2), 4])))
        if k == 'pow':
            return progen.wf_binary('**', progen.num(rng.choice([0, 1, 2, 4, progen.Fraction(1, 2)])), progen.num(rng.randint(0, 6)))
        if k == 'pow0neg':
            v = self.anyv()
            base = rng.choice([progen.num(0), g(progen.wf_binary('-', v, v)), progen.num(2), progen.num(4)])
            return progen.wf_binary('**', base, g(progen.wf_binary('-', progen.num(0), progen.num(rng.randint(1, 3)))))
        if k == 'powvar':
            # exponent 0 / 1 only: `v = v ** 3` inside a loop would make the exact rational of the model explode
            return progen.wf_binary('**', self.anyv(), progen.num(rng.randint(0, 1)))
        if k == 'noncallable':
            return progen.call(rng.choice(NUMV), *[self.atom() for _ in range(rng.randint(0, 2))])
        if k == 'undefined':
            if not self.allow_undefined or rng.random() < 0.7:
                return progen.call('systemType', progen.call('arrayGet'))
            return progen.call('nosuchFunction', self.atom())
        if k == 'cmpmix':
            return progen.wf_binary(rng.choice(['<', '<=', '==', '!=', '>', '>=']), self.anyv(), rng.choice([progen.string('a'), self.anyv()]))
        if k == 'negstr':
            return progen.unop('-', rng.choice([progen.string('s'), self.anyv(), progen.var('null')]))
        # arity / wrong types for the modelled library subset
        a = self.anyv()
        choices = [
            progen.call('arrayGet', a), progen.call('arrayGet', a, progen.string('x')), progen.call('arrayGet', a, progen.num(99)),
            progen.call('arrayGet', a, progen.num(progen.Fraction(1, 2))), progen.call('arrayGet', a, progen.num(0), progen.num(1)),
            progen.call('arrayLength'), progen.call('arrayLength', a, a), progen.call('arrayLength', progen.num(5)),
            progen.call('arrayPush'), progen.call('arrayPush', progen.num(1), progen.num(2)),
            progen.call('arraySet', a), progen.call('arraySet', a, progen.num(99), progen.num(1)),
            progen.call('arraySet', a, progen.var('true'), progen.num(1)),
            progen.call('arrayPop', progen.call('arrayNew')), progen.call('arrayPop', progen.string('s')), progen.call('arrayPop'),
            progen.call('arrayCopy', progen.num(5)), progen.call('arrayCopy'),
            progen.call('arrayIndexOf'), progen.call('arrayIndexOf', progen.call('arrayNew'), progen.num(1)),
            progen.call('arrayIndexOf', progen.num(1), progen.num(1)),
            progen.call('objectGet', progen.num(1), progen.num(2)), progen.call('objectGet', a, progen.string('k'), progen.num(7)),
            progen.call('objectGet', progen.var('null'), progen.string('k'), progen.string('dflt')), progen.call('objectGet'),
            progen.call('objectSet', a), progen.call('objectSet', a, progen.num(1), progen.num(2)),
            progen.call('objectNew', progen.string('a')), progen.call('objectNew', progen.num(1), progen.num(2)),
            progen.call('systemGlobalGet'), progen.call('systemGlobalGet', progen.num(5)),
            progen.call('systemGlobalSet', progen.num(5), progen.num(1)),
            progen.call('systemType', a, a), progen.call('systemBoolean', progen.num(1), progen.num(2)),
            progen.call('systemCompare', progen.num(1), progen.num(2), progen.num(3)), progen.call('systemPartial', progen.num(5), progen.num(1)),
            # NOT generated (HostImpl.lib, shared, treats a missing UNTYPED argument as a failure where value_args_validate
            # supplies null): systemType(), systemCompare(x), systemGlobalSet('name'), arraySet(arr, i), arrayIndexOf(arr)
            # - reported to the coordinator
            progen.call('systemPartial', progen.var('arrayNew')), progen.call('systemLog', progen.num(1), progen.num(2)),
        ]
        return rng.choice(choices)

    def expr(self, depth=0):
        if self.rng.random() < self.p:
            e = self.adversarial(depth)
            return self.traced(e) if self.rng.random() < 0.2 else e
        return super().expr(depth)

    def program(self):
        prog = super().program()
        pre = [{'k': 'expr', 'name': v, 'e': self.atom()} for v in NUMV]
        return progen.assign_fids(prog[:1] + pre + prog[1:])


ADDR_RE = re.compile(r' at 0x[0-9a-f]+')


def canon_log(log):
    return ['<failure>' if FAIL_RE.match(ln) else ln for ln in log]


def no_addr(x):
    """object addresses in messages (`<function f at 0x7f..>`) differ between two builds of the same value"""
    if isinstance(x, str):
        return ADDR_RE.sub(' at 0x?', x)
    if isinstance(x, list):
        return [no_addr(y) for y in x]
    if isinstance(x, dict):
        return {k: no_addr(v) for k, v in x.items()}
    return x


def exec_config_failures(mods, model, g, cfg, ref):
    """a progen program under host configuration cfg vs the canonical outcome `ref` of progen.run_impl (logFn supplied,
    same debug mode): result / error, globals, statement count and (if a logFn is supplied) the log are the same"""
    library = mods['library']
    log = []
    gg = copy.deepcopy(dict(g or {}))
    options = make_options(cfg, log, gg, maxStatements=400)
    out = guarded(mods, lambda: mods['runtime'].execute_script(model, options))
    if out[0] == 'escape':
        return [('script-escape', 'result or BareScriptRuntimeError/BareScriptParserError', list(out))]
    if 'hostexc' in ref:
        return []
    got = {}
    if out[0] == 'ok':
        got['result'] = progen.value_to_wire(out[1], library.SCRIPT_FUNCTIONS)
    else:
        got['error'] = out[1] if out[0] == 'rt' else 'ParserError ' + out[1]
    got['log'] = canon_log(log)
    got['globals'] = sorted([[k, progen.value_to_wire(v, library.SCRIPT_FUNCTIONS)] for k, v in gg.items()
                             if not (k in library.SCRIPT_FUNCTIONS and v is library.SCRIPT_FUNCTIONS[k])], key=lambda kv: kv[0])
    got['count'] = options.get('statementCount')
    got = progen.canon_neg_zero(got)
    want = dict(ref) if cfg['logFn'] else dict(ref, log=[])
    if got != want:
        keys = [k for k in sorted(set(got) | set(want)) if got.get(k) != want.get(k)]
        return [('config-changes-outcome', {k: want.get(k) for k in keys}, {k: got.get(k) for k in keys})]
    return []


def stream_exec(ctx, mods, n):
    parser = mods['parser']
    rng = ctx.rng('exec-adversarial')
    st = ctx.stream('exec-adversarial', 'progen programs (depth<=4) with adversarial expressions (p=0.3: zero divisors, 0 ** -n, non-callable '
                                        'and undefined callees, missing/wrong-typed/surplus arguments to the modelled library subset) x '
                                        'initial globals x debug on/off: execute_script vs the Lean jump machine (result, log with '
                                        '<failure> lines, globals, statementCount) + one other host configuration per program '
                                        '(debug True/False/absent x logFn supplied/absent, all four in thorough) vs the reference run; '
                                        'oracles: no host exception, debug only ADDS failure lines, the configuration changes nothing '
                                        'but the log; non-trivial = at least one swallowed failure and no runtime error')
    cases = []
    for _ in range(n):
        gen = AdvGen(rng, p=0.3, max_depth=rng.choice([2, 3, 4]))
        prog = gen.program()
        cases.append((prog, progen.random_globals(rng), gen.stats))
    models = []
    reqs = []
    for prog, g, _ in cases:
        text = '\n'.join(progen.render(prog))
        model = parser.parse_script(text)
        models.append((text, model))
        wg = progen.wire_globals(g)
        script = progen.canon_script(model)
        for debug in (True, False):
            reqs.append({'op': 'exec', 'script': script, 'globals': wg, 'max': 400, 'fuel': 6000, 'debug': debug})
    resps = ctx.driver.batch(reqs)
    off = rng.randrange(len(EXTRA_CONFIGS))
    for ix, ((prog, g, stats), (text, model)) in enumerate(zip(cases, models)):
        outs = {}
        for j, debug in enumerate((True, False)):
            impl = progen.run_impl(model, g, max_statements=400, debug=debug)
            raw_log = impl.get('log', [])
            impl['log'] = canon_log(raw_log)
            outs[debug] = (impl, raw_log)
            case = {'kind': 'script', 'text': text, 'globals': g, 'debug': debug}
            if 'hostexc' in impl:
                ctx.witness('script-escape', case, 'result or BareScriptRuntimeError/BareScriptParserError', impl['hostexc'])
            ctx.compare('exec-adversarial', case, impl, progen.canon_model_out(resps[2 * ix + j]))
        dbg, nod = outs[True][0], outs[False][0]
        for cfg in extra_configs(ctx, ix + off):         # the other host configurations: same outcome / globals / count / log
            for oracle, exp, act in exec_config_failures(mods, model, g, cfg, outs[cfg_debug(cfg)][0]):
                ctx.witness(oracle, {'kind': 'script', 'text': text, 'globals': g, 'debug': cfg_debug(cfg), 'config': cfg}, exp, act)
        nfail = dbg['log'].count('<failure>')
        st.case([text, g], nontrivial=nfail > 0 and 'error' not in dbg, tags=sorted(k for k in stats if k.startswith('adv-')) +
                ['failures>0' if nfail else 'failures=0', 'error' if 'error' in dbg else 'ok'])
        # metamorphic oracle: debug mode only adds failure lines
        strip = dict(dbg, log=[ln for ln in dbg['log'] if ln != '<failure>'])
        if strip != nod:
            ctx.witness('debug-only-adds-lines', {'kind': 'script', 'text': text, 'globals': g, 'debug': None}, nod, strip)
        if nod['log'].count('<failure>'):
            ctx.witness('no-log-without-debug', {'kind': 'script', 'text': text, 'globals': g, 'debug': False}, 0, outs[False][1])


def eval_cfg(mods, impl_e, g, cfg, builtins):
    runtime, library = mods['runtime'], mods['library']
    log = []
    gg = copy.deepcopy(g)
    for name, fn in library.SCRIPT_FUNCTIONS.items():
        gg.setdefault(name, fn)
    options = make_options(cfg, log, gg, statementCount=0, maxStatements=400)
    out = guarded(mods, lambda: runtime.evaluate_expression(impl_e, options, None, builtins))
    if out[0] == 'ok':
        return out, {'result': progen.value_to_wire(out[1], library.SCRIPT_FUNCTIONS), 'log': log}
    return out, {'error': list(out[1:]), 'log': log}


def expr_config_failures(mods, impl_e, g, cfg, builtins):
    """one expression under host configuration cfg vs the reference configuration with the same debug mode"""
    out, got = eval_cfg(mods, impl_e, g, cfg, builtins)
    if out[0] == 'escape':
        return [('expression-escape', 'value or BareScriptRuntimeError', list(out))]
    ref_out, ref = eval_cfg(mods, impl_e, g, {'debug': cfg_debug(cfg), 'logFn': True}, builtins)
    if ref_out[0] == 'escape':
        return []
    if not cfg['logFn']:
        ref = dict(ref, log=[])
    if no_addr(got) != no_addr(ref):
        return [('config-changes-result', ref, got)]
    return []


def stream_expr(ctx, mods, n):
    """evaluate_expression, both builtins modes, against the machine running `return <expr>`"""
    runtime, library = mods['runtime'], mods['library']
    rng = ctx.rng('expr-adversarial')
    st = ctx.stream('expr-adversarial', 'adversarial expressions (AdvGen, p=0.4, depth<=3) evaluated by evaluate_expression with builtins '
                                        'False and True (library injected in globals), locals None / {} vs the Lean machine on '
                                        '`return <expr>`, + one other host configuration per expression (debug True/False/absent x '
                                        'logFn supplied/absent) vs the reference run; non-trivial = evaluates to a non-null value or swallows a failure')
    cases = []
    reqs = []
    for _ in range(n):
        gen = AdvGen(rng, p=0.4, trace=False, allow_undefined=True, max_depth=3)
        e = gen.expr(0)
        g = progen.random_globals(rng)
        for v in NUMV:
            g[v] = rng.choice([0, 1, 2, 2.5, None, 'a', [1, 2], True])
        cases.append((e, g))
        script = {'statements': [{'return': {'expr': e}}]}
        for debug in (True, False):
            reqs.append({'op': 'exec', 'script': script, 'globals': progen.wire_globals(g), 'max': 400, 'fuel': 6000, 'debug': debug})
    resps = ctx.driver.batch(reqs)
    off = rng.randrange(len(EXTRA_CONFIGS))
    for ix, (e, g) in enumerate(cases):
        text = progen.expr_text(e)
        impl_e = progen.impl_expr(e)
        any_nontrivial = False
        for j, debug in enumerate((True, False)):
            model = resps[2 * ix + j]
            want = {k: model.get(k) for k in ('result', 'error', 'log') if k in model}
            for builtins in (False, True):
                log = []
                gg = copy.deepcopy(g)
                for name, fn in library.SCRIPT_FUNCTIONS.items():
                    gg.setdefault(name, fn)
                options = {'globals': gg, 'logFn': log.append, 'debug': debug, 'statementCount': 0, 'maxStatements': 400}
                locals_ = None if rng.random() < 0.5 else {}
                out = guarded(mods, lambda: runtime.evaluate_expression(impl_e, options, locals_, builtins))  # pylint: disable=cell-var-from-loop
                case = {'kind': 'expr', 'text': text, 'globals': g, 'debug': debug, 'builtins': builtins}
                if out[0] == 'escape':
                    ctx.witness('expression-escape', case, 'value or BareScriptRuntimeError', list(out))
                    got = {'hostexc': out[1]}
                elif out[0] == 'ok':
                    got = {'result': progen.value_to_wire(out[1], library.SCRIPT_FUNCTIONS), 'log': canon_log(log)}
                    any_nontrivial = any_nontrivial or out[1] is not None or bool(log)
                else:
                    got = {'error': out[1], 'log': canon_log(log)}
                ctx.compare('expr-adversarial', case, got, want)
        for cfg in extra_configs(ctx, ix + off):         # the other host configurations: same value, same log if there is a logFn
            builtins = bool(ix % 2)
            for oracle, exp, act in expr_config_failures(mods, impl_e, g, cfg, builtins):
                ctx.witness(oracle, {'kind': 'expr', 'text': text, 'globals': g, 'debug': cfg_debug(cfg), 'builtins': builtins,
                                     'config': cfg}, exp, act)
        st.case([text, g], nontrivial=any_nontrivial, tags=['expr', 'model-error' if 'error' in resps[2 * ix] else 'model-value',
                                                            'swallowed' if '<failure>' in (resps[2 * ix].get('log') or []) else 'clean'])


# ---------------------------------------------------------------------------------------------------------------------
# stream exec-adversarial-text: scripts built from adversarial statement templates (implementation + oracles only)
# ---------------------------------------------------------------------------------------------------------------------

PRELUDE = """\
hi = numberParseInt(stringRepeat('9', 400))
hh = numberParseInt(stringRepeat('7', 4000))
hx = numberParseInt(stringRepeat('f', 4000), 16)
inf = 10 ** 308 * 10
nan = inf - inf
nz = 0 * (0 - 1)
dd = datetimeNew(2020, 1, 1)
dmax = datetimeNew(9999, 12, 31, 23, 59, 59)
cy = arrayNew(1)
arrayPush(cy, cy)
co = objectNew('a', 1)
objectSet(co, 'self', arrayNew(co))
deep = arrayNew()
ix = 0
while ix < 1200:
    deep = arrayNew(deep)
    ix = ix + 1
endwhile
function sfRaise(aa, bb):
    return nosuchFunction(aa)
endfunction
function sfBad(aa):
    return arrayGet(aa, 99)
endfunction
function sfDeep(nn):
    return 1 + sfDeep(nn + 1)
endfunction
five = 5
"""
ADV_LINES = [
    'r1 = hi + 0.5', 'r1 = hi - 0.5', 'r1 = hi * hi', 'r1 = hh * hh', 'r1 = hi / 3', 'r1 = hi / hi', 'r1 = hh / hi', 'r1 = hi % 7', 'r1 = hi % 0.5',
    'r1 = hi ** 2', 'r1 = 2 ** hi', 'r1 = hi ** 0.5', 'r1 = hi ** (0 - 1)', 'r1 = hi + hi', 'r1 = hx + hx', "r1 = '' + hh", "r1 = '' + hx",
    "r1 = '' + (hx + hx)", "r1 = hx + ''", "r1 = '' + arrayNew(hx)", "r1 = '' + objectNew('k', hx)", 'r1 = hx == hx', 'r1 = hx < 0.5',
    'r1 = 0 - hx', 'r1 = -hx', 'r1 = 1 / 0', 'r1 = 1 % 0', 'r1 = 0 ** (0 - 1)', 'r1 = (0 - 8) ** 0.5', 'r1 = 10 ** 1000', 'r1 = 10 ** 400',
    'r1 = 2 ** 1024.0', 'r1 = (0 - 2) ** 1023', 'r1 = nz ** (0 - 1)', 'r1 = 1 / nz', 'r1 = 5 % nz', 'r1 = inf * 0', 'r1 = inf - inf', 'r1 = inf % 2',
    'r1 = 2 % inf', 'r1 = (0 - 2) % inf', 'r1 = inf ** 0', 'r1 = nan ** 0', 'r1 = (0 - inf) ** 0.5', "r1 = numberParseFloat('1e308') * 10", 'r1 = inf / inf',
    'r1 = dd + 10 ** 300', 'r1 = dd + inf', 'r1 = dd + nan', 'r1 = nan + dd', 'r1 = dd + hi', 'r1 = dd - 1', 'r1 = dd - dmax', 'r1 = dmax + 1000',
    "r1 = '' + dmax", "r1 = dmax + ''", "r1 = '' + arrayNew(dmax)", 'r1 = dmax < dd', "r1 = '' + arrayNew(inf)", "r1 = '' + objectNew('a', nan)",
    "r1 = '' + inf", "r1 = '' + nan", "r1 = '' + nz", 'r1 = arrayNew(nan) == arrayNew(nan)', "r1 = '' + cy", "r1 = cy + ''", 'r1 = cy == cy',
    'r1 = cy < arrayCopy(cy)', "r1 = '' + co", 'r1 = co == co', "r1 = '' + deep", 'r1 = deep == arrayCopy(deep)', 'r1 = deep != deep',
    'r1 = five(1)', 'r1 = cy(1, 2)', 'r1 = dd()', "r1 = r0('x')", 'r1 = arrayGet(cy, 5)', 'r1 = arrayGet()', 'r1 = arrayGet(cy, hi)', 'r1 = arrayGet(cy, nan)',
    'r1 = arrayGet(cy, inf)', 'r1 = arraySet(cy, hx, 1)', 'r1 = arraySlice(cy, hi)', 'r1 = arrayNewSize(nan)', 'r1 = arrayNewSize(inf)', 'r1 = stringRepeat("a", inf)',
    'r1 = stringRepeat("a", hi)', 'r1 = stringFromCharCode(hi)', 'r1 = stringFromCharCode(nan)', 'r1 = stringCharCodeAt("a", inf)', 'r1 = mathRound(hi, 2)',
    'r1 = mathRound(inf)', 'r1 = mathRound(nan, 3)', 'r1 = mathFloor(inf)', 'r1 = mathCeil(nan)', 'r1 = mathSqrt(0 - 1)', 'r1 = mathLn(0)', 'r1 = mathLog(0 - 1)',
    'r1 = mathLog(8, 1)', 'r1 = mathLog(8, 0)', 'r1 = mathAcos(2)', 'r1 = mathSqrt(hi)', 'r1 = mathSqrt(hx)', 'r1 = mathAbs(hx) + 1', 'r1 = mathMax(hi, nan, inf)',
    'r1 = mathMin()', 'r1 = mathMax("a")', 'r1 = numberToFixed(hi)', 'r1 = numberToFixed(nan)', 'r1 = numberToFixed(inf, 2)', 'r1 = numberToFixed(hx, 2)',
    'r1 = numberParseInt("12", hi)', 'r1 = numberParseInt("12", 99)', 'r1 = numberParseInt("zz", 36.5)', 'r1 = numberParseInt(stringRepeat("9", 5000))',
    'r1 = numberParseFloat("1e999")', 'r1 = numberParseFloat("nan")', 'r1 = jsonStringify(cy)', 'r1 = jsonStringify(hx)', 'r1 = jsonStringify(arrayNew(inf))',
    'r1 = jsonStringify(deep)', 'r1 = jsonStringify(dmax)', 'r1 = jsonParse("[1,")', 'r1 = jsonParse(stringRepeat("[", 5000))', 'r1 = jsonParse("NaN")',
    'r1 = jsonParse(5)', 'r1 = systemLog(hx)', 'r1 = systemLog(cy)', 'r1 = systemLog(dmax)', 'r1 = systemLogDebug(cy)', 'r1 = systemCompare(cy, cy)',
    'r1 = systemCompare(deep, deep)', 'r1 = systemIs(cy, cy)', 'r1 = systemType(hx)', 'r1 = systemBoolean(nan)', 'r1 = arraySort(arrayNew(cy, cy))',
    'r1 = arraySort(arrayNew(3, 1, 2), sfBad)', 'r1 = arraySort(arrayNew(nan, 1, "a", null, dd))', 'r1 = arrayIndexOf(cy, cy)', 'r1 = arrayIndexOf(arrayNew(1, 2), sfBad)',
    'r1 = arrayJoin(cy, ",")', 'r1 = arrayJoin(arrayNew(hx), ",")', 'r1 = arrayJoin(arrayNew(1), 5)', 'r1 = arrayExtend(cy, cy)', 'r1 = arrayLastIndexOf(deep, deep)',
    'r1 = objectKeys(5)', 'r1 = objectAssign(co, co)', 'r1 = objectCopy(cy)', 'r1 = objectDelete(co, 5)', 'r1 = objectHas(null, "a")',
    'r1 = stringNew(cy)', 'r1 = stringNew(hx)', 'r1 = stringNew(dmax)', 'r1 = stringSlice("abc", 2, 1)', 'r1 = stringSlice("abc", hi)', 'r1 = stringIndexOf("abc", "b", nan)',
    'r1 = stringSplit("a,b", "")', 'r1 = stringReplace("a", "", cy)', 'r1 = stringEndsWith(5, "a")', 'r1 = regexNew("(")', 'r1 = regexNew("a", "q")', 'r1 = regexMatch("a", "a")',
    'r1 = regexReplace(regexNew("a"), "a", "$9")', 'r1 = regexSplit(5, "a")', 'r1 = regexEscape(null)', 'r1 = datetimeNew(2020, 13, 1)', 'r1 = datetimeNew(2020, 1, inf)',
    'r1 = datetimeNew(2020, 1, nan)', 'r1 = datetimeNew(hi, 1, 1)', 'r1 = datetimeNew(2020, 1, 1, hi)', 'r1 = datetimeNew(9999, 12, 31, 25)', 'r1 = datetimeISOFormat(dmax)',
    'r1 = datetimeISOFormat(dmax, true)', 'r1 = datetimeISOParse("9999-12-31T23:59:59-12:00")', 'r1 = datetimeISOParse("0001-01-01T00:00:00+14:00")', 'r1 = datetimeYear("x")',
    'r1 = datetimeDay(dmax)', 'r1 = dataParseCSV("a,b", 5)', 'r1 = dataParseCSV("a\\n\\"")', 'r1 = dataValidate(cy)', 'r1 = dataSort(cy, arrayNew(arrayNew("a")))',
    'r1 = dataTop(arrayNew(objectNew("a", 1)), nan)', 'r1 = dataTop(arrayNew(objectNew("a", 1)), inf)', 'r1 = dataJoin(cy, cy, "a")', 'r1 = dataAggregate(arrayNew(co), co)',
    'r1 = dataFilter(arrayNew(objectNew("a", 1)), "a / 0 == null")',
    'r1 = dataCalculatedField(arrayNew(objectNew("a", hx)), "b", "\'\' + a")', 'r1 = dataCalculatedField(arrayNew(objectNew("a", 1)), "b", "sfBad(a)")',
    'r1 = schemaParse("struct")', 'r1 = schemaParse(5)', 'r1 = schemaValidate(co, "T", 1)', 'r1 = schemaValidateTypeModel(cy)', 'r1 = schemaTypeModel(1)',
    'r1 = systemFetch(5)', 'r1 = systemFetch(cy)', 'r1 = systemFetch("nowhere")', 'r1 = systemFetch(objectNew("url", 5))', 'r1 = systemGlobalGet(5)',
    'r1 = systemGlobalSet("r0", cy)', 'r1 = systemPartial(five, 1)', 'r1 = systemPartial(sfBad)', 'r2 = systemPartial(sfBad, cy)\nr1 = r2()', 'r1 = urlEncode(5)', 'r1 = urlEncodeComponent(cy)',
    'r1 = sfBad(cy)', 'r1 = sfBad()', 'r1 = sfBad(1, 2, 3)', 'r1 = sfDeep(0)', 'r1 = if(1 / 0, 1, 2)', 'r1 = if(cy == cy, 1, 2)', 'r1 = !(hx + "")', 'r1 = (1 / 0) && nosuch()',
    'r1 = (1 / 0) || five(2)', 'r1 = -(1 / 0)', 'r1 = -"s"', 'r1 = -cy', "r1 = true + 1", "r1 = null * 2", "r1 = 'a' * 2", "r1 = dd * 2", "r1 = cy - cy", "r1 = 'a' < 1",
    'for vv in cy:\n    r1 = vv + 1\nendfor', 'for vv, jj in deep:\n    r1 = jj\nendfor', 'for vv in five:\n    r1 = vv\nendfor', 'if 1 / 0:\n    r1 = 1\nelse:\n    r1 = 2\nendif',
    "if '' + cy:\n    r1 = 1\nendif", 'jumpif (cy == cy) skipA\nr1 = 9\nskipA:',
    # boolean contexts (value_boolean is called outside any handler: conditions, !, && / ||, if()) with adversarial values
    'if hx:\n    r1 = 1\nelse:\n    r1 = 2\nendif', 'if hh:\n    r1 = 1\nendif', 'if nan:\n    r1 = 1\nelse:\n    r1 = 2\nendif', 'if inf:\n    r1 = 1\nendif',
    'if cy:\n    r1 = 1\nendif', 'if deep:\n    r1 = 1\nendif', 'if dmax:\n    r1 = 1\nendif', 'while hx:\n    r1 = 1\n    break\nendwhile',
    'while nan:\n    r1 = 1\n    break\nendwhile', 'r1 = !hx', 'r1 = !hh', 'r1 = !nan', 'r1 = !inf', 'r1 = !cy', 'r1 = !deep', 'r1 = hx && 1', 'r1 = hx || 1', 'r1 = nan && 1',
    'r1 = nan || 1', 'r1 = cy && 1', 'r1 = if(hx, 1, 2)', 'r1 = if(nan, 1, 2)', 'r1 = if(hh, 1, 2)', 'jumpif (hx) skipB\nr1 = 9\nskipB:', 'jumpif (nan) skipC\nr1 = 9\nskipC:',
    'r1 = systemBoolean(hx)', 'r1 = arrayIndexOf(arrayNew(1, 2), five)', 'if 0 - hx:\n    r1 = 1\nendif',
    # statements that read the OPTIONAL members of the options themselves (logFn / debug / fetchFn / urlFn / systemPrefix)
    "include 'ok.bare'\nr1 = incv", "include 'lint.bare'\nr1 = incw", "function ffOk():\n    include 'lint.bare'\nendfunction\nr1 = ffOk()",
    "include <lint.bare>", 'r1 = systemLog(five)', "rf = systemFetch('ok.bare')", "rf = systemFetch(arrayNew('ok.bare', 'nowhere'))",
    "rf = systemFetch(objectNew('url', 'ok.bare', 'body', 'bb'))",      # rf: the one global that legitimately depends on the fetchFn
]
RT_LINES = [      # these END the run with a documented exception
    'r1 = nosuchFunction(1)', 'r1 = sfRaise(1, 2)', 'r1 = arraySort(arrayNew(3, 1, 2), sfRaise)', 'r1 = arrayIndexOf(arrayNew(1, 2), sfRaise)',
    'jump nowhere', 'r1 = dataFilter(arrayNew(objectNew("a", 1)), "a +")', 'r1 = dataFilter(arrayNew(objectNew("a", 1)), "nosuch(a)")', 'r1 = dataCalculatedField(arrayNew(objectNew("a", 1)), "b", "sfRaise(a)")',
    "include 'missing.bare'", "include 'broken.bare'", "function ffInc():\n    include 'broken.bare'\nendfunction\nr1 = ffInc()",
    'r2 = systemPartial(sfRaise, 1)\nr1 = r2()', "r1 = null()",
]
FILES = {'broken.bare': 'a = (1 +\n', 'ok.bare': 'incv = 1 / 0\n',
         'lint.bare': 'function lf(aa, bb):\n    1 + 1\n    return arrayGet(aa, 9)\nendfunction\nincw = lf(1)\n'}
ALIAS_EXPRS = ["len(5)", "abs('x')", "date(1, 2, 3)", "date(9999, 12, 31) + ''", "fixed(1.5, 0 - 1)", "max()", "parseInt('12', 99)", "rept('a', 0 - 1)",
               "sqrt(0 - 4)", "ln(0)", "log(8, 1)", "round(1.5, 0.5)", "slice('abc', 5, 1)", "charCodeAt('abc', 9)", "fromCharCode(0 - 1)", "text(1 / 0)",
               "upper(null)", "year(1)", "indexOf('abc')", "replace('a', null, 'b')", "arrayNew(1)", "nosuch(1)", "pi(1)", "now(1, 2)", "len()"]


def fail_lines(log):
    return [ln for ln in log if FAIL_RE.match(ln)]


# the shapes of the `options` argument of evaluate_expression: the first one is the reference
OPTION_SHAPES = [{'globals': True, 'debug': True, 'logFn': True}, {'globals': True, 'debug': False, 'logFn': True},
                 {'none': True}, {'debug': ABSENT, 'logFn': False}, {'globals': True, 'debug': ABSENT, 'logFn': False},
                 {'debug': True, 'logFn': False}, {'globals': True, 'debug': True, 'logFn': False}, {'debug': False, 'logFn': False},
                 {'globals': True, 'debug': ABSENT, 'logFn': True}, {'debug': True, 'logFn': True}]
ALIAS_NONDET = ('now(', 'today(')


def shape_tag(shape):
    if shape.get('none'):
        return 'options=None'
    return ('globals/' if shape.get('globals') else 'noglobals/') + cfg_tag(shape)


def eval_shape(mods, expr, shape, builtins):
    """evaluate_expression(expr, <options of this shape>) -> (guarded outcome, log)"""
    log = []
    options = None if shape.get('none') else make_options(shape, log, {} if shape.get('globals') else None)
    return guarded(mods, lambda: mods['runtime'].evaluate_expression(expr, options, None, builtins)), log


def alias_failures(out, log, shape, ref, lib, src):
    """the oracles of one alias-expression run -> [(oracle, expected, actual)]"""
    bad = []
    logs = not shape.get('none') and cfg_logs(shape)
    if out[0] == 'escape':
        return [('expression-escape', 'value or BareScriptRuntimeError', list(out))]
    if not logs and log:
        bad.append(('no-log-without-debug', [], log))
    if out[0] == 'rt' and not out[1].startswith('Undefined function'):
        bad.append(('unexpected-runtime-error', 'Undefined function only', out[1]))
    if ref is not None and not src.startswith(ALIAS_NONDET):
        a = [out[0], deep(out[1], lib) if out[0] == 'ok' else out[1]]
        b = [ref[0], deep(ref[1], lib) if ref[0] == 'ok' else ref[1]]
        if a != b:
            bad.append(('options-change-result', b, a))
    return bad


def stream_text(ctx, mods, n, name='exec-adversarial-text'):
    st = ctx.stream(name, f'scripts = fixed prelude (400/4000/4817-digit ints via numberParseInt, inf, nan, -0.0, datetimes at the edge, '
                          f'cyclic array/object, 1200-deep array, raising / failing / unboundedly recursive script functions) + 2..8 of '
                          f'{len(ADV_LINES)} adversarial statements (+ sometimes one of {len(RT_LINES)} statements that must end in a documented '
                          "exception) + systemLog('END'), run by execute_script with debug on and off and under one (thorough: four) of the other host "
                          'configurations (debug True/False/absent x logFn supplied/absent x fetchFn files/absent/raising, sometimes '
                          "without 'globals'); alias expressions under 10 shapes of the options argument (None, with/without globals, "
                          "debug, logFn); oracles: only documented "
                          "exceptions escape, END is reached unless a documented exception is raised, debug only adds 'failed with error' "
                          'lines (each naming a function), result and globals identical in both modes; non-trivial = at least one '
                          'swallowed failure')
    rng = ctx.rng(name)
    lines_all = list(ADV_LINES)
    off = rng.randrange(len(EXTRA_CONFIGS))
    for ix in range(n):
        if ix < len(lines_all):
            body = [lines_all[ix]]                                   # every template at least once, alone
        else:
            body = [rng.choice(lines_all) for _ in range(rng.randint(2, 8))]
        ends_rt = ix >= len(lines_all) and rng.random() < 0.15
        if ends_rt:
            body.insert(rng.randint(0, len(body)), rng.choice(RT_LINES))
        # a template may be drawn twice: its jump label must stay unique (a second definition would make the jump go backwards)
        body = [re.sub(r'\bskip([A-Z])\b', f'skip\\g<1>{j}', ln) for j, ln in enumerate(body)]
        text = PRELUDE + 'r0 = five\n' + '\n'.join(body) + "\nsystemLog('END')\nreturn 'done'\n"
        text_case(ctx, mods, st, name, text, ends_rt, ['single-template' if len(body) == 1 else 'combined'],
                  extra_configs(ctx, ix + off, rng, fetch=True))
    # expression aliases through evaluate_expression, builtins on / off, under EVERY shape of the options argument
    lib = mods['library'].SCRIPT_FUNCTIONS
    for src in ALIAS_EXPRS:
        expr = mods['parser'].parse_expression(src)
        for builtins in (True, False):
            ref = None
            for shape in OPTION_SHAPES:
                out, log = eval_shape(mods, expr, shape, builtins)
                case = {'kind': 'aliasexpr', 'text': src, 'builtins': builtins, 'debug': shape.get('debug') is True, 'shape': shape}
                st.case([src, builtins, shape_tag(shape)], nontrivial=bool(fail_lines(log)) or shape != OPTION_SHAPES[0],
                        tags=['alias-' + out[0], shape_tag(shape)])
                for oracle, want, got in alias_failures(out, log, shape, ref, lib, src):
                    ctx.witness(oracle, case, want, got)
                if ref is None:
                    ref = out


def visible(log, keep_failures=True):
    """the log without the debug-only lines of the runtime itself (include lint, systemFetch resource lines); the
    'failed with error' lines are kept or dropped"""
    return [ln for ln in log if (keep_failures and FAIL_RE.match(ln)) or not ln.startswith('BareScript: ')]


def user_globals(g, lib, skip=()):
    return {k: deep(v, lib) for k, v in g.items() if not (k in lib and v is lib[k]) and k not in skip}


def config_failures(mods, text, cfg, ends_rt, files, ref=None):
    """run `text` under host configuration cfg and under the reference configurations (logFn supplied, debug on / off)
    -> [(oracle, expected, actual)]: no host exception; the outcome and the globals do not depend on the configuration
    (a documented exception stays a documented exception when only the fetchFn changed); what reaches a supplied logFn
    is what reaches it in the reference configuration with the same debug mode - in particular one 'failed with error'
    line per swallowed failure iff debug mode"""
    lib = mods['library'].SCRIPT_FUNCTIONS
    none = bool(cfg.get('none'))
    if none:
        cfg = {'none': True, 'debug': ABSENT, 'logFn': False, 'fetchFn': 'absent'}
    ref_out, ref_log, ref_g = ref if ref is not None else run_script(mods, text, None, cfg_debug(cfg), 20000, files)
    if ref_out[0] == 'escape':
        return []                                       # reported by the reference run itself
    if (none or cfg.get('noMax')) and ref_out[0] == 'rt' and ref_out[1].startswith('Exceeded maximum script statements'):
        return []                                       # never run a script that needs the statement limit without one
    out, log, g = run_script(mods, text, None, None, 20000, files, cfg=cfg)
    if out[0] == 'escape':
        return [('script-escape', 'result or BareScriptRuntimeError/BareScriptParserError', list(out))]
    bad = []
    same_fetch = cfg.get('fetchFn', 'files') == 'files'
    if not same_fetch and (ends_rt or 'include' in text):
        # without its fetchFn an include ends the run with the documented runtime error instead
        if out[0] in ('rt', 'parser'):
            return bad
        if ends_rt:
            return [('documented-exception-expected', 'rt or parser', list(out[:1]))]
    if no_addr([out[0], str(out[1])]) != no_addr([ref_out[0], str(ref_out[1])]):
        bad.append(('config-changes-result', [ref_out[0], str(ref_out[1])[:200]], [out[0], str(out[1])[:200]]))
    if none:
        return bad
    skip = () if same_fetch else ('rf',)
    if user_globals(g, lib, skip) != user_globals(ref_g, lib, skip):
        bad.append(('config-changes-globals', 'the globals of the reference configuration', 'differ'))
    if cfg['logFn'] and visible(log) != visible(ref_log):
        bad.append(('config-changes-log', visible(ref_log)[-6:], visible(log)[-6:]))
    if not cfg['logFn'] and log:
        bad.append(('config-changes-log', [], log[-6:]))
    return bad


def text_case(ctx, mods, st, name, text, ends_rt, tags, extra=(), files=None, expect=None):
    """files: the fetchFn file table (default FILES); expect: the outcome kinds allowed in the reference configuration when the
    script ends in a documented exception (default: rt or parser)"""
    res = {}
    own_files = files is not None
    files = files if own_files else FILES
    for debug in (True, False):
        res[debug] = run_script(mods, text, None, debug, 20000, files)
    (out_d, log_d, g_d), (out_n, log_n, g_n) = res[True], res[False]
    case = {'kind': 'text', 'text': text}
    if own_files:
        case['files'] = files
    lib = mods['library'].SCRIPT_FUNCTIONS
    fl = fail_lines(log_d)
    st.case(text, nontrivial=bool(fl), tags=tags + [out_d[0]] + (['swallowed'] if fl else []) + [cfg_tag(c) for c in extra])
    for debug, out in ((True, out_d), (False, out_n)):
        if out[0] == 'escape':
            ctx.witness('script-escape', dict(case, debug=debug), 'result or BareScriptRuntimeError/BareScriptParserError', list(out))
            return
    # the other host configurations (debug True/False/absent x logFn supplied/absent x fetchFn files/absent/raising)
    for cfg in extra:
        for oracle, want, got in config_failures(mods, text, cfg, ends_rt, files, ref=res[cfg_debug(cfg)]):
            ctx.witness(oracle, dict({'kind': 'text-config', 'text': text, 'config': cfg, 'ends_rt': ends_rt}, **({'files': files} if own_files else {})),
                        want, got)
    if not ends_rt:
        if out_d != ('ok', 'done') or not log_d or log_d[-1] != 'END':
            ctx.witness('execution-continues', dict(case, debug=True), ['ok', 'done', 'END'], [list(out_d[:1]) + [str(out_d[1])[:200]], log_d[-3:]])
    elif out_d[0] not in (expect or ('rt', 'parser')):
        ctx.witness('documented-exception-expected', dict(case, debug=True, expect=list(expect or ('rt', 'parser'))), ' or '.join(expect or ('rt', 'parser')),
                    list(out_d[:1]) + [str(out_d[1])[:200]])
    # metamorphic: debug only adds failure lines (and include-lint lines, none here)
    rest = [ln for ln in log_d if not FAIL_RE.match(ln) and not ln.startswith('BareScript: ')]
    if rest != [ln for ln in log_n if not ln.startswith('BareScript: ')] or fail_lines(log_n):
        ctx.witness('debug-only-adds-lines', case, log_n[-6:], log_d[-6:])
    if (out_d[0], str(out_d[1])) != (out_n[0], str(out_n[1])):
        ctx.witness('debug-changes-result', case, list(out_n), list(out_d))
    keys = [k for k in g_d if not (k in lib and g_d[k] is lib[k])]
    if sorted(keys) != sorted(k for k in g_n if not (k in lib and g_n[k] is lib[k])) or \
       any(deep(g_d[k], lib) != deep(g_n.get(k), lib) for k in keys):
        ctx.witness('debug-changes-globals', case, 'same globals', 'differ')
    for ln in fl:
        if not FAIL_RE.match(ln).group(1):
            ctx.witness('failure-line-names-function', case, 'a function name', ln)


# ---------------------------------------------------------------------------------------------------------------------
# stream deep-expression: the STACK HEADROOM of the embedding application is a host configuration too.
#
# "Executing any PARSED script ... no host exception": an expression that parse_script / parse_expression accepted has to
# evaluate without RecursionError escaping.  The simulated host sits at interpreter stack depth HOST_DEPTH; it PARSES the
# script STACK_SLACK frames deeper (so a host with that much less room could still parse it) and then EXECUTES the model
# under the same recursion limit - the interpreter default (`default`) or the smallest limit under which the script still
# parses (`tight`: any growth of the evaluator's stack need beyond the parser's shows on expressions of ANY size).
#
# The expressions follow the "late nesting" grammar: a nested operand is always the LAST operand of an operator chain.
# For these the unchanged evaluator needs no more frames than the recursive-descent parser (chain of k operators: k
# parser frames, tree depth k; unary / group / call nesting: >= 1 parser frame per tree level).  A nested operand in a
# LEADING position is different - the parser is done with it before it descends into the chain, the evaluator is not -
# and there the unchanged code does let RecursionError escape: that class is kept apart (LEAD_NEST_PROBES).
# ---------------------------------------------------------------------------------------------------------------------

HOST_DEPTH = 100                # stack depth of the simulated embedding application when it calls parse_* / execute_script
STACK_SLACK = 16                # the host parses this many frames deeper than it executes
DEFAULT_LIMIT = 1000            # sys.getrecursionlimit() of a stock interpreter
LEAD_NEST_FINDING = 'F33'       # id under which the coordinator may list the leading-operand defect in known_findings.json


def stack_depth():
    frame, n = sys._getframe(1), 0          # pylint: disable=protected-access
    while frame is not None:
        n += 1
        frame = frame.f_back
    return n


def call_at(depth, fn):
    """call fn() from a frame at absolute interpreter stack depth `depth` (wherever the harness itself happens to be:
    a stream, a replay, a search - the witness behaves the same)"""
    def pad():
        if stack_depth() >= depth:
            return fn()
        return pad()
    return pad()


def with_limit(limit, fn):
    old = sys.getrecursionlimit()
    sys.setrecursionlimit(limit)
    try:
        return fn()
    finally:
        sys.setrecursionlimit(old)


DEEP_GLOBALS = {'f': True, 'z': False, 'n': 1.5, 's': 'ab'}
DEEP_SITES = {
    'return': 'return {E}\n',
    'assign': 'vv = {E}\nreturn vv\n',
    'exprstmt': '({E})\nreturn 1\n',                           # (a bare `n == 1` would be read as the assignment n = ...)
    'if': 'if {E}:\n    rr = 1\nelse:\n    rr = 2\nendif\nreturn rr\n',
    'elif': 'if z:\n    rr = 1\nelif {E}:\n    rr = 2\nendif\nreturn rr\n',
    'while': 'while {E}:\n    break\nendwhile\nreturn 1\n',
    'for': 'for vv in {E}:\n    rr = vv\nendfor\nreturn 1\n',
    'jumpif': 'jumpif ({E}) lab\nrr = 1\nlab:\nreturn rr\n',
    'callarg': 'rr = systemType({E})\nreturn rr\n',
    'fnbody': 'function ff(aa):\n    bb = {E}\n    return bb\nendfunction\nreturn ff(1)\n',
    'include': "include 'deep.bare'\nreturn incr\n",            # the expression is in the included file
    'expr': None,                                               # parse_expression / evaluate_expression
}
CHAIN_OPS = [['+'], ['-'], ['*'], ['/'], ['%'], ['**'], ['&&'], ['||'], ['=='], ['!='], ['<'], ['<='], ['>'], ['>='],
             ['+', '-'], ['*', '/', '%'], ['<', '>=', '=='], ['&&', '||'], ['**', '*', '+', '<', '==', '&&', '||']]
CHAIN_ATOMS = {'&&': ['f', 'f', '1', "'a'", 'true'], '||': ['z', 'z', '0', "''", 'null', 'false']}
PLAIN_ATOMS = ['1', '2', '0.5', 'n', 's', "'ab'", 'f', 'z', 'null', '10', '1e+3', 'undefinedName']
WRAPS = [['mathAbs(', ')'], ['systemType(', ')'], ['arrayNew(1, ', ')'], ['arrayNew(', ', 2)'], ['if(f, ', ', 1)'], ['if(z, 1, ', ')'],
         ['if(', ', 1, 2)'], ['stringNew(', ')'], ['systemBoolean(', ')'], ['mathMax(1, ', ', 3)'], ['objectNew("k", ', ')']]


def expr_from_segs(segs):
    """the text of a late-nesting expression from its recipe (inside out): ['atom', text] | ['unary', ops, m] |
    ['chain', ops, atom, m] (m atoms in front, the previous text is the LAST operand) | ['group'] | ['wrap', before, after]"""
    cur, chain = '1', False
    for seg in segs:
        kind = seg[0]
        if kind == 'atom':
            cur, chain = seg[1], False
        elif kind == 'unary':
            if chain:
                cur = '(' + cur + ')'
            ops = seg[1]
            cur, chain = ''.join(ops[i % len(ops)] for i in range(seg[2])) + cur, False
        elif kind == 'chain':
            ops = seg[1]
            cur, chain = ''.join(f'{seg[2]} {ops[i % len(ops)]} ' for i in range(seg[3])) + cur, True
        elif kind == 'group':
            cur, chain = '(' + cur + ')', False
        else:
            cur, chain = seg[1] + cur + seg[2], False
    return cur


def lead_nest_expr(kind, m, k):
    """the OTHER class: a nested FIRST operand under a chain of k operators (parser need max(m, k), evaluator need m + k)"""
    if kind == 'unary':
        return '!' * m + 'f' + ' + 1' * k
    if kind == 'group':
        return '(' * m + 'f' + ')' * m + ' + 1' * k
    cur = 'f'
    for _ in range(m):                          # ((f + 1 + 1) + 1 + 1) ...
        cur = '(' + cur + ' + 1' * k + ')'
    return cur


def wide_script(kind, n):
    """scripts whose SIZE grows but whose nesting does not: the parser needs O(1) frames, so must the execution"""
    if kind == 'args':
        return 'rr = arrayNew(' + ', '.join(['1', "'a'", 'f', 'n'][i % 4] for i in range(n)) + ')\nreturn arrayLength(rr)\n'
    if kind == 'statements':
        return 'vv = 0\n' + 'vv = vv + 1\n' * n + 'return vv\n'
    if kind == 'loop':
        return f'ii = 0\nwhile ii < {n}:\n    ii = ii + 1\nendwhile\nfor vv in arrayNewSize({n}):\n    ii = ii + 1\nendfor\nreturn ii\n'
    if kind == 'labels':
        return ''.join(f'jump lab{i}\nvv = 1\nlab{i}:\n' for i in range(n)) + 'return vv\n'
    if kind == 'functions':
        return ''.join(f'function fn{i}(aa):\n    return aa + 1\nendfunction\nvv = fn{i}(vv)\n' for i in range(n)) + 'return vv\n'
    if kind == 'blocks':
        return 'vv = 0\n' + ''.join('if f:\n    vv = vv + 1\nelif z:\n    vv = 0\nelse:\n    vv = 1\nendif\n' for i in range(n)) + 'return vv\n'
    if kind == 'string':
        return "ss = '" + 'ab{%s' * n + "'\nreturn stringLength(ss)\n"
    raise ValueError(kind)


WIDE_KINDS = ['args', 'statements', 'loop', 'labels', 'functions', 'blocks', 'string']


def deep_text(spec):
    """recipe -> (script or expression text, files)"""
    if 'wide' in spec:
        return wide_script(*spec['wide']), None
    expr = lead_nest_expr(*spec['lead']) if 'lead' in spec else expr_from_segs(spec['segs'])
    site = spec['site']
    if site == 'expr':
        return expr, None
    if site == 'include':
        return DEEP_SITES[site], {'deep.bare': 'incr = ' + expr + '\n'}
    return DEEP_SITES[site].replace('{E}', expr), None


def deep_run(mods, spec):
    """-> None if the simulated host cannot parse the text itself (RecursionError in the parser: not a PARSED script), else
    (guarded outcome of the execution, recursion limit used)"""
    parser, runtime = mods['parser'], mods['runtime']
    text, files = deep_text(spec)
    is_expr = spec.get('site') == 'expr'

    def host_parse():
        model = parser.parse_expression(text) if is_expr else parser.parse_script(text)
        for included in (files or {}).values():
            parser.parse_script(included)
        return model

    def parses(limit):
        try:
            return with_limit(limit, lambda: call_at(HOST_DEPTH + STACK_SLACK, host_parse))
        except RecursionError:
            return None

    limit = DEFAULT_LIMIT
    model = parses(limit)
    if model is None:
        return None
    if spec.get('limit') == 'tight':                    # the smallest limit under which this host still parses the text
        lo, hi = HOST_DEPTH + STACK_SLACK + 2, DEFAULT_LIMIT
        while lo < hi:
            mid = (lo + hi) // 2
            if parses(mid) is not None:
                hi = mid
            else:
                lo = mid + 1
        limit = lo
    cfg = spec.get('config') or REF_ON
    log = []
    if is_expr:
        options = None if cfg.get('none') else make_options(cfg, log, None if cfg.get('noGlobals') else dict(DEEP_GLOBALS))
        run = lambda: runtime.evaluate_expression(model, options, None, bool(spec.get('builtins', True)))   # noqa: E731
    elif cfg.get('none'):
        run = lambda: runtime.execute_script(model)                                                         # noqa: E731
    else:
        options = make_options(cfg, log, None if cfg.get('noGlobals') else dict(DEEP_GLOBALS), files=files, maxStatements=50000)
        run = lambda: runtime.execute_script(model, options)                                                # noqa: E731
    return with_limit(limit, lambda: call_at(HOST_DEPTH, lambda: guarded(mods, run))), limit


def random_segs(rng, frames):
    """a late-nesting recipe whose parse needs about `frames` frames"""
    segs = [['atom', rng.choice(PLAIN_ATOMS)]]
    used = 1
    while used < frames:
        room = frames - used
        kind = rng.choice(['chain', 'chain', 'chain', 'unary', 'unary', 'group', 'wrap'])
        m = min(room, rng.choice([1, 2, 3, 7, 25, 90, 300, 1000]))
        if kind == 'chain':
            ops = rng.choice(CHAIN_OPS)
            atoms = CHAIN_ATOMS.get(ops[0]) if len(ops) == 1 else None
            segs.append(['chain', ops, rng.choice(atoms or PLAIN_ATOMS), m])
            used += m
        elif kind == 'unary':
            segs.append(['unary', rng.choice(['!', '-', '!-', '- ', '! ']), m])
            used += m
        elif kind == 'group':
            segs.append(['group'])
            used += 2
        else:
            segs.append(['wrap'] + rng.choice(WRAPS))
            used += 2
    return segs


DEEP_CONFIGS = [REF_ON, REF_OFF] + EXTRA_CONFIGS + [{'none': True}, {'debug': True, 'logFn': True, 'noGlobals': True}]


def lead_nest_known():
    return any(f.get('id') == LEAD_NEST_FINDING and f.get('status') == 'known' for f in fw.load_findings(ID))


LEAD_NEST_PROBES = [['unary', 520, 520], ['group', 400, 800], ['nested', 330, 2]]
FINDING_MATCHERS = {LEAD_NEST_FINDING: lambda w: w.get('input', {}).get('kind') == 'deep' and 'lead' in w['input'].get('spec', {})}


def stream_deep(ctx, mods, n, name='deep-expression'):
    st = ctx.stream(name, 'host stack headroom as a host configuration: late-nesting expressions (operator chains of every operator '
                          'class and precedence mix, unary runs, groups, call / if() arguments, in any combination; the nested operand '
                          f'is the last operand of its chain) whose parse needs 5..{DEFAULT_LIMIT - HOST_DEPTH - 60} interpreter frames, at every '
                          'expression site (return, assignment, expression statement, if / elif / while / for / jumpif condition, call '
                          'argument, function body, included file, evaluate_expression with and without builtins) + wide scripts (thousands '
                          'of arguments / statements / iterations / labels / functions / blocks, O(1) nesting); the host parses the text '
                          f'{STACK_SLACK} frames deeper than it executes the model, under the default recursion limit and under the smallest '
                          'limit that still lets it parse (tight), host configurations in rotation; oracle: whatever was PARSED executes '
                          'to a value or a documented exception - no RecursionError escapes; non-trivial = parsed and executed')
    rng = ctx.rng(name)
    specs = []
    top = DEFAULT_LIMIT - HOST_DEPTH - STACK_SLACK - 40
    sites = sorted(DEEP_SITES)
    for ix in range(n):
        tight = ix % 3 == 2
        frames = rng.choice([5, 20, 60, 150]) if tight and rng.random() < 0.5 else rng.randint(200, top)
        site = sites[ix % len(sites)] if rng.random() < 0.7 else rng.choice(['return', 'assign', 'expr'])
        if tight and site == 'include':                 # the include machinery itself (fetch, lint) needs its constant room
            site = 'jumpif'
        spec = {'site': site, 'segs': random_segs(rng, frames), 'limit': 'tight' if tight else 'default',
                'config': DEEP_CONFIGS[(ix // 3) % len(DEEP_CONFIGS)]}
        if site == 'expr':
            spec['builtins'] = rng.random() < 0.5
        specs.append(spec)
    # homogeneous chains and runs at the sizes generated code reaches (sums, concatenations, conjunctions)
    for ops in CHAIN_OPS[:14]:
        atom = rng.choice(CHAIN_ATOMS.get(ops[0], ['1', "'ab'", 'n']))
        specs.append({'site': rng.choice(['return', 'assign', 'if', 'expr']), 'segs': [['atom', atom], ['chain', ops, atom, rng.randint(450, top)]],
                      'limit': 'default', 'config': REF_ON})
    for ops in ['!', '-', '!-']:
        specs.append({'site': 'return', 'segs': [['atom', 'f'], ['unary', ops, rng.randint(450, top)]], 'limit': 'default', 'config': REF_OFF})
    for kind in WIDE_KINDS:
        for limit in ('default', 'tight'):
            sizes = [150, 500] if kind in ('labels', 'blocks') else [300, 1200, 3000]      # the label lookup of a jump is linear
            specs.append({'wide': [kind, rng.choice(sizes)], 'limit': limit, 'config': rng.choice(DEEP_CONFIGS[:6])})
    specs = specs[n:] + specs[:n]                       # the plain chains / runs / wide scripts first: the most readable witnesses
    for spec in specs:
        deep_case(ctx, mods, st, spec)
    # the leading-operand class: the UNCHANGED evaluator needs more frames than the parser here (reported to the coordinator);
    # a witness only once the finding is listed as known, until then the probe results are notes in the evidence
    known = lead_nest_known()
    for probe in LEAD_NEST_PROBES:
        spec = {'site': 'return', 'lead': probe, 'limit': 'default', 'config': REF_ON}
        res = deep_run(mods, spec)
        if res is not None and res[0][0] == 'escape':
            if known:
                ctx.witness('parsed-script-escape', {'kind': 'deep', 'spec': spec}, 'a value or a documented exception', list(res[0]))
            else:
                ctx.notes.append(f'deep-expression: leading-operand nesting {probe} parses and then escapes {res[0][1]} on execution '
                                 f'(evaluator stack need = nesting + chain, parser = max of both): candidate finding {LEAD_NEST_FINDING}, '
                                 'not counted as a violation until listed')


def deep_case(ctx, mods, st, spec):
    res = deep_run(mods, spec)
    shape = 'wide-' + spec['wide'][0] if 'wide' in spec else 'site-' + spec['site']
    cfg = spec.get('config') or REF_ON
    if res is None:
        st.case(spec, nontrivial=False, tags=['parser-refused', shape])
        return
    out, limit = res
    room = limit - HOST_DEPTH - STACK_SLACK
    st.case(spec, nontrivial=True, tags=[shape, 'limit-' + spec['limit'], 'out-' + out[0], cfg_tag(cfg),
                                         'parse-room<50' if room < 50 else 'parse-room<400' if room < 400 else 'parse-room>=400'])
    if out[0] == 'escape':
        ctx.witness('parsed-script-escape', {'kind': 'deep', 'spec': spec, 'limit': limit},
                    'a value or BareScriptRuntimeError/BareScriptParserError (the host parsed this text with less stack than it gave the execution)',
                    list(out))


# ---------------------------------------------------------------------------------------------------------------------
# stream hostile-text: every message the runtime builds from script-controlled text (the offending line and the URL of a
# bad include, the line of a run-time parse error, 'failed with error' log lines, include / fetch diagnostics) is built
# for ARBITRARY text: format-string metacharacters of every formatting mini-language ({} % $ \g), JSON / template /
# regex text, control characters and the Unicode line separators, non-BMP and combining characters, lines longer than
# the 120-character window of the parser error (every elision branch, a brace pair cut in half)
# ---------------------------------------------------------------------------------------------------------------------

HOSTILE_ATOMS = [
    '{', '}', '{}', '{0}', '{1}', '{a}', '{"a": 1}', '{caret}', '{column}', '{error}', '{line}', '{prefix}', '{line_number}', '{0!r}', '{0:>{1}}',
    '{:>', '{!', '}{', '{{', '}}', '{{}}', 'Hello {name', '{name}}', '{0[0]}', '{a.b}', '%', '%s', '%d', '%r', '%(a)s', '%(line)s', '100%', '%%',
    '% d', '%*d', '%c', '${x}', '$1', '$&', '$$', '#{x}', '<b>', '&amp;', '[', ']', '(', ')', '^', '*', '+', '?', '|', '.', '\t', '\x00', '\x0b', '\x0c',
    '\x1c', '\x1d', '\x1e', '\x1f', '\x7f', '\x85', '\xa0', '\u2028', '\u2029', '\u00e9', 'a\u0301', '\u00df', '\u0130', '\u202e', '\ufeff', '\ud7ff',
    '\U0001f600', '\U000e0001', '\uff5b\uff5d', ' ', '  ', '#', '...', ':', ';', ',', '/', '//', '../', '?a=1&b={c}', 'file:///', 'http://h/{p}/', '~',
    'null', 'endif', 'include', '1e999', '-', '0x{:x}',
]
HOSTILE_BAN = {"'": '`', '"': '`', '\\': '/', '\n': ' ', '\r': ' '}


def hostile_payload(rng):
    r = rng.random()
    parts = [rng.choice(HOSTILE_ATOMS) for _ in range(rng.choice([1, 1, 1, 2, 3]))]
    if r < 0.3:                                                 # long lines: the three elision branches of the parser error
        fill = rng.choice(['a', ' ', '{', '}', '%', 'ab {x} '])
        parts.insert(rng.randint(0, len(parts)), fill * rng.choice([40, 70, 125, 260]))
    text = ''.join(parts)
    return ''.join(HOSTILE_BAN.get(ch, ch) for ch in text)


# included files with a syntax error: (text with @@ = the payload, is the payload inside a string literal of the error line)
BROKEN_INCLUDES = [
    ("libValue = jsonParse('@@') +\n", True), ("libValue = objectGet(jsonParse('@@'), 'a',\n", True),
    ("libValue = stringReplace('Hello @@', '@@', 'x') 1\n", True), ("libValue = 1 + * '@@'\n", True), ("libValue = ('@@'\n", True),
    ('libValue = "@@" "@@"\n', True), ("return '@@' )\n", True), ("'@@' 5\n", True), ("aa = 1\nbb = 2\n\n# c\nlibValue = '@@' +\n", True),
    ("if '@@' == 1:\n    xx = 1\n", True), ('while stringLength("@@"):\n    xx = 1\n', True), ("for vv in '@@'\n    xx = 1\nendfor\n", True),
    ("function ff(aa):\n    return '@@'\n", True), ("xx = 1\nendif '@@'\n", True), ("if true:\n    xx = '@@'\nendwhile\n", True),
    ("xx = '@@' + \\\n    (1 +\n", True), ("jumpif ('@@' lab\n", True), ("function ff(aa, '@@'):\nendfunction\n", True),
    ("include '@@\n", False), ("yy = [@@ +\n", False), ("yy = [a @@] +\n", False), ("@@\n= 1 +\n", False), ("break '@@'\n", True),
    ("async function ff('@@'):\n", True), ("libValue = mathAbs(1,, '@@')\n", True), ("    libValue = '@@' '\n", True),
]
# main scripts that include 'lib.bare' (## = the payload inside the URL)
INCLUDE_MAINS = [
    ("include 'lib.bare'\nreturn libValue\n", {}), ("include <lib.bare>\nreturn libValue\n", {}),
    ("function ff():\n    include 'lib.bare'\nendfunction\nrr = ff()\nreturn 'swallowed'\n", {}),
    ("include 'mid.bare'\nreturn 1\n", {'mid.bare': "midv = 1\ninclude 'lib.bare'\n"}),
    ("include 'ok.bare'\ninclude 'lib.bare'\nreturn 1\n", {'ok.bare': 'okv = 1\n'}),
    ("include 'dir/##lib.bare'\nreturn 1\n", {}), ("include <##lib.bare>\nreturn 1\n", {}), ("include '##'\nreturn 1\n", {}),
    ("include 'sub/mid.bare'\nreturn 1\n", {'sub/mid.bare': "include '##lib.bare'\n"}),
]
# statements of a main script that carry the payload and do NOT end the run (@@ single-quoted, the run reaches END)
HOSTILE_LINES = [
    "r1 = arrayGet('@@', 1)", "r1 = numberParseInt('@@', 99)", "r1 = datetimeISOParse('@@')", "r1 = regexNew('@@')", "r1 = jsonParse('@@')",
    "r1 = schemaParse('@@')", "r1 = schemaParse('struct @@')", "r1 = schemaParse('typedef @@ T', '@@')", "r1 = objectGet(objectNew(), '@@')",
    "r1 = systemGlobalGet('@@')", "r1 = systemGlobalSet('@@', 1)", "r1 = systemFetch('@@')", "r1 = systemFetch(arrayNew('@@', 5))",
    "r1 = systemFetch(objectNew('url', '@@', 'body', '@@'))", "systemLog('@@')", 'systemLog("@@")', "r1 = stringSplit('@@', '')",
    "r1 = mathAbs('@@')", "r1 = five('@@')", "r1 = dataFilter(arrayNew(objectNew('a', 1)), \"a == '@@'\")",
    "r1 = dataCalculatedField(arrayNew(objectNew('a', 1)), 'b', \"'@@' + a\")", "r1 = dataCalculatedField(arrayNew(objectNew('a', 1)), '@@', 'nope(1)', 5)",
    "r1 = dataParseCSV('@@')", "r1 = urlEncode('@@')", "r1 = urlEncodeComponent(objectNew('@@', 1))", "r1 = stringNew(objectNew('@@', '@@'))",
    "r1 = numberToFixed('@@')", "r1 = datetimeNew('@@')", "r1 = schemaValidate(schemaParse('typedef int T'), 'T', '@@')",
    "r1 = schemaValidate(schemaParse('typedef int T'), '@@', 1)", "r1 = schemaValidate(schemaParse('struct S', '  int a'), 'S', objectNew('@@', 1))",
    "r1 = objectNew('@@')", "r1 = objectNew('@@', 1, '@@')", "r1 = regexMatch(regexNew('a'), 5, '@@')", "r1 = regexReplace(regexNew('a'), 'a', '@@')",
    "r1 = stringReplace('a', 'a', '@@')", "r1 = arrayJoin(arrayNew(1), objectNew('@@', 1))", "r1 = arraySort('@@')", "r1 = dataSort(arrayNew(objectNew('a', 1)), '@@')",
    "r1 = dataAggregate(arrayNew(objectNew('a', 1)), objectNew('@@', 1))",
    "r1 = dataTop(arrayNew(objectNew('a', 1)), '@@')", "r1 = objectAssign('@@', '@@')", "r1 = stringRepeat('@@', '@@')", "r1 = systemPartial('@@', 1)",
    "r1 = datetimeYear('@@')", "# @@", "r1 = jsonStringify('@@', '@@')",
    "function hf(aa):\n    return arrayGet(aa, '@@')\nendfunction\nr1 = hf('@@')", "r1 = objectGet(null, '@@', '@@') + arrayGet('@@')",
    "include 'ok.bare'\nr1 = arrayGet(okv, '@@')", "r1 = mathRound('@@', '@@')", "r1 = numberParseFloat('@@') + numberParseInt('@@')",
]
# ... and statements that end the run with a documented exception whose text carries the payload
HOSTILE_RT_LINES = [
    "r1 = dataFilter(arrayNew(objectNew('a', 1)), \"a + '@@' +\")", "r1 = dataFilter(arrayNew(objectNew('a', 1)), \"nosuch('@@') '@@'\")",
    "r1 = dataCalculatedField(arrayNew(objectNew('a', 1)), 'b', \"('@@'\")", "include '@@missing.bare'", "include <@@missing.bare>",
    "function hf():\n    include 'x/@@.bare'\nendfunction\nr1 = hf()", "r1 = dataJoin(arrayNew(objectNew('a', 1)), arrayNew(objectNew('a', 1)), \"'@@' +\")",
    "r1 = dataAggregate(arrayNew(objectNew('a', 1)), objectNew('measures', arrayNew(objectNew('field', 'a', 'function', 'sum'))))\nr2 = nosuch('@@')",
]


def hostile_script(spec):
    """recipe -> (main script text, files, expected kinds of the reference outcome or None = reaches END)"""
    pay = spec['payload'] if not spec.get('twin') else 'x' * len(spec['payload'])
    url_pay = ''.join(ch for ch in pay if ch not in '>')
    if 'broken' in spec:
        main, more = INCLUDE_MAINS[spec['main']]
        lib = BROKEN_INCLUDES[spec['broken']][0].replace('@@', pay)
        main = main.replace('##', url_pay)
        files = {k.replace('##', url_pay): v.replace('##', url_pay) for k, v in more.items()}
        files['*lib.bare'] = lib                        # whatever URL the payload turns the include into
        if main.startswith("include '" + url_pay + "'"):
            files[url_pay] = lib
        return main, files, ['parser']
    lines = [HOSTILE_LINES[i].replace('@@', pay) for i in spec['lines']]
    expect = None
    if spec.get('rt') is not None:
        lines.append(HOSTILE_RT_LINES[spec['rt']].replace('@@', pay))
        expect = ['rt', 'parser']
    return 'five = 5\n' + '\n'.join(lines) + "\nsystemLog('END')\nreturn 'done'\n", {'ok.bare': 'okv = arrayNew(1)\n'}, expect


def parser_error_attrs(mods, text, files):
    """the documented exception of a bad include, by its attributes"""
    options = make_options(REF_ON, [], {}, files=files, maxStatements=20000)
    try:
        mods['runtime'].execute_script(mods['parser'].parse_script(text), options)
    except mods['parser'].BareScriptParserError as exc:
        return ['parser', exc.error, exc.line_number, exc.column_number, len(exc.line)]
    except mods['runtime'].BareScriptRuntimeError as exc:
        return ['rt', exc_text(exc)[:80]]
    except (KeyboardInterrupt, SystemExit):
        raise
    except BaseException as exc:  # pylint: disable=broad-except
        return ['escape', type(exc).__name__, exc_text(exc)[:120]]
    return ['ok']


def twin_failure(mods, spec):
    """a bad include reports the SAME error (description, line number, column, line length) whatever the characters inside the
    string literal on the offending line are: the payload against the same number of 'x' -> (expected, actual) or None"""
    text, files, _ = hostile_script(spec)
    twin_text, twin_files, _ = hostile_script(dict(spec, twin=True))
    got, want = parser_error_attrs(mods, text, files), parser_error_attrs(mods, twin_text, twin_files)
    return None if got == want else (want, got)


def stream_hostile(ctx, mods, n, name='hostile-text'):
    st = ctx.stream(name, f'script-controlled text in every message the runtime builds: {len(HOSTILE_ATOMS)} hostile atoms (format-string '
                          'metacharacters of the {} / % / $ mini-languages, JSON / template / regex / URL text, control characters, '
                          'Unicode line separators, combining / non-BMP / full-width characters, keywords), 1-3 of them, 30% padded beyond '
                          f'the 120-character error window, inside (a) the offending line of {len(BROKEN_INCLUDES)} kinds of broken included '
                          f'file x {len(INCLUDE_MAINS)} ways of including it (plain, system, inside a function, nested, second of two, payload '
                          f'in the URL), (b) 1-3 of {len(HOSTILE_LINES)} failing / logging statements, sometimes followed by one of '
                          f'{len(HOSTILE_RT_LINES)} statements whose documented exception carries the payload; run with debug on and off and '
                          'under one (thorough: four) other host configuration; oracles: only documented exceptions escape, a bad include '
                          'raises BareScriptParserError (same description / line number / column as with the payload replaced by x..x), '
                          'END is reached otherwise, debug only adds failure lines; non-trivial = a documented exception or a swallowed failure')
    rng = ctx.rng(name)
    off = rng.randrange(len(EXTRA_CONFIGS))
    for ix in range(n):
        payload = hostile_payload(rng)
        if ix % 2 == 0:
            bix = (ix // 2) % len(BROKEN_INCLUDES)
            spec = {'payload': payload, 'broken': bix, 'main': rng.randrange(len(INCLUDE_MAINS))}
        else:
            spec = {'payload': payload, 'lines': [((ix // 2) % len(HOSTILE_LINES))] + [rng.randrange(len(HOSTILE_LINES)) for _ in range(rng.choice([0, 0, 1, 2]))]}
            if rng.random() < 0.2:
                spec['rt'] = rng.randrange(len(HOSTILE_RT_LINES))
        text, files, expect = hostile_script(spec)
        text_case(ctx, mods, st, name, text, expect is not None, ['bad-include' if 'broken' in spec else 'statements'],
                  extra_configs(ctx, ix + off, rng, fetch=True), files=files, expect=expect)
        if 'broken' in spec and BROKEN_INCLUDES[spec['broken']][1]:
            bad = twin_failure(mods, spec)
            if bad is not None:
                ctx.witness('error-depends-on-literal-text', {'kind': 'hostile-twin', 'spec': spec, 'text': text, 'files': files}, bad[0], bad[1])


# ---------------------------------------------------------------------------------------------------------------------
# host boundary (streams host-failure, host-fetch): what the HOST's own functions answer is an input too.
#
# The property quantifies over every host function reachable from a script - functions put into the globals, the
# fetchFn / logFn / urlFn members of the options - and over every way in which such a function can answer: any str
# (the empty one, blank ones, a byte order mark, a str subclass), None, any exception class, raised with or without
# a message, with a message that is empty / blank / several lines / not text, by a callable of any signature.  The
# error HANDLERS of the runtime run on these answers (the call wrapper formats the exception, the include statement
# looks at the fetched text) and sit OUTSIDE the try-block they belong to: whatever goes wrong in them escapes at
# statement level and is swallowed by the caller's wrapper everywhere else - so every case is run at every POSITION
# (top-level statement of every kind, operand, argument, script function, included file, callback, data expression,
# evaluate_expression with the function in globals or in locals) and under every host configuration
# (debug True/False/absent x logFn supplied/absent x kinds of logFn), once or several times on the same options.
#
# Oracles (implementation side; the inputs are host objects, which the Lean model cannot express - only the callee
# OUTCOME of a statement-level call is sent to HostPy.wrapCall):
#   * nothing but the documented exceptions escapes;
#   * a failing call is a call that returned null: outcome, globals and the script's own log lines are those of the
#     twin run in which the same function returns null (direct calls), and of the twin in which it fails with a plain
#     ValueError('twin failure') (all positions);
#   * it is reported exactly once iff debug mode and a logFn, naming the function;
#   * a second / third run on the same options gives the same answer;
#   * include: a fetchFn that answers None or raises => BareScriptRuntimeError 'Include of "url" failed'; text that does
#     not parse => BareScriptParserError; any other str, the empty one included, is executed (nothing to execute =>
#     nothing happens) and the statements after the include run.
# ---------------------------------------------------------------------------------------------------------------------

class StrEmptyError(Exception):
    def __str__(self):
        return ''


class StrMultiError(Exception):
    def __str__(self):
        return 'first line\nsecond line\n'


class StrBlankFirstError(Exception):
    def __str__(self):
        return '\n\nthird line'


class StrSpaceError(Exception):
    def __str__(self):
        return '   '


class StrRaisesError(Exception):
    def __str__(self):
        raise RuntimeError('str boom')


class StrNonStrError(Exception):
    def __str__(self):
        return None


class ReprRaisesError(Exception):
    def __repr__(self):
        raise RuntimeError('repr boom')


class NoSuperInitError(Exception):
    def __init__(self, *args):      # pylint: disable=super-init-not-called
        self.detail = args


class SlotsError(Exception):
    __slots__ = ()


class BoolRaisesError(Exception):
    def __bool__(self):
        raise RuntimeError('bool boom')


class EqRaisesError(Exception):
    def __eq__(self, other):
        raise RuntimeError('eq boom')
    __hash__ = Exception.__hash__


class ArgsOnlyError(Exception):
    """a message-less exception that carries data"""
    def __init__(self, code=0):
        super().__init__()
        self.code = code


class HostError(Exception):
    pass


class LogFnError(Exception):
    """raised by a logFn of the host"""


class StrSub(str):
    """a str subclass answered by a host function"""


CUSTOM_EXC = {c.__name__: c for c in (StrEmptyError, StrMultiError, StrBlankFirstError, StrSpaceError, StrRaisesError, StrNonStrError,
                                      ReprRaisesError, NoSuperInitError, SlotsError, BoolRaisesError, EqRaisesError, ArgsOnlyError, HostError)}
STR_UNSAFE = ('StrRaisesError', 'StrNonStrError')           # str(exc) itself raises
PASS_THROUGH = ('BareScriptRuntimeError', 'SubRuntimeError')
SPECIAL_ARGS = {'UnicodeDecodeError': ['utf-8', ['b', 'x'], 0, 1, 'bad byte'], 'UnicodeEncodeError': ['utf-8', 'x', 0, 1, 'bad char'],
                'UnicodeTranslateError': ['x', 0, 1, 'bad char']}
MESSAGE_ARGS = [[], [''], [' '], ['\n'], ['\n\n'], ['a\nb'], ['\n\nx'], ['a\r\nb\r\n'], ['\u2028'], ['\x0c'], ['{0} %s {x} %(a)d {'], ['\ufeff'], [None],
                [0], [1, 2], [['b', 'by']], ['m' * 3000], ['msg'], ['', ''], [[]]]
HB_EXTRA = [REF_ON, REF_OFF] + EXTRA_CONFIGS
LOG_KINDS = ['list', 'list', 'returns', 'raises', 'sig0']    # raises / sig0: a logFn that fails itself (its OWN exception coming back is not counted)


def builtin_exception_names():
    import builtins                 # pylint: disable=import-outside-toplevel
    names = []
    for name in sorted(vars(builtins)):
        cls = getattr(builtins, name)
        if isinstance(cls, type) and issubclass(cls, Exception) and cls.__name__ == name and 'Group' not in name:
            names.append(name)
    return names


def make_exc(spec, mods):
    """['exc', class name, args] -> a fresh exception instance"""
    import builtins                 # pylint: disable=import-outside-toplevel
    _, name, args = spec
    args = [bytes(a[1], 'latin-1') if isinstance(a, list) and a[:1] == ['b'] else a for a in args]
    if name in CUSTOM_EXC:
        return CUSTOM_EXC[name](*args)
    if name == 'BareScriptRuntimeError':
        return mods['runtime'].BareScriptRuntimeError(*args)
    if name == 'SubRuntimeError':
        return type('SubRuntimeError', (mods['runtime'].BareScriptRuntimeError,), {})(*args)
    if name == 'JSONDecodeError':
        return json.JSONDecodeError('bad json', 'doc', 0)
    if name == 're.error':
        return re.error(*(args or ['bad pattern']))
    if name == 'ExceptionGroup':
        return ExceptionGroup(args[0] if args else '', [ValueError('inner'), KeyError()])    # noqa: F821  pylint: disable=undefined-variable
    if name == 'Noted':
        exc = RuntimeError(*args)
        exc.add_note('a note\non two lines')
        return exc
    return getattr(builtins, name)(*args)


def safe_str(exc):
    try:
        s = str(exc)
        return s if isinstance(s, str) else None
    except Exception:  # pylint: disable=broad-except
        return None


def exc_pool():
    """every builtin Exception class raised WITHOUT a message, the common ones with every kind of message, the custom ones"""
    bare = [['exc', n, list(SPECIAL_ARGS.get(n, []))] for n in builtin_exception_names()]
    bare += [['exc', n, []] for n in CUSTOM_EXC] + [['exc', 'JSONDecodeError', []], ['exc', 're.error', []], ['exc', 'ExceptionGroup', []],
                                                    ['exc', 'Noted', []], ['exc', 'ArgsOnlyError', [7]]]
    msgs = [['exc', n, a] for n in ('RuntimeError', 'ValueError', 'KeyError', 'OSError', 'MemoryError', 'HostError', 'NoSuperInitError', 'Exception',
                                    'AssertionError', 'StopIteration', 'IndexError', 'LookupError', 're.error', 'ExceptionGroup', 'Noted')
            for a in MESSAGE_ARGS if not (n == 're.error' and (not a or not isinstance(a[0], str)))
            and not (n == 'ExceptionGroup' and (not a or not isinstance(a[0], str)))]
    passing = [['exc', n, [m]] for n in PASS_THROUGH for m in ('host said stop', '', 'two\nlines')]
    return bare, msgs, passing


def make_hostfn(fspec, mods):
    """['raise', exc spec] | ['raise_ctx', exc spec] | ['raise_from', exc spec] | ['null'] | ['sig', kind] -> the host function `hostFn`"""
    kind = fspec[0]
    if kind == 'raise':
        def hostFn(args, options):              # pylint: disable=invalid-name,unused-argument
            raise make_exc(fspec[1], mods)
    elif kind == 'raise_ctx':                   # raised while another exception is being handled (__context__ set)
        def hostFn(args, options):              # pylint: disable=invalid-name,unused-argument
            try:
                return {}['missing']
            except KeyError:
                raise make_exc(fspec[1], mods)  # pylint: disable=raise-missing-from
    elif kind == 'raise_from':
        def hostFn(args, options):              # pylint: disable=invalid-name,unused-argument
            raise make_exc(fspec[1], mods) from OSError()
    elif kind == 'null':
        def hostFn(args, options):              # pylint: disable=invalid-name,unused-argument
            return None
    else:
        sig = fspec[1]
        if sig == 'zero':
            def hostFn():                       # pylint: disable=invalid-name
                return 1
        elif sig == 'one':
            def hostFn(args):                   # pylint: disable=invalid-name,unused-argument
                return 1
        elif sig == 'three':
            def hostFn(args, options, more):    # pylint: disable=invalid-name,unused-argument
                return 1
        elif sig == 'kwonly':
            def hostFn(args, *, options):       # pylint: disable=invalid-name,unused-argument
                return 1
        elif sig == 'builtin':
            hostFn = len                        # pylint: disable=invalid-name
        elif sig == 'callobj':                  # an object whose __call__ fails without a message
            class Callable:                     # pylint: disable=too-few-public-methods
                def __call__(self, args, options):
                    raise RuntimeError
            hostFn = Callable()                 # pylint: disable=invalid-name
        elif sig == 'partial':
            import functools                    # pylint: disable=import-outside-toplevel

            def inner(flag, args, options):     # pylint: disable=unused-argument
                raise MemoryError
            hostFn = functools.partial(inner, 1)            # pylint: disable=invalid-name
        elif sig == 'unpack':                   # a host function that trusts its argument list
            def hostFn(args, options):          # pylint: disable=invalid-name,unused-argument
                first, second, third = args     # pylint: disable=unused-variable
                return first
        elif sig == 'assert':
            def hostFn(args, options):          # pylint: disable=invalid-name,unused-argument
                assert not args
                return 1
        elif sig == 'next':
            def hostFn(args, options):          # pylint: disable=invalid-name,unused-argument
                return next(iter(()))
        else:
            raise ValueError(fspec)
    return hostFn


SIG_KINDS = ['zero', 'one', 'three', 'kwonly', 'builtin', 'callobj', 'partial', 'unpack', 'assert', 'next']
MEM_COUNTS = ['1e+15', '2e+15', '1e+16', '1e+18', '4e+18']        # 'ab' * n: refused at once (beyond the address space), MemoryError()

# positions of the failing call: @C@ = the call, @F@ = the failing function as a value, @N@ = its name in the log line
HF_POS = [
    {'id': 'assign', 'body': 'rr = @C@', 'names': ['@N@'], 'model': True},
    {'id': 'exprstmt', 'body': '@C@', 'names': ['@N@']},
    {'id': 'return', 'body': 'return @C@', 'names': ['@N@']},
    {'id': 'if', 'body': 'if @C@:\n    rr = 1\nelse:\n    rr = 2\nendif', 'names': ['@N@']},
    {'id': 'elif', 'body': 'if false:\n    rr = 1\nelif @C@:\n    rr = 2\nelse:\n    rr = 3\nendif', 'names': ['@N@']},
    {'id': 'while', 'body': 'while @C@:\n    rr = 1\n    break\nendwhile', 'names': ['@N@']},
    {'id': 'whilebody', 'body': 'ii = 0\nwhile ii < 3:\n    rr = @C@\n    ii = ii + 1\nendwhile', 'names': ['@N@'] * 3},
    {'id': 'for', 'body': 'for vv in @C@:\n    rr = vv\nendfor', 'names': None},
    {'id': 'forbody', 'body': 'for vv in arrayNew(1, 2):\n    rr = @C@\nendfor', 'names': ['@N@'] * 2},
    {'id': 'jumpif', 'body': 'jumpif (@C@) lab\nrr = 1\nlab:', 'names': ['@N@']},
    {'id': 'arg', 'body': 'rr = systemType(@C@)', 'names': ['@N@']},
    {'id': 'pair', 'body': 'rr = arrayNew(@C@, 1, @C@)', 'names': ['@N@'] * 2},
    {'id': 'nestedarg', 'body': 'rr = arrayLength(arrayNew(objectNew("k", @C@)))', 'names': ['@N@']},
    {'id': 'binary', 'body': 'rr = @C@ + 1', 'names': ['@N@']},
    {'id': 'binaryr', 'body': 'rr = "x" + @C@', 'names': ['@N@']},
    {'id': 'not', 'body': 'rr = !@C@', 'names': ['@N@']},
    {'id': 'neg', 'body': 'rr = -@C@', 'names': ['@N@']},
    {'id': 'and', 'body': 'rr = @C@ && 1', 'names': ['@N@']},
    {'id': 'andr', 'body': 'rr = 1 && @C@', 'names': ['@N@']},
    {'id': 'or', 'body': 'rr = @C@ || "x"', 'names': ['@N@']},
    {'id': 'group', 'body': 'rr = (@C@)', 'names': ['@N@']},
    {'id': 'cmp', 'body': 'rr = @C@ == null', 'names': ['@N@']},
    {'id': 'ifcond', 'body': 'rr = if(@C@, 1, 2)', 'names': ['@N@']},
    {'id': 'ifbranch', 'body': 'rr = if(true, @C@, 2)', 'names': ['@N@']},
    {'id': 'after', 'body': 'r0 = @C@\nrr = arrayGet(arrayNew(5), 0)\nr2 = @C@\nr3 = arrayGet(1)\nr4 = @C@', 'names': ['@N@', '@N@', 'arrayGet', '@N@']},
    {'id': 'infn', 'body': 'function sf(aa):\n    bb = @C@\n    return systemType(bb)\nendfunction\nrr = sf(1)', 'names': ['@N@']},
    {'id': 'infnret', 'body': 'function sf():\n    return @C@\nendfunction\nrr = sf()', 'names': ['@N@']},
    {'id': 'infn2', 'body': 'function s1():\n    return @C@\nendfunction\nfunction s2():\n    return arrayNew(s1(), s1())\nendfunction\nrr = s2()',
     'names': ['@N@'] * 2},
    {'id': 'include', 'body': "include 'lib.bare'", 'files': {'lib.bare': 'rr = @C@\nincEnd = 1\n'}, 'inc': True, 'names': ['@N@']},
    {'id': 'includefn', 'body': "include 'lib.bare'\nrr = libFn(2)", 'inc': True, 'names': ['@N@'],
     'files': {'lib.bare': 'function libFn(aa):\n    return arrayNew(aa, @C@)\nendfunction\n'}},
    {'id': 'sortbody', 'body': 'function cmp(aa, bb):\n    xx = @C@\n    return aa - bb\nendfunction\nrr = arraySort(arrayNew(3, 1, 2), cmp)', 'names': None},
    {'id': 'datacalc', 'body': "rr = dataCalculatedField(arrayNew(objectNew('a', 1)), 'b', \"@C@\")", 'names': ['@N@']},
    {'id': 'datafilter', 'body': "rr = dataFilter(arrayNew(objectNew('a', 1), objectNew('a', 2)), \"@C@ == null\")", 'names': ['@N@'] * 2},
    # the failing function as a VALUE: called by the library / through another name
    {'id': 'sortfn', 'body': 'rr = arraySort(arrayNew(3, 1, 2), @F@)', 'callback': True, 'names': ['arraySort']},
    {'id': 'indexof', 'body': 'rr = arrayIndexOf(arrayNew(1, 2), @F@)', 'callback': True, 'names': ['arrayIndexOf']},
    {'id': 'partial', 'body': 'pp = systemPartial(@F@, 1)\nrr = pp(2)', 'callback': True, 'names': ['pp']},
    {'id': 'fnarg', 'body': 'function sf(ff):\n    return ff(1)\nendfunction\nrr = sf(@F@)', 'callback': True, 'direct': True, 'names': ['ff']},
    {'id': 'alias', 'body': 'gg = @F@\nrr = gg(1)', 'callback': True, 'direct': True, 'names': ['gg']},
    # evaluate_expression
    {'id': 'x-call', 'body': '@C@', 'expr': True, 'names': ['@N@'], 'model': True},
    {'id': 'x-demo', 'body': "if(@C@ == null, 'null', 'other') + '-continued'", 'expr': True, 'names': ['@N@']},
    {'id': 'x-or', 'body': '@C@ || 5', 'expr': True, 'names': ['@N@']},
    {'id': 'x-not', 'body': '!@C@', 'expr': True, 'names': ['@N@']},
    {'id': 'x-neg', 'body': '-(@C@)', 'expr': True, 'names': ['@N@']},
    {'id': 'x-arg', 'body': 'systemType(@C@)', 'expr': True, 'names': ['@N@']},
    {'id': 'x-pair', 'body': 'arrayNew(@C@, @C@)', 'expr': True, 'names': ['@N@'] * 2},
    {'id': 'x-binary', 'body': '1 + @C@', 'expr': True, 'names': ['@N@']},
]
HF_POS_BY_ID = {p['id']: p for p in HF_POS}
HF_TOP = [p['id'] for p in HF_POS if not p.get('callback')]
TWIN_EXC = ['exc', 'ValueError', ['twin failure']]


def hb_logfn(kind, log):
    """kinds of logFn a host may supply"""
    if kind == 'returns':                       # a logFn that answers something
        def log_returns(text):
            log.append(text)
            return 'logged: ' + str(text)
        return log_returns
    if kind == 'raises':
        def log_raises(text):
            raise LogFnError
        return log_raises
    if kind == 'sig0':
        def log_sig0():
            return None
        return log_sig0
    return log.append


def logfn_own(out):
    """the exception of the host's OWN logFn came back to the host (the runtime called it outside any wrapper, e.g. from the
    failure handler in debug mode): outside the domain of the property (ASSUMPTIONS), not a failure of the runtime"""
    return out[0] == 'escape' and (out[1] == 'LogFnError' or (out[1] == 'TypeError' and 'log_sig0' in out[2]))


def hb_options(cfg, logkind, log, globals_, **more):
    options = dict(more)
    if globals_ is not None:
        options['globals'] = globals_
    if cfg['debug'] != ABSENT:
        options['debug'] = cfg['debug']
    if cfg['logFn']:
        options['logFn'] = hb_logfn(logkind, log)
    return options


HOST_NAMES = ['hostFn', 'hostFn', 'hostFn', 'stringUpper', 'mathAbs', 'len', 'hf', 'Host_fn9']     # also names of library functions / expression aliases


def hf_setup(mods, fail, variant, hname='hostFn'):
    """the failing call of a case in one of its variants ('real' | 'msg': fails with ValueError('twin failure') | 'null':
    returns null without failing) -> (call text, function-value text, extra globals, extra options, name in the failure line)"""
    kind = fail[0]
    if kind in ('host', 'sig'):
        if variant == 'real':
            fn = make_hostfn(['sig', fail[1]] if kind == 'sig' else [fail[2] if len(fail) > 2 else 'raise', fail[1]], mods)
        else:
            fn = make_hostfn(['raise', TWIN_EXC] if variant == 'msg' else ['null'], mods)
        return hname + "(1, 'a')", hname, {hname: fn}, {}, hname
    if kind == 'mem':
        text = {'real': f"stringRepeat('ab', {fail[1]})", 'msg': "stringRepeat('ab', 0 - 1)", 'null': "systemGlobalGet('hbUnset')"}[variant]
        return text, None, {}, {}, 'stringRepeat'
    if kind == 'urlfn':                         # the urlFn member of the options, called by systemFetch INSIDE the wrapper
        if variant == 'null':
            return "systemFetch('u')", None, {}, {'urlFn': lambda url: url, 'fetchFn': lambda req: None}, 'systemFetch'
        exc = fail[1] if variant == 'real' else TWIN_EXC

        def url_fn(url):
            raise make_exc(exc, mods)
        return "systemFetch('u')", None, {}, {'urlFn': url_fn, 'fetchFn': lambda req: 'text'}, 'systemFetch'
    raise ValueError(fail)


def hf_texts(pos, call, fval):
    sub = lambda s: s.replace('@C@', call).replace('@F@', fval or '')     # noqa: E731
    if pos.get('expr'):
        return sub(pos['body']), None
    text = "systemLog('before')\n" + sub(pos['body']) + "\nsystemLog('after')\nreturn 'done'\n"
    return text, {k: sub(v) for k, v in pos.get('files', {}).items()}


_PARSED = {}


def parsed(mods, text, expr=False):
    key = (id(mods['parser']), expr, text)
    if key not in _PARSED:
        if len(_PARSED) > 4000:
            _PARSED.clear()
        _PARSED[key] = mods['parser'].parse_expression(text) if expr else mods['parser'].parse_script(text)
    return _PARSED[key]


def hf_run(mods, case, variant, logkind=None, runs=1):
    """-> [(outcome, log, canonical user globals)] of `runs` consecutive runs on the SAME options"""
    lib = mods['library'].SCRIPT_FUNCTIONS
    pos = HF_POS_BY_ID[case['pos']]
    cfg = case['config']
    call, fval, g_extra, o_extra, _ = hf_setup(mods, case['fail'], variant, case.get('name', 'hostFn'))
    text, files = hf_texts(pos, call, fval)
    log = []
    g = dict(g_extra)
    locals_ = None
    if pos.get('expr'):
        for name, fn in lib.items():
            g.setdefault(name, fn)
        if case.get('locals'):                  # the host function is a LOCAL of the expression
            locals_ = {k: g.pop(k) for k in list(g_extra)}
    more = dict(o_extra)
    if files and 'fetchFn' not in more:
        more['fetchFn'] = lambda req: files_lookup(files, req['url'])
    options = hb_options(cfg, logkind or case.get('logkind', 'list'), log, g, maxStatements=2000, **more)
    if case.get('noglobals'):                   # options without a 'globals' member
        options.pop('globals', None)
    if case.get('optnone'):                     # evaluate_expression(expr, None, locals): no options at all
        options = None
    model = parsed(mods, text, bool(pos.get('expr')))
    res = []
    for _ in range(runs):
        del log[:]
        if pos.get('expr'):
            out = guarded(mods, lambda: mods['runtime'].evaluate_expression(model, options, locals_, bool(case.get('builtins', True))))
        else:
            out = guarded(mods, lambda: mods['runtime'].execute_script(model, options))
        res.append((out, list(log), user_globals(g, lib, (case.get('name', 'hostFn'), 'gg', 'pp'))))     # (gg / pp hold the function itself)
    return res


def out_canon(out, lib):
    return no_addr([out[0], deep(out[1], lib) if out[0] == 'ok' else out[1]])


def fail_names(log):
    return [FAIL_RE.match(ln).group(1) for ln in log if FAIL_RE.match(ln)]


def hostfail_failures(mods, case):
    """the oracles of one host-failure case -> [(oracle, expected, actual)]"""
    lib = mods['library'].SCRIPT_FUNCTIONS
    pos = HF_POS_BY_ID[case['pos']]
    cfg = case['config']
    fail = case['fail']
    runs = hf_run(mods, case, 'real', runs=int(case.get('reuse', 1)))
    out, log, g = runs[0]
    if any(logfn_own(r[0]) for r in runs):
        return []
    if any(r[0][0] == 'escape' for r in runs):
        esc = next(r[0] for r in runs if r[0][0] == 'escape')
        return [('host-failure-escape', 'a value or BareScriptRuntimeError/BareScriptParserError (the failing call is null)', list(esc))]
    bad = []
    logs = cfg_logs(cfg) and case.get('logkind', 'list') in ('list', 'returns')
    sees = cfg['logFn'] and case.get('logkind', 'list') in ('list', 'returns')
    if fail[0] == 'host' and fail[1][1] in PASS_THROUGH:
        want = ['rt', str(fail[1][2][0])]       # a documented exception raised by a host function IS the documented outcome
        if out_canon(out, lib) != want:
            bad.append(('documented-exception-expected', want, out_canon(out, lib)))
        return bad
    name = hf_setup(mods, fail, 'real', case.get('name', 'hostFn'))[4]
    for ix, (out_k, log_k, g_k) in enumerate(runs[1:]):         # a second / third use of the same options
        if (out_canon(out_k, lib), log_k, g_k) != (out_canon(out, lib), log, g):
            bad.append(('reuse-after-failure', [out_canon(out, lib), log[-4:]], [ix + 2, out_canon(out_k, lib), log_k[-4:]]))
            break
    # the twins
    variants = ['msg'] + (['null'] if (not pos.get('callback') or pos.get('direct')) else [])
    for variant in variants:
        t_out, t_log, t_g = hf_run(mods, case, variant)[0]
        if t_out[0] == 'escape':
            continue                            # reported by the streams that own plain failures
        oracle = 'failure-class-changes-outcome' if variant == 'msg' else 'failure-is-null'
        if out_canon(out, lib) != out_canon(t_out, lib):
            bad.append((oracle, out_canon(t_out, lib), out_canon(out, lib)))
        elif g != t_g:
            keys = sorted(k for k in set(g) | set(t_g) if g.get(k) != t_g.get(k))
            bad.append((oracle, {k: t_g.get(k) for k in keys}, {k: g.get(k) for k in keys}))
        elif sees and visible(log, False) != visible(t_log, False):
            bad.append((oracle, visible(t_log, False)[-5:], visible(log, False)[-5:]))
        elif variant == 'msg' and len(fail_names(log)) != len(fail_names(t_log)):
            bad.append(('failure-log-once', fail_names(t_log), fail_names(log)))
    # the report: once per failing call, naming the function, iff debug mode and a logFn
    names = fail_names(log)
    if not logs and names:
        bad.append(('no-log-without-debug', [], names))
    if logs and pos.get('names') is not None:
        want = [n.replace('@N@', name) for n in pos['names']]
        if names != want:
            bad.append(('failure-log-once', want, names))
    if not sees and log:
        bad.append(('config-changes-log', [], log[-4:]))
    # the kind of logFn does not matter either
    if case.get('logkind', 'list') != 'list':
        p_out, _, p_g = hf_run(mods, case, 'real', logkind='list')[0]
        if p_out[0] != 'escape' and (out_canon(out, lib), g) != (out_canon(p_out, lib), p_g):
            bad.append(('logfn-changes-outcome', out_canon(p_out, lib), out_canon(out, lib)))
    return bad


def hf_measure(mods, case):
    """the callee outcome of a statement-level case, measured by calling the function directly -> wrapCall request or None"""
    fail = case['fail']
    if fail[0] == 'urlfn' or (fail[0] == 'host' and (fail[1][1] in STR_UNSAFE or fail[1][1] in PASS_THROUGH)):
        return None
    _, _, g_extra, _, name = hf_setup(mods, fail, 'real', case.get('name', 'hostFn'))
    fn = g_extra.get(name) or mods['library'].SCRIPT_FUNCTIONS[name]
    args = [1, 'a'] if fail[0] != 'mem' else ['ab', float(fail[1])]
    try:
        fn(args, {})
        return None
    except mods['value'].ValueArgsError:
        return None
    except Exception as exc:  # pylint: disable=broad-except
        msg = safe_str(exc)
        if msg is None:
            return None
        cfg = case['config']
        has_log = bool(cfg['logFn'])
        return {'op': 'wrapCall', 'out': {'k': 'host', 'cls': type(exc).__name__, 'msg': msg}, 'debug': cfg_debug(cfg), 'hasLogFn': has_log,
                'name': name, 'log': ['before'] if has_log and not HF_POS_BY_ID[case['pos']].get('expr') else []}


def hf_cases(ctx, rng, n_random):
    bare, msgs, passing = exc_pool()
    cases = []
    fails = [['host', e] for e in bare + msgs + passing] + [['sig', k] for k in SIG_KINDS] + [['mem', c] for c in MEM_COUNTS]
    # every failure at statement level (script and expression) under the logging configuration, and under one other
    for ix, fail in enumerate(fails):
        for pid in ('assign', 'x-call'):
            cases.append({'kind': 'hostfail', 'fail': fail, 'pos': pid, 'config': REF_ON})
        cases.append({'kind': 'hostfail', 'fail': fail, 'pos': rng.choice(HF_TOP), 'config': HB_EXTRA[ix % len(HB_EXTRA)]})
    # every position x every host configuration with a message-less failure
    empties = [['host', ['exc', 'RuntimeError', []]], ['host', ['exc', 'MemoryError', []]], ['host', ['exc', 'StrEmptyError', []]],
               ['host', ['exc', 'KeyError', []]], ['mem', '1e+15'], ['sig', 'callobj'], ['host', ['exc', 'StrMultiError', []]]]
    for pix, pos in enumerate(HF_POS):
        for cix, cfg in enumerate(HB_EXTRA):
            fail = empties[(pix + cix) % len(empties)] if not ctx.quick or cfg in (REF_ON, REF_OFF) else rng.choice(fails)
            if pos.get('callback') and fail[0] == 'mem':
                fail = empties[0]
            cases.append({'kind': 'hostfail', 'fail': fail, 'pos': pos['id'], 'config': cfg})
    # the failing function as a LOCAL of an expression: options without 'globals', no options at all; under a library / alias name
    for cix, cfg in enumerate(HB_EXTRA):
        for pid in ('x-call', 'x-demo'):
            cases.append({'kind': 'hostfail', 'fail': empties[cix % 4], 'pos': pid, 'config': cfg, 'locals': True, 'noglobals': True, 'builtins': True})
            cases.append({'kind': 'hostfail', 'fail': empties[(cix + 1) % 4], 'pos': pid, 'config': cfg, 'name': HOST_NAMES[3 + cix % 5],
                          'builtins': bool(cix % 2)})
        cases.append({'kind': 'hostfail', 'fail': empties[cix % 4], 'pos': 'assign', 'config': cfg, 'name': HOST_NAMES[3 + cix % 5], 'reuse': 2})
    cases.append({'kind': 'hostfail', 'fail': empties[0], 'pos': 'x-call', 'config': {'debug': ABSENT, 'logFn': False}, 'locals': True, 'optnone': True,
                  'builtins': True})
    # random combinations: failure x position x configuration x kind of logFn x re-use x raised-while-handling
    for _ in range(n_random):
        fail = rng.choice(fails) if rng.random() < 0.8 else ['urlfn', rng.choice(bare + msgs)]
        pos = rng.choice(HF_POS)
        if fail[0] == 'host' and rng.random() < 0.15:
            fail = fail + [rng.choice(['raise_ctx', 'raise_from'])]
        while (pos.get('callback') and fail[0] not in ('host', 'sig')) or (pos.get('inc') and fail[0] == 'urlfn'):
            pos = rng.choice(HF_POS)
        case = {'kind': 'hostfail', 'fail': fail, 'pos': pos['id'], 'config': rng.choice(HB_EXTRA)}
        if rng.random() < 0.3:
            case['reuse'] = rng.choice([2, 3])
        if fail[0] in ('host', 'sig'):
            hname = rng.choice(HOST_NAMES)
            if hname != 'hostFn':
                case['name'] = hname
        kind = rng.choice(LOG_KINDS)
        if kind != 'list' and case['config']['logFn']:
            case['logkind'] = kind
        if pos.get('expr'):
            case['builtins'] = rng.random() < 0.5
            if fail[0] in ('host', 'sig') and rng.random() < 0.4:
                case['locals'] = True
                if pos['id'] in ('x-call', 'x-or', 'x-not', 'x-neg', 'x-binary', 'x-demo') and rng.random() < 0.5:
                    if rng.random() < 0.5:
                        case.update(optnone=True, config={'debug': ABSENT, 'logFn': False}, builtins=True)
                        case.pop('logkind', None)
                    else:
                        case.update(noglobals=True, builtins=True)
        cases.append(case)
    return cases


def unsafe_here(case):
    """str(exc) itself raises: the unchanged handler formats the exception OUTSIDE its try-block (candidate finding F34)"""
    fail = case['fail']
    return fail[0] in ('host', 'urlfn') and fail[1][1] in STR_UNSAFE and bool(cfg_logs(case['config']))


HANDLER_FINDING = 'F34'


def handler_finding_known():
    return any(f.get('id') == HANDLER_FINDING and f.get('status') in ('known', 'fixed') for f in fw.load_findings(ID))  # listed: judged like every other case (a fixed entry suppresses nothing)


def stream_host_failure(ctx, mods, n_random, name='host-failure'):
    st = ctx.stream(name, 'host functions that FAIL in every way a Python callable can: every builtin Exception class raised without a message, '
                          f'the common ones with {len(MESSAGE_ARGS)} kinds of message (none / empty / blank / newline only / several lines / CRLF / '
                          'U+2028 / format-string text / BOM / None / numbers / bytes / 3000 characters / two arguments), custom classes whose '
                          '__str__ answers "" / blanks / several lines / an empty first line, whose __repr__ / __bool__ / __eq__ raise, without '
                          'super().__init__, with __slots__, with notes, exception groups, raised while handling / from another exception; '
                          f'callables with {len(SIG_KINDS)} unusual signatures (0 / 1 / 3 parameters, keyword-only, a builtin, a callable object, '
                          'a partial, trusting its argument list, assert, next()); the in-script message-less failure '
                          "stringRepeat('ab', 1e+15 ...) (MemoryError()); a raising urlFn under systemFetch; BareScriptRuntimeError (sub)classes "
                          f'raised by the host (documented outcome) x {len(HF_POS)} positions of the call (every statement kind, operands, arguments, '
                          'script functions, included files, sort / data callbacks, the function passed as a value, evaluate_expression with '
                          'the function in globals or locals, builtins on/off) x debug True/False/absent x logFn supplied/absent x kind of '
                          'logFn (list.append, answering, raising / wrong signature with debug off) x 1-3 runs on the same options. Host '
                          'objects cannot be sent to the Lean model: the callee outcome of the statement-level cases goes to HostPy.wrapCall '
                          '(exact log line), everything else is an implementation-side oracle: no escape; same outcome / globals / own log '
                          'lines as the twin that fails with ValueError("twin failure") and (direct calls) as the twin that returns null; '
                          'one failure line naming the function iff debug and logFn; same answer on re-use; the kind of logFn changes '
                          'nothing. non-trivial = the failing call was made and contained')
    rng = ctx.rng(name)
    cases = hf_cases(ctx, rng, n_random)
    lib = mods['library'].SCRIPT_FUNCTIONS
    reqs, req_ix = [], {}
    for ix, case in enumerate(cases):
        pos = HF_POS_BY_ID[case['pos']]
        if pos.get('model') and ctx.driver is not None and not case.get('locals') and case.get('logkind', 'list') in ('list', 'returns'):
            req = hf_measure(mods, case)
            if req is not None:
                req_ix[ix] = len(reqs)
                reqs.append(req)
    resps = ctx.driver.batch(reqs) if reqs else []
    known = handler_finding_known()
    noted = set()
    for ix, case in enumerate(cases):
        fail = case['fail']
        tags = [fail[0], 'pos-' + case['pos'], cfg_tag(case['config']), 'log-' + case.get('logkind', 'list'), 'runs-' + str(case.get('reuse', 1))]
        if fail[0] in ('host', 'urlfn'):
            msg = safe_str(make_exc(fail[1], mods))
            tags.append('msg-unprintable' if msg is None else 'msg-empty' if msg == '' else 'msg-blank' if not msg.strip() else
                        'msg-multiline' if len(msg.splitlines()) > 1 else 'msg-plain')
        if unsafe_here(case):
            # the unchanged handler cannot format this exception: a witness only once the finding is listed
            bad = hostfail_failures(mods, case)
            st.case(case, nontrivial=False, tags=tags + ['str-unsafe'])
            if bad and known:
                ctx.witness(bad[0][0], case, bad[0][1], bad[0][2])
            elif bad and fail[1][1] not in noted:
                noted.add(fail[1][1])
                ctx.notes.append(f'host-failure: a host function raising {fail[1][1]} (str(exc) itself raises) at position {case["pos"]} in debug mode with a '
                                 f'logFn: {bad[0][0]} {bad[0][2]} - the handler of runtime.py:244-247 formats the exception outside any try: candidate '
                                 f'finding {HANDLER_FINDING}, not counted as a violation until listed')
            continue
        bad = hostfail_failures(mods, case)
        st.case(case, nontrivial=not bad, tags=tags)
        for oracle, want, got in bad:
            ctx.witness(oracle, case, want, got)
        if ix in req_ix and not any(b[0] == 'host-failure-escape' for b in bad):
            resp = resps[req_ix[ix]]
            out, log, g = hf_run(mods, case, 'real')[0]
            if HF_POS_BY_ID[case['pos']].get('expr'):
                value, impl_log = (out[1] if out[0] == 'ok' else None), log
            else:
                value = g.get('rr')
                impl_log = log[:-1] if log[-1:] == ['after'] else log
            ctx.compare(name, case, no_addr({'res': {'value': value}, 'log': impl_log}),
                        no_addr({'res': {'value': (resp.get('res') or {}).get('value', '?')}, 'log': resp.get('log')}))


FINDING_MATCHERS[HANDLER_FINDING] = lambda w: w.get('input', {}).get('kind') == 'hostfail' and unsafe_here(w['input'])


# ---- fetchFn ----------------------------------------------------------------------------------------------------------

# what a fetchFn may answer for the included URL: (text, kind, value of incv afterwards)
FETCH_TEXTS = [
    ('', 'noop', None), (' ', 'noop', None), ('\t', 'noop', None), ('\n', 'noop', None), ('\r\n', 'noop', None), ('\r', 'noop', None),
    ('\n\n\n', 'noop', None), ('   \n\t\n', 'noop', None), ('# c', 'noop', None), ('# c\n', 'noop', None), ('#', 'noop', None),
    ('\n# c\n\n', 'noop', None), ('\x0c', 'noop', None), ('\x0b', 'noop', None), ('\u2028', 'noop', None), ('\u2029', 'noop', None),
    ('\x85', 'noop', None), ('\xa0', 'noop', None), ('\u3000', 'noop', None), ('return 5\n', 'noop', None), ('return\n', 'noop', None),
    ('incv = 7', 'assign', 7.0), ('incv = 7\n', 'assign', 7.0), ('incv = 7\r\n', 'assign', 7.0), ('\nincv = 7\n\n', 'assign', 7.0),
    ('  incv = 7', 'assign', 7.0), ('incv = 7\n# c', 'assign', 7.0), ('# c\nincv = 7', 'assign', 7.0), ('incv = \\\n    7\n', 'assign', 7.0),
    ('incw = 3\nincv = incw + 4\n', 'assign', 7.0), ("incv = stringLength('\ufeff') + 6\n", 'assign', 7.0), ('incv = 7\n\x0c', 'assign', 7.0),
    ("incv = 7\nreturn\nincv = 8\n", 'assign', 7.0), ("incv = arrayGet(1)\n", 'assign', None), ("incv = 7 # \ufeff\n", 'bom', None),
    ('\ufeff', 'bom', None), ('\ufeffincv = 7\n', 'bom', None), ('\ufeff\n', 'bom', None), (' \ufeff', 'bom', None),
    ('\ufeff# c\n', 'bom', None), ('\x00', 'broken', None), ('incv = 7 \\', 'broken', None), ('incv = (1 +\n', 'broken', None),
    ('endif\n', 'broken', None), ('function ff():\n', 'broken', None), ("include 'y.bare\n", 'broken', None), ('incv = 7\n\ufeff', 'bom', None),
    ('\ufffe', 'broken', None), ('\u200b', 'broken', None), ('if true:\n', 'broken', None), ('?', 'broken', None),
]
FETCH_TEXT_KIND = {t: (k, v) for t, k, v in FETCH_TEXTS}
MID_TEXT = "midv = 1\ninclude 'x.bare'\nmidw = 2\n"
# positions of the include: (id, body, globals that must be set when the include went through)
FETCH_POS = [
    ('top', "aa = 1\ninclude 'x.bare'\nbb = 2", {'aa': 1.0, 'bb': 2.0}),
    ('first', "include 'x.bare'\nbb = 2", {'bb': 2.0}),
    ('system', "aa = 1\ninclude <x.bare>\nbb = 2", {'aa': 1.0, 'bb': 2.0}),
    ('second', "include 'ok.bare'\ninclude 'x.bare'\nbb = 2", {'okv': 1.0, 'bb': 2.0}),
    ('before-other', "include 'x.bare'\ninclude 'ok.bare'\nbb = 2", {'okv': 1.0, 'bb': 2.0}),
    ('twice', "include 'x.bare'\nbb = 1\ninclude 'x.bare'\nbb = bb + 1", {'bb': 2.0}),
    ('infn', "function ld():\n    include 'x.bare'\n    return 'loaded'\nendfunction\nbb = if(ld() == 'loaded', 2, 0)", {'bb': 2.0}),
    ('infn-twice', "function ld():\n    include 'x.bare'\n    return 1\nendfunction\nbb = ld() + ld()", {'bb': 2.0}),
    ('nested', "include 'mid.bare'\nbb = 2", {'midv': 1.0, 'midw': 2.0, 'bb': 2.0}),
    ('loop', "bb = 0\nfor ii in arrayNew(1, 2):\n    include 'x.bare'\n    bb = bb + 1\nendfor", {'bb': 2.0}),
    ('cond', "if true:\n    include 'x.bare'\nendif\nbb = 2", {'bb': 2.0}),
    # systemFetch: the answer of the fetchFn IS the value
    ('sysfetch', "rr = systemFetch('x.bare')\nbb = 2", {'bb': 2.0}),
    ('sysfetch-array', "rr = systemFetch(arrayNew('x.bare', objectNew('url', 'x.bare')))\nbb = 2", {'bb': 2.0}),
    ('sysfetch-fn', "function gf():\n    return systemFetch('x.bare')\nendfunction\nrr = gf()\nbb = 2", {'bb': 2.0}),
]
FETCH_POS_BY_ID = {p[0]: p for p in FETCH_POS}
FETCH_SIGS = ['zero', 'two', 'kwonly']


def make_fetch(fspec, mods, calls):
    """['text', s] | ['strsub', s] | ['none'] | ['raise', exc spec] | ['sig', kind] -> fetchFn (the answer is for x.bare)"""
    kind = fspec[0]

    def answer():
        if kind == 'text':
            return fspec[1]
        if kind == 'strsub':
            return StrSub(fspec[1])
        if kind == 'none':
            return None
        raise make_exc(fspec[1], mods)

    def other(url):
        return 'okv = 1\n' if url.endswith('ok.bare') else MID_TEXT if url.endswith('mid.bare') else None

    if kind == 'sig':
        if fspec[1] == 'zero':
            return lambda: 'incv = 7\n'
        if fspec[1] == 'two':
            return lambda req, more: 'incv = 7\n'
        return lambda *, req: 'incv = 7\n'

    def fetch_fn(req):
        url = req['url']
        calls.append(url)
        return answer() if url.endswith('x.bare') else other(url)
    return fetch_fn


def no_bom(v):
    """(whether a byte order mark belongs to the text is not a matter of error containment)"""
    if isinstance(v, list):
        return [no_bom(x) for x in v]
    return v.replace('\ufeff', '') if isinstance(v, str) else v


def fetch_expect(fspec):
    """-> 'fail' | 'broken' | 'noop' | 'assign'"""
    if fspec[0] in ('none', 'raise', 'sig'):
        return 'fail', None
    return FETCH_TEXT_KIND[fspec[1]]


def hostfetch_failures(mods, case):
    """one host-fetch case: 1-3 steps (position of the include, answer of the fetchFn), on fresh or shared options
    -> [(oracle, expected, actual)]"""
    lib = mods['library'].SCRIPT_FUNCTIONS
    cfg = case['config']
    logkind = case.get('logkind', 'list')
    sees = cfg['logFn'] and logkind in ('list', 'returns')
    shared = None
    bad = []
    for six, step in enumerate(case['steps']):
        pid, body, want_g = FETCH_POS_BY_ID[step['pos']]
        fspec = step['fetch']
        kind, incv = fetch_expect(fspec)
        text = "systemLog('before')\n" + body + "\nsystemLog('END')\nreturn 'done'\n"
        calls = []
        log = []
        if case.get('shared') and shared is not None:
            options, g = shared
            options['fetchFn'] = make_fetch(fspec, mods, calls)
            if cfg['logFn']:
                options['logFn'] = hb_logfn(logkind, log)
        else:
            g = {}
            options = hb_options(cfg, logkind, log, g, maxStatements=2000, fetchFn=make_fetch(fspec, mods, calls))
            if step.get('urlFn'):               # a urlFn that answers the URL itself / a str subclass / a longer URL
                options['urlFn'] = {'identity': lambda url: url, 'strsub': StrSub, 'prefix': lambda url: 'dir/' + url}[step['urlFn']]
            if step.get('systemPrefix'):
                options['systemPrefix'] = 'sys/'
            shared = (options, g)
        before = g.get('incv', ABSENT)
        for key in ('bb', 'rr', 'midw'):
            g.pop(key, None)
        out = guarded(mods, lambda: mods['runtime'].execute_script(parsed(mods, text), options))      # pylint: disable=cell-var-from-loop
        where = {'step': six}
        if logfn_own(out):
            return bad
        if out[0] == 'escape':
            return [('host-fetch-escape', 'a value or BareScriptRuntimeError/BareScriptParserError', [where] + list(out))]
        if pid.startswith('sysfetch'):
            # the call evaluates to what the fetchFn answered (null if it failed), no failure is logged, execution continues
            one = None if kind == 'fail' else fspec[1]
            want = [one, one] if pid == 'sysfetch-array' else one
            if out_canon(out, lib) != ['ok', 'done'] or g.get('bb') != 2.0 or no_bom(g.get('rr', ABSENT)) != no_bom(want) or fail_names(log):
                bad.append(('fetch-answer-is-the-value', [['ok', 'done'], want], [where, out_canon(out, lib), deep(g.get('rr', ABSENT), lib), fail_names(log)]))
            continue
        if kind == 'fail':
            if out[0] != 'rt':                  # (unchanged code: 'Include of "x.bare" failed'; any BareScriptRuntimeError is documented)
                bad.append(('documented-exception-expected', ['rt', 'Include of "x.bare" failed'], [where] + out_canon(out, lib)))
            continue
        if kind == 'bom' and out[0] == 'ok':
            kind, incv = ('assign', 7.0) if 'incv' in fspec[1] else ('noop', None)        # a tolerant include: the text without the mark
        if kind in ('broken', 'bom'):
            if out[0] != 'parser':
                bad.append(('documented-exception-expected', ['parser', 'Included from "x.bare"'], [where] + out_canon(out, lib)))
            continue
        got_g = {k: g.get(k, ABSENT) for k in want_g}
        if out_canon(out, lib) != ['ok', 'done'] or got_g != want_g or (sees and visible(log, False) != ['before', 'END']):
            bad.append(('include-then-continue', [['ok', 'done'], want_g, ['before', 'END']], [where, out_canon(out, lib), deep(got_g, lib), log[-4:]]))
        want_incv = before if kind == 'noop' else incv            # (incv = <a failing call>: null)
        if g.get('incv', ABSENT) != want_incv:
            bad.append(('include-effect', want_incv, [where, deep(g.get('incv', ABSENT), lib)]))
        if not sees and log:
            bad.append(('config-changes-log', [], log[-4:]))
    return bad


def hfetch_cases(ctx, rng, n_random):
    bare, msgs, _ = exc_pool()
    answers = [['text', t] for t, _, _ in FETCH_TEXTS] + [['strsub', t] for t, _, _ in FETCH_TEXTS[:8] + FETCH_TEXTS[21:24]] + [['none']] + \
        [['sig', k] for k in FETCH_SIGS]
    raising = [['raise', e] for e in bare + msgs]
    cases = []
    # every answer at top level and inside a function, debug on and off
    for ix, ans in enumerate(answers + raising):
        for pid in ('top', 'infn') if ans in answers else ('top',):
            cases.append({'kind': 'hostfetch', 'steps': [{'pos': pid, 'fetch': ans}], 'config': HB_EXTRA[(ix + (pid == 'infn')) % 2]})
    # every position x every configuration with the degenerate answers
    core = [['text', ''], ['text', '\n'], ['text', '\ufeff'], ['none'], ['text', ' '], ['strsub', ''], ['raise', ['exc', 'MemoryError', []]],
            ['text', 'incv = 7'], ['text', '# c'], ['raise', ['exc', 'StrRaisesError', []]]]
    for pix, pos in enumerate(FETCH_POS):
        for cix, cfg in enumerate(HB_EXTRA):
            picks = core if not ctx.quick else [core[(pix + cix) % len(core)], core[0]]
            for ans in picks:
                cases.append({'kind': 'hostfetch', 'steps': [{'pos': pos[0], 'fetch': ans}], 'config': cfg})
    # histories: 2-3 includes in a row (fresh or shared options), one answer after another, urlFn / systemPrefix present
    for _ in range(n_random):
        steps = []
        for _ in range(rng.choice([1, 2, 2, 3])):
            step = {'pos': rng.choice(FETCH_POS)[0], 'fetch': rng.choice(answers if rng.random() < 0.75 else raising)}
            if rng.random() < 0.2:
                step['urlFn'] = rng.choice(['identity', 'strsub', 'prefix'])
            if rng.random() < 0.2:
                step['systemPrefix'] = True
            steps.append(step)
        case = {'kind': 'hostfetch', 'steps': steps, 'config': rng.choice(HB_EXTRA)}
        if len(steps) > 1 and rng.random() < 0.5:
            case['shared'] = True
        kind = rng.choice(LOG_KINDS)
        if kind != 'list' and case['config']['logFn']:
            case['logkind'] = kind
        cases.append(case)
    return cases


CYCLE_FINDING = 'F35'


def include_cycle_run(mods, case):
    """a fetchFn that answers every URL with a script that includes the next file (a cycle of `period` files): every level is one
    statement and one interpreter frame of the include statement, which has no call wrapper around it"""
    period = int(case.get('period', 1))

    def fetch_fn(req):
        n = int(req['url'].split('.')[0][1:] or 0)
        return f"cv = {n}\ninclude 'c{(n + 1) % period}.bare'\n"
    options = {'globals': {}, 'fetchFn': fetch_fn, 'maxStatements': int(case['max'])}
    return guarded(mods, lambda: mods['runtime'].execute_script(parsed(mods, "include 'c0.bare'\nreturn 'done'\n"), options))


FINDING_MATCHERS[CYCLE_FINDING] = lambda w: w.get('input', {}).get('kind') == 'hostfetch-cycle'


def stream_host_fetch(ctx, mods, n_random, name='host-fetch'):
    st = ctx.stream(name, f'what the fetchFn of the host answers for an included / fetched URL: {len(FETCH_TEXTS)} texts (the empty string, blanks, '
                          'every line terminator alone, comment only, return only, a byte order mark alone / in front of a script / after a '
                          'blank / at the end / inside a string literal, NUL, zero-width space, a dangling continuation, unterminated blocks, '
                          'scripts without a final newline / with CRLF / indented), the same as str subclass, None, a fetchFn raising every '
                          'builtin Exception class without a message and the common ones with every kind of message (and classes whose '
                          f'__str__ raises), a fetchFn with a wrong signature x {len(FETCH_POS)} positions (top level, first statement, system '
                          'include, second / first of two includes in one statement, twice, inside a script function (once / twice), '
                          'inside an included file, inside a loop / a block, systemFetch of a URL / an array / in a function) x debug '
                          'True/False/absent x logFn supplied/absent x kind of logFn x urlFn / systemPrefix present x histories of 1-3 '
                          'scripts on fresh or SHARED options. Host-only inputs (not expressible in the Lean model): implementation-side '
                          'oracles from the property - no escape; None / raising => BareScriptRuntimeError "Include of ... failed"; text '
                          'that does not parse => BareScriptParserError "Included from ..."; any other str is executed (empty => nothing '
                          'happens) and the run reaches END with the expected globals; systemFetch evaluates to the answer. non-trivial = all')
    rng = ctx.rng(name)
    for case in hfetch_cases(ctx, rng, n_random):
        bad = hostfetch_failures(mods, case)
        kinds = sorted({fetch_expect(s['fetch'])[0] for s in case['steps']})
        st.case(case, nontrivial=True, tags=['answer-' + k for k in kinds] + ['pos-' + s['pos'] for s in case['steps']] +
                [cfg_tag(case['config']), 'steps-' + str(len(case['steps'])), 'shared' if case.get('shared') else 'fresh', 'log-' + case.get('logkind', 'list')])
        for oracle, want, got in bad:
            ctx.witness(oracle, case, want, got)
    # an include cycle: within the statement budget the run ends with 'Exceeded maximum script statements'; with a larger budget
    # (the default is 1e9) the unchanged code lets RecursionError escape - candidate finding, a witness once it is listed
    for case in ({'kind': 'hostfetch-cycle', 'period': 1, 'max': 300}, {'kind': 'hostfetch-cycle', 'period': 2, 'max': 300},
                 {'kind': 'hostfetch-cycle', 'period': 1, 'max': 100000}, {'kind': 'hostfetch-cycle', 'period': 3, 'max': 100000}):
        out = include_cycle_run(mods, case)
        st.case(case, nontrivial=out[0] == 'rt', tags=['include-cycle', 'out-' + out[0]])
        if out[0] == 'escape' and (case['max'] <= 300 or any(f.get('id') == CYCLE_FINDING and f.get('status') == 'known' for f in fw.load_findings(ID))):
            ctx.witness('host-fetch-escape', case, 'BareScriptRuntimeError', list(out))
        elif out[0] == 'escape' and case['period'] == 1:
            ctx.notes.append(f'host-fetch: a file that includes itself, maxStatements {case["max"]}: {out[1]} escapes execute_script (one frame of '
                             f'_execute_script_helper per level, runtime.py:143, no wrapper at statement level): candidate finding {CYCLE_FINDING}, '
                             'not counted as a violation until listed')


# =====================================================================================================================
# Round 9: four implementation-only oracle streams.  What they feed the runtime cannot be sent to the Lean model (host
# objects, host functions that call back into the runtime, layered scripts with file tables): the oracle is the property
# statement itself, read on the implementation - nothing but BareScriptRuntimeError / BareScriptParserError comes out of
# execute_script / evaluate_expression, a contained failure does not stop the run, nothing is reported that did not fail.
# Shared scale axis of the streams below (geometric, with the neighbours of the usual thresholds):
# =====================================================================================================================

SIZES = [0, 1, 2, 9, 10, 11, 16, 17, 64, 65, 100, 101, 128, 129, 256, 1000]
REGEX_T = type(re.compile(''))


def is_bare(v, path=()):
    """is v a BareScript value (doc: null, boolean, number, string, datetime, array, string-keyed object, function, regex)"""
    if v is None or isinstance(v, (bool, int, float, str, datetime.date, REGEX_T)) or callable(v):
        return True
    if isinstance(v, (list, dict)):
        if id(v) in path:
            return True
        path = path + (id(v),)
        if isinstance(v, list):
            return all(is_bare(x, path) for x in v)
        return all(isinstance(k, str) and is_bare(x, path) for k, x in v.items())
    return False


def safe_repr(v):
    try:
        return repr(v)[:120]
    except Exception:  # pylint: disable=broad-except
        return '<' + type(v).__name__ + '>'


def run_model(mods, model, options, expr=False, locals_=None, builtins=True):
    if expr:
        return guarded(mods, lambda: mods['runtime'].evaluate_expression(model, options, locals_, builtins))
    return guarded(mods, lambda: mods['runtime'].execute_script(model, options))


# ---------------------------------------------------------------------------------------------------------------------
# stream host-values: "with ANY globals".  A host hands the script what it has: decimal.Decimal prices of a database row,
# Fractions, complex samples, tuples / sets / bytes, enum members, subclasses of the builtin types, opaque objects - as a
# global, inside a host-provided array / object, as the answer of a host function, as a local of evaluate_expression.
# value.py gives every such value a defined reading ('<unknown>', type name 'unknown', true); the operator block must
# treat it as an invalid operand (null), never hand it to a Python operator.
# ---------------------------------------------------------------------------------------------------------------------

class HvOpaque:                                # pylint: disable=too-few-public-methods
    """a plain host object"""


class HvNumberLike:                            # pylint: disable=too-few-public-methods
    """registered with the numbers.Number ABC, supports no operator at all"""


class HvHostile:
    """every special method a Python operator, bool(), len(), iter(), str(), repr(), float() ... would call raises"""

    def _boom(self, *args, **kwargs):
        raise RuntimeError('hostile host value')
    __add__ = __radd__ = __sub__ = __rsub__ = __mul__ = __rmul__ = __truediv__ = __rtruediv__ = __mod__ = __rmod__ = _boom
    __pow__ = __rpow__ = __neg__ = __pos__ = __abs__ = __bool__ = __len__ = __iter__ = __getitem__ = __contains__ = _boom
    __eq__ = __ne__ = __lt__ = __le__ = __gt__ = __ge__ = __float__ = __int__ = __index__ = __str__ = __repr__ = __format__ = _boom
    __hash__ = None


def hv_classes():
    import enum                                 # pylint: disable=import-outside-toplevel
    import numbers                              # pylint: disable=import-outside-toplevel
    if 'done' not in _HV_CLASSES:
        numbers.Number.register(HvNumberLike)
        _HV_CLASSES['IntEnum'] = enum.IntEnum('HvColor', {'ZERO': 0, 'RED': 1, 'BIG': 2 ** 70})
        _HV_CLASSES['IntFlag'] = enum.IntFlag('HvPerm', {'R': 1, 'W': 2})
        _HV_CLASSES['floatsub'] = type('HvFloat', (float,), {})
        _HV_CLASSES['intsub'] = type('HvInt', (int,), {})
        _HV_CLASSES['strsub'] = type('HvStr', (str,), {})
        _HV_CLASSES['listsub'] = type('HvList', (list,), {})
        _HV_CLASSES['dictsub'] = type('HvDict', (dict,), {})
        _HV_CLASSES['done'] = True
    return _HV_CLASSES


_HV_CLASSES = {}

# [kind, argument] - JSON-able.  The reading each value has to get is computed by hv_ref_kind (written from the type table
# of the documentation, not from value.py).
HV_SPECS = [
    ['Decimal', '19.99'], ['Decimal', '0'], ['Decimal', '-1.5'], ['Decimal', 'NaN'], ['Decimal', 'sNaN'], ['Decimal', 'Infinity'], ['Decimal', '1E+400'],
    ['Fraction', [1, 3]], ['Fraction', [0, 1]], ['Fraction', [10 ** 30, 7]],
    ['complex', ['3', '4']], ['complex', ['0', '0']], ['complex', ['nan', 'inf']],
    ['tuple', []], ['tuple', [1, 2]], ['tuplenan', None], ['set', [1, 2]], ['frozenset', []], ['bytes', 'ab'], ['bytearray', 'ab'], ['range', 3], ['memoryview', 'ab'],
    ['timedelta', 5], ['time', [1, 2, 3]], ['object', None], ['Ellipsis', None], ['NotImplemented', None], ['opaque', None], ['numberlike', None],
    ['hostile', None], ['uuid', None], ['module', None], ['generator', None], ['deque', [1]], ['array', [1.5]],
    # host values that ARE BareScript values by the isinstance reading: subclasses of the builtin types, enum members
    ['intenum', 'RED'], ['intenum', 'ZERO'], ['intenum', 'BIG'], ['intflag', 3], ['floatsub', '2.5'], ['floatsub', 'nan'], ['intsub', 7], ['intsub', 10 ** 400],
    ['strsub', 'ab'], ['strsub', ''], ['listsub', [1, 2]], ['dictsub', None], ['ordered', None], ['defaultdict', None], ['counter', None],
    ['class', 'Decimal'], ['class', 'object'], ['class', 'hostile'],
]
HV_UNKNOWN = [s for s in HV_SPECS if s[0] not in ('intenum', 'intflag', 'floatsub', 'intsub', 'strsub', 'listsub', 'dictsub', 'ordered', 'defaultdict',
                                                  'counter', 'class')]


def hv_build(spec):
    """spec -> a FRESH host value"""
    import array                                # pylint: disable=import-outside-toplevel
    import collections                          # pylint: disable=import-outside-toplevel
    import decimal                              # pylint: disable=import-outside-toplevel
    import uuid                                 # pylint: disable=import-outside-toplevel
    k, a = spec
    cls = hv_classes()
    if k == 'Decimal':
        return decimal.Decimal(a)
    if k == 'Fraction':
        return Fraction(a[0], a[1])
    if k == 'complex':
        return complex(float(a[0]), float(a[1]))
    if k == 'tuple':
        return tuple(a)
    if k == 'tuplenan':
        return (float('nan'), (1, 'x'))
    if k == 'set':
        return set(a)
    if k == 'frozenset':
        return frozenset(a)
    if k == 'bytes':
        return a.encode()
    if k == 'bytearray':
        return bytearray(a.encode())
    if k == 'range':
        return range(a)
    if k == 'memoryview':
        return memoryview(a.encode())
    if k == 'timedelta':
        return datetime.timedelta(days=a)
    if k == 'time':
        return datetime.time(*a)
    if k == 'object':
        return object()
    if k == 'Ellipsis':
        return Ellipsis
    if k == 'NotImplemented':
        return NotImplemented
    if k == 'opaque':
        return HvOpaque()
    if k == 'numberlike':
        return HvNumberLike()
    if k == 'hostile':
        return HvHostile()
    if k == 'uuid':
        return uuid.UUID('12345678-1234-5678-1234-567812345678')
    if k == 'module':
        return json
    if k == 'generator':
        return (x for x in (1, 2))
    if k == 'deque':
        return collections.deque(a)
    if k == 'array':
        return array.array('d', a)
    if k == 'intenum':
        return cls['IntEnum'][a]
    if k == 'intflag':
        return cls['IntFlag'](a)
    if k in ('floatsub', 'intsub', 'strsub', 'listsub'):
        return cls[k](float(a) if k == 'floatsub' else a)
    if k == 'dictsub':
        return cls['dictsub'](a=1)
    if k == 'ordered':
        return collections.OrderedDict([('b', 1), ('a', 2)])
    if k == 'defaultdict':
        return collections.defaultdict(list, a=1)
    if k == 'counter':
        return collections.Counter('aab')
    if k == 'class':
        return {'Decimal': decimal.Decimal, 'object': object, 'hostile': HvHostile}[a]
    raise ValueError(spec)


def hv_ref_kind(v):
    """the documented type of a value (doc/library: systemType) - 'unknown' for everything a script cannot create"""
    if v is None:
        return 'null'
    for types, name in ((str, 'string'), (bool, 'boolean'), ((int, float), 'number'), (datetime.date, 'datetime'), (dict, 'object'), (list, 'array')):
        if isinstance(v, types):
            return name
    return 'function' if callable(v) else 'regex' if isinstance(v, REGEX_T) else 'unknown'


HV_ACCESS = {'global': 'hv', 'element': 'arrayGet(harr, 0)', 'member': "objectGet(hobj, 'k')", 'hostret': 'hostGet()',
             'nested': "arrayGet(objectGet(arrayGet(hdeep, 0), 'k'), 0)", 'local': 'xx'}
HV_PARTNERS = {'1': 'number', '0.5': 'number', '0': 'number', '2': 'number', "'s'": 'string', "''": 'string', 'null': 'null', 'true': 'boolean',
               'pint': 'number', 'pbig': 'number', 'pdt': 'datetime', 'parr': 'array', 'pobj': 'object', 'hw': None, '@V@': None}
HV_ARITH = ['+', '-', '*', '/', '%', '**']
HV_CMP = ['==', '!=', '<', '<=', '>', '>=']
HV_LOGIC = ['&&', '||']
HV_OTHER_FORMS = {'neg': '-@V@', 'negneg': '-(-@V@)', 'not': '!@V@', 'ifcond': 'if(@V@, 1, 2)', 'ifbranch': 'if(true, @V@ + 1, 2)', 'callit': '@V@(1)' ,
                  'chain': '1 + @V@ * 2 - @P@', 'cat': "'' + arrayNew(@V@)", 'catobj': "objectNew('k', @V@) + ''", 'cmparr': 'arrayNew(@V@) == arrayNew(@V@)',
                  'cmpobj': "objectNew('k', @V@) < objectNew('k', @P@)", 'sort': 'arraySort(arrayNew(@V@, 1, @V@, @P@))', 'group': '(@V@) + (@P@)'}
HV_SITES = {
    'assign': 'rr = @E@', 'return': 'return @E@', 'exprstmt': '(@E@)', 'if': 'if @E@:\n    rr = 1\nelse:\n    rr = 2\nendif',
    'elif': 'if false:\n    rr = 1\nelif @E@:\n    rr = 2\nendif', 'while': 'while @E@:\n    rr = 1\n    break\nendwhile',
    'jumpif': 'jumpif (@E@) labH\nrr = 1\nlabH:', 'for': 'for vv in @E@:\n    rr = vv\nendfor', 'forbody': 'for vv in arrayNew(1, 2):\n    rr = @E@\nendfor',
    'arg': 'rr = systemType(@E@)', 'infn': 'function sf(xx):\n    return @E@\nendfunction\nrr = sf(hv)', 'include': "include 'hvlib.bare'",
}
HV_GKINDS = ['dict', 'dict', 'dict', 'ordered', 'defaultdict']


def hv_expr(case):
    """the expression text of a case"""
    acc = HV_ACCESS[case['access']]
    form = case['form']
    if form in ('l', 'r'):
        tmpl = '@V@ ' + case['op'] + ' @P@' if form == 'l' else '@P@ ' + case['op'] + ' @V@'
    elif form == 'lib':
        tmpl = case['op'] + '(@V@)' if case.get('argpos', 0) == 0 else case['op'] + '(@P@, @V@)'
    elif form == 'callit':                      # a host value in CALL position (the name of a variable)
        return ('xx' if case['access'] == 'local' else 'hv') + '(1)'
    else:
        tmpl = HV_OTHER_FORMS[form]
    return tmpl.replace('@P@', case.get('partner', '1')).replace('@V@', acc)


def hv_check(case, hv, hw):
    """what the value of the expression has to be, from the documented operator table: 'null' | 'bool' | 'bare' | None"""
    form, op = case['form'], case.get('op')
    kv = hv_ref_kind(hv)
    kp = HV_PARTNERS.get(case.get('partner', '1'))
    if case.get('partner') == 'hw':
        kp = hv_ref_kind(hw)
    elif case.get('partner') == '@V@':
        kp = kv
    if form in ('l', 'r'):
        if op in HV_LOGIC:
            return None                         # the operand itself may be the value
        if op in HV_CMP:
            return 'bool'
        if 'unknown' in (kv, kp) and not (op == '+' and 'string' in (kv, kp)):
            return 'null'
        return 'bare'
    if form == 'neg':
        return 'null' if kv != 'number' else 'bare'
    if form == 'negneg':
        return 'null' if kv != 'number' else 'bare'
    if form in ('not', 'cmparr', 'cmpobj'):
        return 'bool'
    if form in ('chain', 'group', 'ifbranch'):
        return 'null' if kv == 'unknown' and not (form == 'group' and kp == 'string') else 'bare'
    if form in ('cat', 'catobj'):
        return 'bare'
    return None


def hv_globals(mods, case):
    import collections                          # pylint: disable=import-outside-toplevel
    hv, hw = hv_build(case['hv']), hv_build(case.get('hw') or ['object', None])
    g = {'hv': hv, 'hw': hw, 'harr': [hv, 1], 'hobj': {'k': hv}, 'hdeep': [{'k': [hv]}], 'hostGet': lambda args, options: hv, 'pint': 3, 'pbig': 10 ** 400,
         'pdt': datetime.datetime(2020, 1, 1), 'parr': [1], 'pobj': {'a': 1}}
    gkind = case.get('gkind', 'dict')
    if gkind == 'ordered':
        g = collections.OrderedDict(g)
    elif gkind == 'defaultdict':
        g = collections.defaultdict(lambda: None, g)
    return g, hv, hw


def hostval_failures(mods, case):
    """the oracles of one host-value case -> [(oracle, expected, actual)]"""
    expr = hv_expr(case)
    g, hv, hw = hv_globals(mods, case)
    cfg = case['config']
    log = []
    site = case.get('site', 'return')
    want = hv_check(case, hv, hw)
    if case.get('api') == 'expr':
        locals_ = None
        if case['access'] == 'local':
            locals_ = {'xx': hv}
        for name, fn in mods['library'].SCRIPT_FUNCTIONS.items():
            g.setdefault(name, fn)
        options = make_options(cfg, log, g, maxStatements=2000)
        out = run_model(mods, parsed(mods, expr, True), options, True, locals_, bool(case.get('builtins', True)))
        has_value = out[0] == 'ok'
        value = out[1] if has_value else None
    else:
        files = {'hvlib.bare': 'rr = ' + expr + '\n'}
        body = HV_SITES[site].replace('@E@', expr)
        text = body if site == 'return' else "systemLog('before')\n" + body + "\nsystemLog('END')\nreturn 'done'\n"
        options = make_options(cfg, log, g, files=files, maxStatements=2000)
        out = run_model(mods, parsed(mods, text), options)
        has_value = out[0] == 'ok' and site in ('return', 'assign', 'infn', 'include')
        value = (out[1] if site == 'return' else g.get('rr')) if has_value else None
    if out[0] == 'escape':
        return [('host-value-escape', 'a value or BareScriptRuntimeError (an operation on a host value is an invalid operation: null)', list(out))]
    bad = []
    if out[0] != 'ok':
        bad.append(('host-value-runtime-error', 'no exception: an operation on a host value is null, a failing call is contained', list(out)[:2]))
    elif case.get('api') != 'expr' and site != 'return' and (out[1] != 'done' or (cfg['logFn'] and log[-1:] != ['END'])):
        bad.append(('execution-continues', ['done', 'END'], [safe_repr(out[1]), log[-2:]]))
    # (the statement asks for "a BareScript value", not for a particular one: that `price + 1` is null rather than a float is
    #  not a matter of containment - `want` only says where the result is COMPUTED rather than handed through)
    if has_value and want is not None and not is_bare(value):
        bad.append(('host-value-result', 'a BareScript value' + (' (null: invalid operation values)' if want == 'null' else ''), safe_repr(value)))
    return bad


def hv_cases(ctx, rng, n_random, lib_names):
    cases = []
    cfgs = [REF_ON, REF_OFF] + EXTRA_CONFIGS

    def add(**kw):
        kw.setdefault('config', cfgs[len(cases) % len(cfgs)])
        cases.append(dict({'kind': 'hostval'}, **kw))
    # every host value x every operator x both sides against a number literal, at top level of a script and of an expression
    for hv in HV_SPECS:
        for op in HV_ARITH + HV_CMP + HV_LOGIC:
            for form in ('l', 'r'):
                add(hv=hv, access='global', form=form, op=op, partner='1', site='return')
                add(hv=hv, access='global', form=form, op=op, partner='2', api='expr', builtins=bool(len(cases) % 2))
        for form in HV_OTHER_FORMS:
            add(hv=hv, access='global', form=form, partner='1', site='assign')
            add(hv=hv, access='global', form=form, partner="'s'", api='expr')
        for site in HV_SITES:
            add(hv=hv, access='local' if site == 'infn' else 'global', form='l', op='+', partner='1', site=site)
            add(hv=hv, access='local' if site == 'infn' else 'global', form='not' if site in ('if', 'while') else 'neg', site=site)
        for access in HV_ACCESS:
            if access != 'local':
                add(hv=hv, access=access, form='l', op='*', partner='0.5', site='assign')
        add(hv=hv, access='local', form='r', op='-', partner='1', api='expr')
        for partner in HV_PARTNERS:             # every kind of partner: int / 400-digit int / datetime / string / container / a second host value / itself
            for op in ('+', '-', '**', '==', '<'):
                add(hv=hv, hw=HV_SPECS[(len(cases) * 7) % len(HV_SPECS)], access='global', form='l' if len(cases) % 2 else 'r', op=op, partner=partner, site='assign')
    # every library function with a host value as its first / second argument
    pool = HV_SPECS if not ctx.quick else None
    for name in lib_names:
        if name in NONDET or name in ('systemFetch',):
            continue
        if name in SIZE_ARGS:                   # a number-like host value as a size / digits argument: time and memory are outside the model
            pool = HV_UNKNOWN if not ctx.quick else None
        for hv in (pool or [rng.choice(HV_UNKNOWN if name in SIZE_ARGS else HV_SPECS), rng.choice(HV_UNKNOWN)]):
            add(hv=hv, access=rng.choice(['global', 'element', 'hostret']), form='lib', op=name, site='assign', argpos=0)
            add(hv=hv, access='global', form='lib', op=name, site='assign', argpos=1, partner=rng.choice(['parr', "'s'", '1', 'pobj', 'pdt']))
    # random combinations: value x partner (also a second host value, the same value) x operator x access path x site x configuration x kind of globals
    for _ in range(n_random):
        form = rng.choice(['l', 'l', 'r', 'r'] + list(HV_OTHER_FORMS))
        site = rng.choice(list(HV_SITES))
        api = 'expr' if rng.random() < 0.3 else 'script'
        access = rng.choice([a for a in HV_ACCESS if a != 'local'])
        if api == 'script' and site == 'infn':
            access = 'local'
        elif api == 'expr' and rng.random() < 0.3:
            access = 'local'
        kw = {'hv': rng.choice(HV_SPECS if rng.random() < 0.3 else HV_UNKNOWN), 'hw': rng.choice(HV_SPECS), 'access': access, 'form': form,
              'op': rng.choice(HV_ARITH + HV_ARITH + HV_CMP + HV_LOGIC), 'partner': rng.choice(list(HV_PARTNERS)), 'config': rng.choice(cfgs),
              'gkind': rng.choice(HV_GKINDS)}
        if api == 'expr':
            kw.update(api='expr', builtins=rng.random() < 0.5)
        else:
            kw['site'] = site
        add(**kw)
    return cases


def stream_host_values(ctx, mods, n_random, name='host-values'):
    st = ctx.stream(name, f'"with any globals": {len(HV_SPECS)} host values a script cannot create (decimal.Decimal incl. NaN / sNaN / Infinity / 1E+400, Fraction, '
                          'complex, tuple, set, bytes, bytearray, range, memoryview, timedelta, time, object(), Ellipsis, NotImplemented, a class registered with '
                          'numbers.Number, an object whose every special method raises, UUID, module, generator, deque, array.array) and host values that are BareScript '
                          'values by subclassing (IntEnum / IntFlag members, float / int / str / list / dict subclasses, OrderedDict, defaultdict, Counter, classes) - '
                          'as a global, an element of a host array, a member of a host object, nested in both, the answer of a host function, a local of a script '
                          'function / of evaluate_expression x every binary operator on both sides (partner: number / string / null / boolean literals, int, 400-digit '
                          f'int, datetime, array, object, a second host value, the same value), unary - and !, if(), calls, chains, containers x {len(HV_SITES)} '
                          'statement sites (assignment, return, expression statement, if / elif / while / jumpif conditions, for, function body, included file) x '
                          'execute_script / evaluate_expression (builtins on / off) x debug True/False/absent x logFn supplied/absent x globals dict / OrderedDict / '
                          'defaultdict; every library function with a host value as first / second argument. Host objects cannot be sent to the Lean model '
                          '(HostPy values are BareScript values): implementation-side oracle from the property statement and the documented operator table - no '
                          'host exception escapes, the statements after it run, the result of every operator (arithmetic, comparison, unary) is a BareScript value. non-trivial = the host value reached an operator or a call')
    rng = ctx.rng(name)
    for case in hv_cases(ctx, rng, n_random, sorted(mods['library'].SCRIPT_FUNCTIONS)):
        bad = hostval_failures(mods, case)
        st.case(case, nontrivial=True, tags=['hv-' + case['hv'][0], 'form-' + case['form'], 'op-' + str(case.get('op'))[:12] if case['form'] != 'lib' else 'op-lib',
                                             'access-' + case['access'], 'site-' + case.get('site', 'expr'), cfg_tag(case['config']), 'g-' + case.get('gkind', 'dict')])
        for oracle, want, got in bad:
            ctx.witness(oracle, case, want, got)


# ---------------------------------------------------------------------------------------------------------------------
# stream host-reentry: a host function that calls back into the runtime while a script is running - with the SAME options
# object it was handed (the natural way to write "run this snippet in the caller's environment"), a copy, a fresh dict
# sharing the globals, {} or None; execute_script / evaluate_expression / calling a script function of the running script;
# 1..3 levels deep.  Whatever the nested run does, the outer run has to carry on: the statements after the call run
# (1 .. 1000 of them, of every statement kind), nothing but a documented exception escapes, and the outcome is that of the
# twin whose host function answers the same value without re-entering.
# ---------------------------------------------------------------------------------------------------------------------

RE_RT = '<runtime error>'
RE_SNIPPETS = {      # id -> (text, what the run answers, options modes that can run it, None = all)
    'sum': ('return 2 + 3', 5, None),
    'empty': ('', None, None),
    'noreturn': ('n_c = 1', None, None),
    'multi': ('n_a = 1\nn_b = n_a + 2\nreturn n_b', 3, None),
    'fail': ('n_d = arrayGet(null, 1)\nn_e = 1 / 0\nreturn 7', 7, None),
    'fn': ('function n_f(aa):\n    return aa * 2\nendfunction\nreturn n_f(4)', 8, None),
    'loop': ('n_i = 0\nwhile n_i < 5:\n    n_i = n_i + 1\nendwhile\nreturn n_i', 5, None),
    'jump': ('jump n_l\nn_j = 1\nn_l:\nreturn 9', 9, None),
    'inc': ("include 'nlib.bare'\nreturn n_lib", 11, ('same', 'copy', 'carry')),
    'outer': ('return outerV + 1', 11, ('same', 'copy', 'fresh', 'carry')),
    'callouter': ('return outerFn(21)', 42, ('same', 'copy', 'fresh', 'carry')),
    'rt': ('n_g = 1\nreturn nosuchFunction(1)', RE_RT, None),
    'limit': ('while true:\nendwhile', RE_RT, ('same', 'copy', 'carry')),
    'badinc': ("include 'missing.bare'", RE_RT, None),
}
RE_SHARING = ('same', 'copy', 'carry', 'fresh')
RE_EXPRS = {'x-sum': ('2 + 3', 5, None), 'x-fail': ('arrayGet(null, 1) || 7', 7, RE_SHARING), 'x-outer': ('outerV + 1', 11, ('same', 'copy', 'fresh', 'carry')),
            'x-rt': ('nosuchFunction(1)', RE_RT, None), 'x-call': ('outerFn(21)', 42, ('same', 'copy'))}
RE_MODES = ['same', 'copy', 'carry', 'fresh', 'empty', 'none']
RE_PRE = 'function outerFn(aa):\n    return aa * 2\nendfunction\nouterV = 10\n'
RE_FILES = {'nlib.bare': 'n_lib = 11\n', 'tail.bare': 'tt = tt + 1\n'}
RE_TAIL_KINDS = ['assign', 'call', 'jump', 'if', 'fn', 'for', 'inc', 'fail', 'while']


def re_options(mode, options):
    if mode == 'same':
        return options
    if mode == 'copy':
        return dict(options)
    if mode == 'carry':                         # a new dict with the members a host knows about
        return {k: options[k] for k in ('globals', 'logFn', 'debug', 'fetchFn', 'maxStatements', 'urlFn') if k in options}
    if mode == 'fresh':
        return {'globals': options.get('globals'), 'maxStatements': 2000}
    if mode == 'empty':
        return {'maxStatements': 2000}
    return None


def re_snippet(case):
    if case['api'] == 'exec' and case['snippet'].startswith('k'):          # a snippet of k statements
        k = int(case['snippet'][1:])
        return '\n'.join(f'n_k = {i}' for i in range(k)) + ('\n' if k else '') + 'return 4', 4, None
    return (RE_EXPRS if case['api'] == 'eval' else RE_SNIPPETS)[case['snippet']] if case['api'] != 'callfn' else (None, 8, ('same', 'copy'))


def make_reentry(mods, case, variant):
    runtime = mods['runtime']
    text, answer, _ = re_snippet(case)
    mode, api = case['mode'], case['api']

    def hostRun(args, options):                 # pylint: disable=invalid-name
        level = int(args[0]) if len(args) == 1 and type(args[0]) is float and 0 < args[0] <= case.get('depth', 0) else 0
        if variant == 'twin':
            if answer == RE_RT:
                raise runtime.BareScriptRuntimeError('twin runtime error')
            return float(answer) if isinstance(answer, int) else answer
        opts = re_options(mode, options)
        if level > 0:
            return runtime.execute_script(parsed(mods, f'n_v = hostRun({level - 1})\nreturn n_v'), opts)
        if api == 'exec':
            return runtime.execute_script(parsed(mods, text), opts)
        if api == 'eval':
            return runtime.evaluate_expression(parsed(mods, text, True), opts)
        return options['globals']['outerFn']([4.0], opts)
    return hostRun


def re_tail(k, kinds):
    lines = ['tt = 0']
    for i in range(k):
        kind = kinds[i % len(kinds)]
        if kind == 'assign':
            lines.append('tt = tt + 1')
        elif kind == 'call':
            lines.append('tt = mathMax(tt + 1, 0)')
        elif kind == 'jump':
            lines += [f'jumpif (tt < 0) tl{i}', 'tt = tt + 1', f'tl{i}:']
        elif kind == 'if':
            lines += ['if tt >= 0:', '    tt = tt + 1', 'endif']
        elif kind == 'fn':
            lines += [f'function tf{i}(aa):', '    return aa + 1', 'endfunction', f'tt = tf{i}(tt)']
        elif kind == 'for':
            lines += ['for tv in arrayNew(1):', '    tt = tt + tv', 'endfor']
        elif kind == 'inc':
            lines.append("include 'tail.bare'")
        elif kind == 'while':
            lines += [f'tw{i} = 0', f'while tw{i} < 1:', f'    tw{i} = tw{i} + 1', '    tt = tt + 1', 'endwhile']
        else:
            lines += ['tu = arrayGet(null, 0)', 'tt = tt + 1']
    lines.append("systemLog('tail ' + tt)")
    return lines


def re_text(case):
    pos = HF_POS_BY_ID[case['pos']]
    call = f"hostRun({case.get('depth', 0)})"
    sub = lambda s: s.replace('@C@', call).replace('@F@', 'hostRun')      # noqa: E731
    if pos.get('expr'):
        return sub(pos['body']), dict(RE_FILES)
    files = dict(RE_FILES)
    files.update({k: sub(v) for k, v in pos.get('files', {}).items()})
    if case.get('tail') == 'last':              # the call is the last thing the script does
        return RE_PRE + 'return ' + call + '\n', files
    text = RE_PRE + "systemLog('before')\n" + sub(pos['body']) + '\n' + '\n'.join(re_tail(case.get('tail', 1), case.get('kinds', ['assign']))) + \
        "\nsystemLog('after')\nreturn 'done'\n"
    return text, files


def re_run(mods, case, variant):
    """-> [(outcome, log, user globals)] of the runs on the same options"""
    lib = mods['library'].SCRIPT_FUNCTIONS
    pos = HF_POS_BY_ID[case['pos']]
    text, files = re_text(case)
    log = []
    g = {'hostRun': make_reentry(mods, case, variant)}
    if pos.get('expr'):
        g.update(lib)
        g['outerV'] = 10
        g['outerFn'] = lambda args, options: args[0] * 2
    # 'nomax': the outer options carry no maxStatements member (fixed scripts that terminate, as in the corpus configurations)
    more = {} if case.get('nomax') else {'maxStatements': case.get('max', 60000)}
    options = make_options(case['config'], log, g, files=files, **more)
    model = parsed(mods, text, bool(pos.get('expr')))
    res = []
    for _ in range(int(case.get('runs', 1))):
        del log[:]
        out = run_model(mods, model, options, bool(pos.get('expr')), None, bool(case.get('builtins', True)))
        res.append((out, list(log), {k: v for k, v in user_globals(g, lib).items() if not k.startswith('n_')}))
    return res


def reentry_failures(mods, case):
    lib = mods['library'].SCRIPT_FUNCTIONS
    real = re_run(mods, case, 'real')
    esc = next((r[0] for r in real if r[0][0] == 'escape'), None)
    if esc is not None:
        return [('reentry-escape', 'a value or BareScriptRuntimeError/BareScriptParserError: the outer run carries on after the nested run', list(esc))]
    twin = re_run(mods, case, 'twin')
    bad = []
    for ix, ((out, log, g), (t_out, t_log, t_g)) in enumerate(zip(real, twin)):
        if t_out[0] == 'escape':
            continue
        a = [out[0]] + ([deep(out[1], lib)] if out[0] == 'ok' else [])
        b = [t_out[0]] + ([deep(t_out[1], lib)] if t_out[0] == 'ok' else [])
        if a != b:
            bad.append(('reentry-changes-outcome', b + [ix], a + ([str(out[1])[:160]] if out[0] != 'ok' else [])))
        elif g != t_g:
            keys = sorted(k for k in set(g) | set(t_g) if g.get(k) != t_g.get(k))
            bad.append(('reentry-changes-globals', {k: t_g.get(k) for k in keys[:6]}, {k: g.get(k) for k in keys[:6]}))
        elif case['config']['logFn'] and visible(log, False) != visible(t_log, False):
            bad.append(('execution-continues', visible(t_log, False)[-4:], visible(log, False)[-4:]))
        if bad:
            break
    return bad


def re_cases(ctx, rng, n_random):
    cases = []
    cfgs = [REF_ON, REF_OFF] + EXTRA_CONFIGS

    def allowed(api, snippet, mode):
        modes = (RE_EXPRS if api == 'eval' else RE_SNIPPETS).get(snippet, (None, None, None))[2] if api != 'callfn' else ('same', 'copy')
        return modes is None or mode in modes

    def add(**kw):
        kw.setdefault('config', cfgs[len(cases) % len(cfgs)])
        kw.setdefault('pos', 'assign')
        if kw.get('snippet') == 'limit':
            kw['max'] = 300
            kw['tail'] = min(kw.get('tail', 1), 16) if kw.get('tail') != 'last' else 'last'
        if allowed(kw['api'], kw.get('snippet'), kw['mode']) and (kw.get('depth', 0) == 0 or kw['mode'] in RE_SHARING):
            cases.append(dict({'kind': 'reentry'}, **kw))
    # every way of re-entering x every options mode x every snippet, one and two statements after the call, and as the last thing
    for mode in RE_MODES:
        for snippet in RE_SNIPPETS:
            for tail in (1, 2, 'last'):
                add(api='exec', mode=mode, snippet=snippet, tail=tail)
        for snippet in RE_EXPRS:
            add(api='eval', mode=mode, snippet=snippet, tail=1)
        add(api='callfn', mode=mode, snippet=None, tail=1)
        for snippet in ('sum', 'multi', 'fn', 'empty', 'fail'):         # the optional members of the OUTER options absent
            add(api='exec', mode=mode, snippet=snippet, tail=2, nomax=True, kinds=['assign', 'jump'])
        add(api='eval', mode=mode, snippet='x-sum', tail=2, nomax=True)
    # the scale axes: statements after the call (every statement kind), statements of the nested run, nesting depth, runs on the same options
    sizes = SIZES if not ctx.quick else [s for s in SIZES if s <= 129] + [rng.choice([256, 1000])]
    for k in sizes:
        for mode in ('same', 'copy'):
            add(api='exec', mode=mode, snippet='sum', tail=k, kinds=RE_TAIL_KINDS)
            add(api='exec', mode=mode, snippet=f'k{k}', tail=1)
    for kind in RE_TAIL_KINDS:
        add(api='exec', mode='same', snippet='multi', tail=3, kinds=[kind])
    for depth in (1, 2, 3, 9):
        for mode in RE_SHARING:
            add(api='exec', mode=mode, snippet='sum', tail=2, depth=depth, kinds=['assign', 'jump'])
    for runs in (2, 3):
        for mode in RE_MODES:
            add(api='exec', mode=mode, snippet='multi', tail=2, runs=runs)
    # every position of the call
    for pix, pos in enumerate(HF_POS):
        for mode in ('same', RE_MODES[1 + pix % 5]):
            add(api='exec', mode=mode, snippet='sum', pos=pos['id'], tail=2, kinds=['assign', 'fn'])
    for _ in range(n_random):
        api = rng.choice(['exec', 'exec', 'exec', 'eval', 'callfn'])
        kw = {'api': api, 'mode': rng.choice(RE_MODES[:3] if rng.random() < 0.6 else RE_MODES), 'pos': rng.choice(HF_POS)['id'], 'config': rng.choice(cfgs),
              'snippet': rng.choice(list(RE_SNIPPETS)) if api == 'exec' else rng.choice(list(RE_EXPRS)) if api == 'eval' else None,
              'tail': rng.choice([0, 1, 1, 2, 3, 9, 17, 'last']), 'kinds': [rng.choice(RE_TAIL_KINDS) for _ in range(3)]}
        if rng.random() < 0.25:
            kw['depth'] = rng.choice([1, 2, 3])
        if rng.random() < 0.25:
            kw['runs'] = rng.choice([2, 3])
        if rng.random() < 0.2 and kw['snippet'] in ('sum', 'multi', 'fn', 'empty', 'fail', 'noreturn', 'jump', 'x-sum', None):
            kw['nomax'] = True
        if HF_POS_BY_ID[kw['pos']].get('expr'):
            kw['builtins'] = rng.random() < 0.5
        add(**kw)
    return cases


def stream_host_reentry(ctx, mods, n_random, name='host-reentry'):
    st = ctx.stream(name, 'host functions that call BACK into the runtime while a script runs: execute_script / evaluate_expression / a script function of the '
                          f'running script, handed the SAME options object, a copy, a new dict carrying the known members, a fresh dict sharing the globals, {{}} or None; '
                          f'{len(RE_SNIPPETS)} nested scripts (empty, without return, several statements, contained failures, function definition and call, loops, jumps, '
                          f'an include, reading / calling the outer globals, ending in a runtime error, exceeding maxStatements, a bad include) and nested scripts of {SIZES} '
                          f'statements; 1-3-9 levels of re-entry; the call at each of the {len(HF_POS)} positions of stream host-failure; followed by {SIZES} further '
                          f'statements of the outer script built from {len(RE_TAIL_KINDS)} statement kinds (assignment, library call, jump / label, if, function definition + '
                          'call, for, include, contained failure, while) or nothing (the call is the final return); 1-3 runs on the same options x debug True/False/absent x '
                          'logFn supplied/absent x maxStatements supplied/absent. A host callback cannot be sent to the Lean model: implementation-side oracle - nothing but a documented exception escapes '
                          'the outer run, and outcome, globals and own log lines equal those of the twin run whose host function answers the same value (or raises the '
                          'same BareScriptRuntimeError) without re-entering. non-trivial = the nested run took place and the outer run carried on')
    rng = ctx.rng(name)
    for case in re_cases(ctx, rng, n_random):
        bad = reentry_failures(mods, case)
        st.case(case, nontrivial=not bad, tags=['api-' + case['api'], 'mode-' + case['mode'], 'snip-' + str(case.get('snippet'))[:8], 'pos-' + case['pos'],
                                                'tail-' + str(case.get('tail')), 'depth-' + str(case.get('depth', 0)), 'runs-' + str(case.get('runs', 1)),
                                                cfg_tag(case['config']) + ('/nomax' if case.get('nomax') else '')])
        for oracle, want, got in bad:
            ctx.witness(oracle, case, want, got)


# ---------------------------------------------------------------------------------------------------------------------
# stream script-shapes: "executing ANY parsed script".  Every optional member of the script model absent / present in every
# combination the parser produces: function statements (async?, args?, lastArgArray? - `function f(...):` has the flag and
# no args -, 0 .. 256 parameters, duplicate names, empty body) defined and never called / called with fewer, as many, more
# arguments; return / jump without an expression, labels at the end, empty blocks and loops, empty scripts and files.
# ---------------------------------------------------------------------------------------------------------------------

SHAPE_RESTS = [None, 'tight', 'spaced', 'wide']
SHAPE_BODIES = ['empty', 'const', 'noexpr', 'first', 'last', 'count', 'local', 'failing', 'nested']
SHAPE_DEFSITES = ['top', 'inc', 'twice', 'late', 'block', 'infile-called']
SHAPE_SCRIPTS = [      # (text, files, how it ends)
    ('', None, 'null'), ('# only a comment\n', None, 'null'), ('\n\n   \n', None, 'null'), ('return', None, 'null'), ('return\nrr = 1', None, 'null'),
    ('labA:', None, 'null'), ('jump labA\nlabA:', None, 'null'), ('labA:\nlabB:\njump labC\nrr = 1\nlabC:', None, 'null'),
    ('jumpif (1) labA\nrr = 1\nlabA:', None, 'null'), ('jumpif (null) labA\nrr = 1\nlabA:', None, 'null'), ('jump labA\nlabA:\nlabA:', None, 'null'),
    ('if true:\nendif', None, 'null'), ('if false:\nelif false:\nelif true:\nelse:\nendif', None, 'null'), ('if null:\nelse:\nendif', None, 'null'),
    ('while false:\nendwhile', None, 'null'), ('ii = 0\nwhile ii < 3:\n    ii = ii + 1\nendwhile', None, 'null'),
    ('while true:\n    break\nendwhile', None, 'null'), ('for vv in arrayNew():\nendfor', None, 'null'), ('for vv, ii in arrayNew(1, 2):\nendfor', None, 'null'),
    ('for vv in arrayNew(1, 2):\n    continue\nendfor', None, 'null'),
    ('for vv in arrayNew(1, 2):\n    break\nendfor', None, 'null'), ('for vv in arrayNew(1):\n    for ww in arrayNew():\n    endfor\nendfor', None, 'null'),
    ('function ff():\nendfunction', None, 'null'), ('function ff():\nendfunction\nreturn ff()', None, 'null'), ('async function ff():\n    return\nendfunction\nreturn ff(1)', None, 'null'),
    ('function ff():\n    jump done\n    done:\nendfunction\nreturn ff()', None, 'null'), ('function ff():\n    lab:\nendfunction\nff()', None, 'null'),
    ("include 'empty.bare'", {'empty.bare': ''}, 'null'), ("include 'c.bare'", {'c.bare': '# nothing\n\n'}, 'null'), ("include 'r.bare'\nreturn 5", {'r.bare': 'return\n'}, 'five'),
    ("include 'a.bare'\ninclude 'a.bare'", {'a.bare': 'aa = 1\n'}, 'null'), ("include <a.bare>", {'*a.bare': 'aa = 1\n'}, 'null'),
    ("include <a.bare>\ninclude 'a.bare'\ninclude <a.bare>", {'*a.bare': 'function af(...):\nendfunction\n'}, 'null'),
    ('rr = 1 + \\\n    2', None, 'null'), ('rr = 1\r\nreturn\r\n', None, 'null'), ('1', None, 'null'), ('null', None, 'null'), ('arrayNew()', None, 'null'),
    ('ff = 1\nfunction ff(...):\nendfunction\nff()', None, 'null'), ('function ff(...):\nendfunction\nff = 1\nreturn ff', None, 'any'),
    ('function arrayLength(...):\n    return 3\nendfunction\nreturn arrayLength()', None, 'any'),
    ('function ff( ... ):\n    return 1 / 0\nendfunction', None, 'null'), ('function ff(...):\n    function gg(...):\n', None, 'parse'),
]


def shape_fn_spec_text(spec):
    """-> (main text, files, ends_rt, number of contained failures of one run)"""
    n = spec['params']
    params = ['pa'] * n if spec.get('dup') else [f'p{i}' for i in range(n)]
    rest = spec.get('rest')
    head = ', '.join(params)
    if rest:
        head += {'tight': '...', 'spaced': ' ...', 'wide': '  ...  '}[rest]
        if not params and rest == 'spaced':
            head = ' ... '
    body = spec['body']
    lines = {'empty': [], 'const': ['return 7'], 'noexpr': ['return'], 'first': ['return ' + (params[0] if params else 'null')],
             'last': ['return ' + (params[-1] if params else 'null')], 'count': ['return arrayLength(' + (params[-1] if params and rest else 'arrayNew()') + ')'],
             'local': ['zz = 1', 'return zz + 1'], 'failing': ['zz = arrayGet(null, 0)', 'return 7'],
             'nested': ['if true:', '    for zz in arrayNew(1):', '        return 7', '    endfor', 'endif']}[body]
    defn = [('async ' if spec.get('async') else '') + f'function sfn({head}):'] + ['    ' + ln for ln in lines] + ['endfunction']
    call = spec.get('call')
    calls = [] if call is None else ['rr = sfn(' + ', '.join(str(i + 1) for i in range(call)) + ')', 'r2 = sfn(' + ', '.join(str(i + 1) for i in range(call)) + ')']
    site = spec.get('site', 'top')
    files = None
    fails = (2 if call is not None else 0) if body == 'failing' else 0
    ends_rt = False
    if site == 'inc':
        files = {'fn.bare': '\n'.join(defn) + '\n'}
        main = ["include 'fn.bare'"] + calls
    elif site == 'infile-called':                   # defined AND called while the include is running
        files = {'fn.bare': '\n'.join(defn + calls) + '\n'}
        main = ["include 'fn.bare'"]
    elif site == 'twice':
        main = defn + calls + defn + calls
        fails *= 2
    elif site == 'late':
        main = calls + defn
        ends_rt = call is not None
    elif site == 'block':
        main = ['if true:'] + ['    ' + ln for ln in defn] + ['endif'] + calls
    else:
        main = defn + calls
    text = "systemLog('before')\n" + '\n'.join(main) + "\nsystemLog('END')\nreturn 'done'\n"
    return text, files, ends_rt, fails


def shape_failures(mods, case):
    """-> [(oracle, expected, actual)]"""
    cfg = case['config']
    if 'fn' in case:
        text, files, ends_rt, fails = shape_fn_spec_text(case['fn'])
        ends = 'rt' if ends_rt else 'done'
    else:
        text, files, ends = case['text'], case.get('files'), case['ends']
        fails = 0
    log = []
    options = make_options(cfg, log, {}, files=files or {}, maxStatements=5000, systemPrefix='sys/')
    try:
        model = mods['parser'].parse_script(text)
    except mods['parser'].BareScriptParserError:
        return [] if ends == 'parse' else [('shape-does-not-parse', 'a legal script', text[:200])]
    if ends == 'parse':
        return []
    out = run_model(mods, model, options)
    if out[0] == 'escape':
        return [('script-escape', 'result or BareScriptRuntimeError/BareScriptParserError', list(out))]
    bad = []
    if ends == 'rt':
        if out[0] != 'rt':
            bad.append(('documented-exception-expected', 'rt', list(out[:1]) + [str(out[1])[:160]]))
        return bad
    want = {'done': 'done', 'null': None, 'five': 5}.get(ends, '<any>')
    if out[0] != 'ok' or (want != '<any>' and out[1] != want):
        bad.append(('execution-continues', ['ok', want], [out[0], safe_repr(out[1])]))
    elif ends == 'done' and cfg['logFn'] and log[-1:] != ['END']:
        bad.append(('execution-continues', 'END', log[-3:]))
    nfl = len(fail_lines(log))
    if nfl != (fails if cfg_logs(cfg) else 0):
        bad.append(('spurious-failure-log' if nfl > fails else 'failure-log-once', fails if cfg_logs(cfg) else 0, fail_lines(log)[:4]))
    return bad


def shape_cases(ctx, rng, n_random):
    cases = []
    cfgs = [REF_ON, REF_OFF] + EXTRA_CONFIGS
    for text, files, ends in SHAPE_SCRIPTS:
        for cfg in (cfgs if not ctx.quick else [REF_ON, cfgs[len(cases) % len(cfgs)]]):
            cases.append({'kind': 'shape', 'text': text, 'files': files, 'ends': ends, 'config': cfg})

    def add(cfg=None, **fn):
        cases.append({'kind': 'shape', 'fn': fn, 'config': cfg or cfgs[len(cases) % len(cfgs)]})
    # every combination of the optional members of a function statement x body x defined where x called or not
    for is_async in (False, True):
        for params in (0, 1, 2):
            for rest in SHAPE_RESTS:
                for body in SHAPE_BODIES:
                    for call in (None, 0, 1, 3):
                        add(params=params, rest=rest, body=body, call=call, **({'async': True} if is_async else {}))
                for site in SHAPE_DEFSITES:
                    for call in (None, 2):
                        add(params=params, rest=rest, body='first', call=call, site=site, **({'async': True} if is_async else {}))
    # the scale axes: number of parameters x number of call arguments
    sizes = [s for s in SIZES if s <= 256]
    for n in sizes:
        for rest in (None, 'tight'):
            add(params=n, rest=rest, body='last', call=rng.choice(sizes))
            add(params=rng.choice([0, 1, 2]), rest=rest, body='count', call=n)
    add(params=2, dup=True, body='first', call=2)
    add(params=3, dup=True, rest='tight', body='last', call=5)
    for _ in range(n_random):
        fn = {'params': rng.choice([0, 0, 1, 2, 3, 9, 17]), 'rest': rng.choice(SHAPE_RESTS), 'body': rng.choice(SHAPE_BODIES),
              'call': rng.choice([None, 0, 1, 2, 3, 10, 65]), 'site': rng.choice(SHAPE_DEFSITES)}
        if rng.random() < 0.3:
            fn['async'] = True
        if rng.random() < 0.1 and fn['params'] > 1:
            fn['dup'] = True
        add(cfg=rng.choice(cfgs), **fn)
    return cases


def model_shapes(node, acc):
    """the member-name combinations of every node of a script / expression model"""
    if isinstance(node, dict):
        for key, val in node.items():
            if isinstance(val, dict) and key in ('function', 'jump', 'return', 'expr', 'include'):
                acc.add(key + ':' + '+'.join(sorted(val)))
            model_shapes(val, acc)
    elif isinstance(node, list):
        for item in node:
            model_shapes(item, acc)


def stream_script_shapes(ctx, mods, n_random, name='script-shapes'):
    st = ctx.stream(name, '"any parsed script": every combination of the OPTIONAL members of the script model that the parser produces - function statements with / '
                          'without async, args, lastArgArray (`function f(...):` and `function f( ... ):` carry the flag and no args), 0 / 1 / 2 and '
                          f'{[s for s in SIZES if s <= 256]} parameters, duplicate parameter names, {len(SHAPE_BODIES)} bodies (empty, bare return, a parameter, the rest array, '
                          'a local, a contained failure, return from nested blocks), defined at top level / in an included file / twice / after the call / inside a block / '
                          'defined and called while the include runs, never called or called with 0 .. 256 arguments (fewer, as many, more than parameters); '
                          f'{len(SHAPE_SCRIPTS)} degenerate scripts (empty, comments only, return / jump without expression, labels at the end and doubled, empty if / elif / '
                          'else / while / for bodies, break / continue, empty and comment-only included files, system includes, return inside an include, line '
                          'continuation, CRLF, expression statements without a name, a function shadowing a variable / a library function) x debug True/False/absent x '
                          'logFn supplied/absent. Implementation-side oracle: no host exception escapes (also from a function statement that is only EXECUTED, never '
                          'called), the run reaches its end, exactly the constructed failures are reported. The member combinations met are tagged. non-trivial = all')
    rng = ctx.rng(name)
    seen = set()
    for case in shape_cases(ctx, rng, n_random):
        bad = shape_failures(mods, case)
        if 'fn' in case:
            fn = case['fn']
            text = shape_fn_spec_text(fn)[0]
            tags = ['fn', 'params-' + str(fn['params']), 'rest-' + str(fn.get('rest')), 'body-' + fn['body'], 'call-' + str(fn.get('call')), 'site-' + fn.get('site', 'top')]
        else:
            text = case['text']
            tags = ['script', 'ends-' + case['ends']]
        try:
            model_shapes(parsed(mods, text), seen)
        except mods['parser'].BareScriptParserError:
            pass
        st.case(case, nontrivial=True, tags=tags + [cfg_tag(case['config'])])
        for oracle, want, got in bad:
            ctx.witness(oracle, case, want, got)
    for shape in sorted(seen):
        st.hist['model-' + shape] = st.hist.get('model-' + shape, 0) + 1


# ---------------------------------------------------------------------------------------------------------------------
# stream layered-errors: the same failing statement under every STACK of run-time layers - included files (0 .. 64 deep),
# script functions, functions of an included file called after the include, sort / data-expression callbacks, partials,
# blocks and loops, a host function that re-enters the runtime.  A documented exception raised at the bottom has to arrive
# at the top as a documented exception whatever it passes through (every layer that catches and re-raises is a place
# where a host exception can be born); a contained failure has to stay contained.
# ---------------------------------------------------------------------------------------------------------------------

LAY_ROWS = "arrayNew(objectNew('a', 1), objectNew('a', 2))"
LAY_CORES = {      # id -> (statement lines, 'parser' | 'rt' | 'ok', contained failures)
    'filter-syntax': ([f"rr = dataFilter({LAY_ROWS}, 'a >')"], 'parser', 0),
    'calc-syntax': ([f"rr = dataCalculatedField({LAY_ROWS}, 'b', 'a *')"], 'parser', 0),
    'join-syntax': ([f"rr = dataJoin({LAY_ROWS}, {LAY_ROWS}, 'a +')"], 'parser', 0),
    'join-right-syntax': ([f"rr = dataJoin({LAY_ROWS}, {LAY_ROWS}, 'a', '(a')"], 'parser', 0),
    'filter-empty': ([f"rr = dataFilter({LAY_ROWS}, '')"], 'parser', 0),
    'bad-include': (["include 'broken.bare'"], 'parser', 0),
    'bad-include-2': (["include 'outer2.bare'"], 'parser', 0),
    'host-parser': (['rr = hostParserError()'], 'parser', 0),
    'host-parser-prefix': (["rr = hostParserError('with prefix')"], 'parser', 0),
    'undefined': (['rr = nosuchFunction(1)'], 'rt', 0),
    'filter-undefined': ([f"rr = dataFilter({LAY_ROWS}, 'nosuch(a)')"], 'rt', 0),
    'jump': (['jump nowhere'], 'rt', 0),
    'missing-include': (["include 'missing.bare'"], 'rt', 0),
    'limit': (['while true:', 'endwhile'], 'rt', 0),
    'host-rt': (['rr = hostRuntimeError()'], 'rt', 0),
    'div0': (['rr = 1 / 0', 'rs = 10 ** 1000'], 'ok', 0),
    'args': (['rr = arrayGet(null, 1)'], 'ok', 1),
    'host-boom': (['rr = hostBoom()'], 'ok', 1),
    'filter-args': (["rr = dataFilter(null, 'a >')"], 'ok', 1),
    'filter-div0': ([f"rr = dataFilter({LAY_ROWS}, 'a / 0 == null')"], 'ok', 0),
}
LAY_LAYERS = ['inc', 'incdir', 'fn', 'incfn', 'sortcb', 'datacb', 'partial', 'if', 'while', 'for', 'hostre', 'hostcopy']
LAY_FILES = {'*broken.bare': 'aa = (1 +\n', '*outer2.bare': "include 'broken.bare'\n"}


def lay_build(core, layers):
    """-> (main text, files, snippets of the re-entering host function)"""
    body = list(LAY_CORES[core][0])
    defs = []
    files = dict(LAY_FILES)
    snippets = {}
    ind = lambda lines: ['    ' + ln for ln in lines]                    # noqa: E731
    for n, layer in enumerate(layers):
        if layer in ('inc', 'incdir'):
            url = f'l{n}.bare' if layer == 'inc' else f'd{n}/l{n}.bare'
            files['*' + url] = '\n'.join(defs + body) + '\n'
            defs, body = [], [f"include '{url}'"]
        elif layer == 'incfn':
            files[f'*f{n}.bare'] = '\n'.join(defs + [f'function w{n}():'] + ind(body) + ['endfunction']) + '\n'
            defs, body = [], [f"include 'f{n}.bare'", f'w{n}()']
        elif layer == 'fn':
            defs += [f'function w{n}():'] + ind(body) + ['endfunction']
            body = [f'w{n}()']
        elif layer == 'sortcb':
            defs += [f'function w{n}(aa, bb):'] + ind(body) + ['    return 0', 'endfunction']
            body = [f'arraySort(arrayNew(2, 1), w{n})']
        elif layer == 'datacb':
            defs += [f'function w{n}():'] + ind(body) + ['endfunction']
            body = [f"dataCalculatedField(arrayNew(objectNew('a', 1)), 'b', 'w{n}()')"]
        elif layer == 'partial':
            defs += [f'function w{n}(xx):'] + ind(body) + ['endfunction']
            body = [f'q{n} = systemPartial(w{n}, 1)', f'q{n}()']
        elif layer == 'if':
            body = ['if true:'] + ind(body) + ['endif']
        elif layer == 'while':
            body = [f'c{n} = 0', f'while c{n} < 1:', f'    c{n} = c{n} + 1'] + ind(body) + ['endwhile']
        elif layer == 'for':
            body = [f'for v{n} in arrayNew(1):'] + ind(body) + ['endfor']
        elif layer in ('hostre', 'hostcopy'):
            snippets[f's{n}'] = '\n'.join(defs + body) + '\n'
            defs, body = [], [f"hostExec('s{n}', {'true' if layer == 'hostcopy' else 'false'})"]
        else:
            raise ValueError(layer)
    text = "systemLog('before')\n" + '\n'.join(defs + body) + "\nsystemLog('END')\nreturn 'done'\n"
    return text, files, snippets


def lay_run(mods, case):
    runtime, parser = mods['runtime'], mods['parser']
    text, files, snippets = lay_build(case['core'], case['layers'])
    log = []

    def host_exec(args, options):
        return runtime.execute_script(parsed(mods, snippets[args[0]]), dict(options) if args[1] else options)

    def host_parser_error(args, options):
        raise parser.BareScriptParserError('host syntax error', 'some line', 3, 1, *args[:1])

    def host_runtime_error(args, options):
        raise runtime.BareScriptRuntimeError('host said stop')

    def host_boom(args, options):
        raise KeyError('boom')
    g = {'hostExec': host_exec, 'hostParserError': host_parser_error, 'hostRuntimeError': host_runtime_error, 'hostBoom': host_boom}
    options = make_options(case['config'], log, g, files=files, maxStatements=case.get('max', 3000))
    out = run_model(mods, parsed(mods, text), options)
    return out, log


def layered_failures(mods, case):
    _, kind, fails = LAY_CORES[case['core']]
    cfg = case['config']
    out, log = lay_run(mods, case)
    if out[0] == 'escape':
        return [('layered-escape', f'{kind}: a documented exception raised below arrives as a documented exception' if kind != 'ok' else 'done', list(out))]
    bad = []
    if kind == 'ok':
        if out != ('ok', 'done') or (cfg['logFn'] and log[-1:] != ['END']):
            bad.append(('execution-continues', ['ok', 'done', 'END'], [out[0], str(out[1])[:160], log[-2:]]))
        nfl = len(fail_lines(log))
        if nfl != (fails if cfg_logs(cfg) else 0):
            bad.append(('failure-log-once', fails if cfg_logs(cfg) else 0, fail_lines(log)[:4]))
    elif out[0] not in ('rt', 'parser'):
        bad.append(('documented-exception-expected', kind, [out[0], str(out[1])[:160]]))
    return bad


def lay_cases(ctx, rng, n_random):
    cases = []
    cfgs = [REF_ON, REF_OFF] + EXTRA_CONFIGS

    def add(core, layers, cfg=None):
        case = {'kind': 'layered', 'core': core, 'layers': list(layers), 'config': cfg or cfgs[len(cases) % len(cfgs)]}
        if core == 'limit':
            case['max'] = 400
        cases.append(case)
    for core in LAY_CORES:
        add(core, [])
        for la in LAY_LAYERS:
            add(core, [la], REF_ON)
            add(core, [la])
        for la in LAY_LAYERS:                   # every ordered pair of layers
            for lb in (LAY_LAYERS if not ctx.quick else [rng.choice(LAY_LAYERS) for _ in range(3)]):
                add(core, [la, lb])
        # the scale axis: include depth
        for depth in ([s for s in SIZES if 2 <= s <= 65] if not ctx.quick else [2, 3, 9, rng.choice([16, 17, 64, 65])]):
            add(core, ['inc' if i % 3 else 'incdir' for i in range(depth)])
    for _ in range(n_random):
        add(rng.choice(list(LAY_CORES)), [rng.choice(LAY_LAYERS) for _ in range(rng.choice([2, 3, 3, 4, 4, 5, 6]))], rng.choice(cfgs))
    return cases


def stream_layered(ctx, mods, n_random, name='layered-errors'):
    st = ctx.stream(name, f'{len(LAY_CORES)} failing statements (BareScriptParserError: an expression STRING of dataFilter / dataCalculatedField / dataJoin that does '
                          'not parse, a broken include one and two files down, a host function raising it with / without prefix; BareScriptRuntimeError: undefined '
                          'function, also inside a data expression, unknown label, missing include, maxStatements, raised by a host function; contained: arithmetic, '
                          f'wrong-typed arguments, a failing host function) under every stack of 0-6 run-time layers out of {len(LAY_LAYERS)} (included file, also in a '
                          'sub-directory; script function; function of an included file called after the include; arraySort comparator; function called from a data '
                          'expression; partial; if / while / for block; a host function re-entering execute_script with the same options / a copy): every single layer, '
                          f'every ordered pair, include chains {[s for s in SIZES if 2 <= s <= 65]} deep, random stacks x debug True/False/absent x logFn supplied/absent. '
                          'Implementation-side oracle (file tables and host functions cannot be sent to the Lean model): a documented exception raised at the bottom '
                          'comes out as BareScriptRuntimeError / BareScriptParserError - never as a host exception, never swallowed; a contained failure stays '
                          'contained (END reached, one line per failure iff debug and logFn). non-trivial = all')
    rng = ctx.rng(name)
    for case in lay_cases(ctx, rng, n_random):
        bad = layered_failures(mods, case)
        st.case(case, nontrivial=True, tags=['core-' + case['core'], 'depth-' + str(len(case['layers']))] + sorted({'layer-' + la for la in case['layers']}) +
                [cfg_tag(case['config'])])
        for oracle, want, got in bad:
            ctx.witness(oracle, case, want, got)


# ---------------------------------------------------------------------------------------------------------------------
# stream arity: the NUMBER of arguments as an axis of its own.  Wrong argument counts of a library function are a matter
# of value_args_validate INSIDE the call wrapper; but the evaluator binds and special-cases things itself, OUTSIDE the
# wrapper: the lazily evaluated built-in `if` (its condition / true / false expressions are picked from the argument list
# before anything is called), the argument list of every call (evaluated before the try block), the parameters of a script
# function (_script_function: missing -> null, surplus ignored, `...` collects the rest), and the statements around them
# (assignment, expression statement, return, jumpif and the blocks lowered to it).  The parser accepts ANY number of
# arguments everywhere, so every count 0 .. 8 (`if`), 0 .. declared + 3 (library functions / expression built-ins), 0 .. 10
# arguments against 0 .. 8 parameters (script functions) is a parsed script / expression.
# ---------------------------------------------------------------------------------------------------------------------

ARITY_ARGS = ['1', "'s'", 'null', 'true', '2', 'arrayNew(3, 1, 2)', "objectNew('a', 1)", '0', '1 / 0', 'arrayGet(null, 0)', 'gnum', 'sfn0', 'arrayLength',
              "'a'", 'false', '10 ** 1000', "if(true, 'in')", 'sfn0(1, 2, 3)']
ARITY_IF_CONDS = ['true', 'false', 'null', '1 / 0', 'arrayGet(null, 0)', 'gnum > 0', 'if(false, 1)', 'sfn0()']
ARITY_SITES = {       # statements around the call @C@ (the parser lowers if / while / for blocks to jumpif statements)
    'assign': ['rr = @C@'],
    'expr': ['@C@'],
    'return': ['return @C@'],
    'jumpif': ['jumpif (@C@) askip', 'rr = 1', 'askip:', 'jumpif (!@C@) askip2', 'rr = 2', 'askip2:'],
    'arg': ['rr = arrayNew(0, @C@, 2)'],
    'operand': ['rr = 1 + @C@', "rs = @C@ + ''", 'rt = @C@ && @C@', 'ru = @C@ || -@C@'],
    'ifblock': ['if @C@:', '    rr = 1', 'elif @C@:', '    rr = 2', 'else:', '    rr = 3', 'endif'],
    'while': ['wi = 0', 'while wi < 2 && !(@C@ == wi):', '    wi = wi + 1', 'endwhile'],
    'for': ['for fv in arrayNew(@C@, @C@):', '    rr = fv', 'endfor', 'for fw, fi in @C@:', '    rr = fw', 'endfor'],
    'nested': ['rr = if(true, @C@, 0)', 'rs = if(false, 0, @C@)', 'rt = if(@C@, 1, 2)'],
    'sfnarg': ['rr = sfn0(@C@)', 'rs = sfn0(1, @C@, @C@)'],
}
ARITY_XSITES = {      # stand-alone expressions around the call (evaluate_expression)
    'bare': '@C@', 'operand': '1 + @C@', 'right': "@C@ + ''", 'and': 'true && @C@', 'or': 'null || @C@', 'unary': '!@C@', 'neg': '-@C@', 'group': '(@C@)',
    'arg': 'arrayNew(0, @C@)', 'ifbranch': 'if(true, @C@, 0)', 'ifelse': 'if(false, 0, @C@)', 'ifcond': 'if(@C@, 1, 2)', 'sfnarg': 'sfn0(@C@)',
    'aliasarg': 'max(0, len(text(@C@)))',
}
ARITY_LEVELS = ['top', 'fn', 'inc', 'incfn', 'expr']
ARITY_BOUND = ('if', 'sfn', 'sfn0', 'wfn')            # what the evaluator binds itself: a call of these never "fails"
ARITY_DEFAULT_DECLARED = 2                             # functions that take their arguments as they come (arrayNew, mathMax, ...)
ARITY_MAY_RAISE = ()                                   # library functions that answer the pool with a DOCUMENTED exception (none on the unchanged tree)


def arity_declared(fn):
    """number of declared arguments of a library function: the argument model its code validates against (semantic: the
    function's own globals), None if it takes the arguments as they come"""
    while hasattr(fn, 'func') and hasattr(fn, 'args'):          # functools.partial
        fn = fn.func
    code = getattr(fn, '__code__', None)
    if code is None:
        return None
    for nm in code.co_names:
        if nm.endswith('_ARGS') and isinstance(fn.__globals__.get(nm), (list, tuple)):
            return len(fn.__globals__[nm])
    return None


def arity_defs(callee):
    defs = ['function sfn0():', '    return 0', 'endfunction']
    if callee['t'] == 'sfn':
        params = [f'p{i}' for i in range(callee['params'])]
        defs += ['function sfn(' + ', '.join(params) + ('...' if callee.get('rest') else '') + '):',
                 "    return arrayNew('sfn-ran'" + ''.join(', ' + p for p in params) + ')', 'endfunction']
    return defs


def arity_call(case):
    return case['callee']['name'] + '(' + ', '.join(case['args']) + ')'


def arity_text(case):
    """-> (main text, files) of a script-level case"""
    call = arity_call(case)
    stmts = [ln.replace('@C@', call) for ln in ARITY_SITES[case['site']]]
    defs = arity_defs(case['callee'])
    level = case['level']
    ind = lambda lines: ['    ' + ln for ln in lines]                    # noqa: E731
    files = {}
    if level == 'top':
        main = defs + stmts
    elif level == 'fn':
        main = defs + ['function wfn(wa, wb):', "    systemLog('in-before')"] + ind(stmts) + ["    systemLog('in-after')", "    return 'fdone'", 'endfunction',
                       'rv = wfn(1, 2)']
    elif level == 'inc':
        files['a.bare'] = '\n'.join(defs + stmts) + '\n'
        main = ["include 'a.bare'"]
    elif level == 'incfn':              # a function of an included file, called after the include
        files['a.bare'] = '\n'.join(defs + ['function wfn(wa, wb):'] + ind(stmts) + ["    systemLog('in-after')", "    return 'fdone'", 'endfunction']) + '\n'
        main = ["include 'a.bare'", 'rv = wfn()']
    else:
        raise ValueError(level)
    tail = "return arrayNew('done', rv)" if level in ('fn', 'incfn') else "return 'done'"
    return "systemLog('before')\ngnum = 5\n" + '\n'.join(main) + "\nsystemLog('END')\n" + tail + '\n', files


def arity_failures(mods, case):
    """-> [(oracle, expected, actual)]"""
    cfg = case['config']
    callee = case['callee']
    log = []
    lib_callee = callee['t'] in ('lib', 'alias')
    if case['level'] == 'expr':
        g = dict(mods['library'].SCRIPT_FUNCTIONS)
        g['gnum'] = 5
        # the host runs the script that defines the functions and then evaluates expressions with the SAME options (a script function
        # called through evaluate_expression counts statements: it needs the 'statementCount' member execute_script left there)
        options = make_options(cfg, log, g, files={}, maxStatements=3000)
        pre = run_model(mods, parsed(mods, '\n'.join(arity_defs(callee)) + '\n'), options)
        if pre != ('ok', None):
            return [('script-escape' if pre[0] == 'escape' else 'execution-continues', 'function statements execute', list(pre))]
        del log[:]
        text = ARITY_XSITES[case['site']].replace('@C@', arity_call(case))
        locals_ = {'lv': 1, 'gnum': 5} if case.get('locals') else None
        out = run_model(mods, parsed(mods, text, expr=True), options, expr=True, locals_=locals_, builtins=case.get('builtins', True))
    else:
        text, files = arity_text(case)
        options = make_options(cfg, log, {}, files=files, maxStatements=3000)
        out = run_model(mods, parsed(mods, text), options)
    if out[0] == 'escape':
        return [('arity-escape', 'a BareScript value or BareScriptRuntimeError/BareScriptParserError', list(out))]
    bad = []
    names = [m.group(1) for ln in log if isinstance(ln, str) and (m := FAIL_RE.match(ln))]
    spurious = [nm for nm in names if nm in ARITY_BOUND]
    if spurious or (names and not cfg_logs(cfg)):
        bad.append(('spurious-failure-log', 'no failure line for if / a script function', fail_lines(log)[:4]))
    if out[0] != 'ok':
        if not (lib_callee and callee['name'] in ARITY_MAY_RAISE):
            bad.append(('execution-continues', 'ok', [out[0], str(out[1])[:160]]))
        return bad
    val = out[1]
    if case['level'] == 'expr':
        if not is_bare(val):
            bad.append(('not-a-barescript-value', 'a BareScript value', safe_repr(val)))
        if case['site'] == 'bare' and callee['t'] == 'sfn' and not (isinstance(val, list) and len(val) == callee['params'] + 1 and val[0] == 'sfn-ran'):
            bad.append(('execution-continues', 'the script function ran to its return statement', safe_repr(val)))
        return bad
    ret_site = case['site'] == 'return'
    level = case['level']
    if level in ('fn', 'incfn'):
        ok = isinstance(val, list) and len(val) == 2 and val[0] == 'done' and (is_bare(val[1]) if ret_site else val[1] == 'fdone')
        want = ['done', '<value>' if ret_site else 'fdone']
    elif level == 'top' and ret_site:
        ok, want = is_bare(val), '<value>'
    else:
        ok, want = val == 'done', 'done'
    if not ok:
        bad.append(('execution-continues', want, safe_repr(val)))
    if cfg['logFn'] and not (level == 'top' and ret_site):
        if log[-1:] != ['END']:
            bad.append(('execution-continues', 'END', log[-3:]))
        elif level in ('fn', 'incfn') and not ret_site and 'in-after' not in log:
            bad.append(('execution-continues', 'the statement after the call inside the function runs', log[-4:]))
    return bad


def arity_cases(ctx, mods, rng, n_random):
    lib = mods['library']
    cfgs = [REF_ON, REF_OFF] + EXTRA_CONFIGS
    cases = []
    script_sites = list(ARITY_SITES)
    xsites = list(ARITY_XSITES)

    def args_for(n, shift):
        return [ARITY_ARGS[(shift + 5 * i) % len(ARITY_ARGS)] for i in range(n)]

    def add(callee, args, site, level, cfg=None, **more):
        if level == 'expr' and site not in ARITY_XSITES:
            site = xsites[len(cases) % len(xsites)]
        if level != 'expr' and site not in ARITY_SITES:
            site = script_sites[len(cases) % len(script_sites)]
        case = {'kind': 'arity', 'callee': callee, 'args': list(args), 'site': site, 'level': level, 'config': cfg or cfgs[len(cases) % len(cfgs)]}
        if level == 'expr':
            case['builtins'] = more.get('builtins', len(cases) % 3 != 0) or site == 'aliasarg' or callee['t'] == 'alias'
            if len(cases) % 2:
                case['locals'] = True
        cases.append(case)

    def spread(callee, args, full):
        """the call at every level x site (full) or at one site per level in rotation"""
        for level in ARITY_LEVELS:
            if callee['t'] == 'alias' and level != 'expr':
                continue
            sites = xsites if level == 'expr' else script_sites
            for site in (sites if full else [sites[(len(cases) + 3) % len(sites)]]):
                add(callee, args, site, level, REF_ON if full and len(cases) % 2 else None)

    # the built-in `if`: 0 .. 8 arguments x every kind of condition, every level x site
    iff = {'t': 'if', 'name': 'if'}
    for n in range(9):
        for cix, cond in enumerate(ARITY_IF_CONDS):
            if n == 0 and cix:
                continue
            spread(iff, ([cond] + args_for(n - 1, cix + n))[:n], full=not ctx.quick or cix < 3)
    for n in [s for s in SIZES if 9 <= s <= 256]:          # the scale axis
        spread(iff, ['gnum > 0'] + args_for(n - 1, n), full=False)
    # script functions: 0 .. 8 parameters (with / without a rest parameter) x 0 .. 10 arguments
    for params in range(9):
        for rest in (False, True):
            if rest and not params:
                continue
            for n in range(11):
                spread({'t': 'sfn', 'name': 'sfn', 'params': params, 'rest': rest}, args_for(n, params + n), full=not ctx.quick and params in (0, 1, 3) and n < 6)
    # every library function and expression built-in: 0 .. declared + 3 arguments
    for table, kind in ((lib.SCRIPT_FUNCTIONS, 'lib'), (lib.EXPRESSION_FUNCTIONS, 'alias')):
        for name in sorted(table):
            declared = arity_declared(table[name])
            for n in range((ARITY_DEFAULT_DECLARED if declared is None else declared) + 4):
                callee = {'t': kind, 'name': name, 'declared': declared}
                for shift in ((0, 1, 4) if not ctx.quick else (rng.randrange(len(ARITY_ARGS)),)):
                    spread(callee, args_for(n, shift + n), full=False)
    for _ in range(n_random):
        pick = rng.random()
        if pick < 0.4:
            n = rng.choice([0, 1, 2, 3, 3, 4, 4, 5, 6, 7, 8, 12])
            callee, args = iff, [rng.choice(ARITY_IF_CONDS + ARITY_ARGS) for _ in range(n)]
        elif pick < 0.7:
            callee = {'t': 'sfn', 'name': 'sfn', 'params': rng.randrange(9), 'rest': rng.random() < 0.4}
            callee['rest'] = callee['rest'] and callee['params'] > 0
            args = [rng.choice(ARITY_ARGS) for _ in range(rng.randrange(11))]
        else:
            kind = rng.choice(['lib', 'lib', 'alias'])
            table = lib.SCRIPT_FUNCTIONS if kind == 'lib' else lib.EXPRESSION_FUNCTIONS
            name = rng.choice(sorted(table))
            declared = arity_declared(table[name])
            callee = {'t': kind, 'name': name, 'declared': declared}
            args = [rng.choice(ARITY_ARGS) for _ in range(rng.randrange((ARITY_DEFAULT_DECLARED if declared is None else declared) + 4))]
        level = 'expr' if callee['t'] == 'alias' else rng.choice(ARITY_LEVELS)
        add(callee, args, rng.choice(xsites if level == 'expr' else script_sites), level, rng.choice(cfgs))
    return cases


def stream_arity(ctx, mods, n_random, name='arity'):
    st = ctx.stream(name, 'the NUMBER of arguments of everything the evaluator binds or special-cases itself, outside the call wrapper: the lazily evaluated built-in '
                          f'`if` with 0 .. 8 and {[s for s in SIZES if 9 <= s <= 256]} arguments x {len(ARITY_IF_CONDS)} kinds of condition (true, false, null, a contained '
                          'arithmetic / library failure, a nested if, a script function); script functions with 0 .. 8 parameters (with / without a rest parameter) '
                          'called with 0 .. 10 arguments; every name of library.SCRIPT_FUNCTIONS and library.EXPRESSION_FUNCTIONS with 0 .. declared + 3 arguments '
                          '(declared: the length of the argument model the function validates against, read from the function object) - the arguments drawn from '
                          f'{len(ARITY_ARGS)} texts (constants, arrays, objects, contained failures, functions as values, nested calls); around the call {len(ARITY_SITES)} '
                          'statement sites (assignment, expression statement, return, jumpif, call argument, operator operand, if / elif, while, for, if() branch, '
                          f'script-function argument) at top level, inside a script function, in an included file, in a function of an included file, and {len(ARITY_XSITES)} '
                          'stand-alone expression sites through evaluate_expression (builtins on / off, with / without locals) x debug True/False/absent x logFn '
                          'supplied/absent. Implementation-side oracle (no Lean counterpart: the model has no argument-count axis for `if`): no host exception '
                          'escapes, the result is a BareScript value, the statement after the call runs (also INSIDE the function: a host exception swallowed by the '
                          "enclosing call's wrapper would end the function early), no failure line names if / a script function. non-trivial = the argument count "
                          'differs from the declared / documented one')
    rng = ctx.rng(name)
    for case in arity_cases(ctx, mods, rng, n_random):
        bad = arity_failures(mods, case)
        callee = case['callee']
        n = len(case['args'])
        if callee['t'] == 'if':
            odd = n not in (2, 3)
        elif callee['t'] == 'sfn':
            odd = n != callee['params']
        else:
            odd = callee.get('declared') is None or n != callee['declared']
        st.case(case, nontrivial=odd, tags=['callee-' + callee['t'], 'nargs-' + str(min(n, 11)), 'site-' + case['site'], 'level-' + case['level'], cfg_tag(case['config'])])
        for oracle, want, got in bad:
            ctx.witness(oracle, case, want, got)


# ---------------------------------------------------------------------------------------------------------------------
# corpus, entry points
# ---------------------------------------------------------------------------------------------------------------------

def run_corpus(ctx, mods):
    st = ctx.stream('corpus', 'harness/corpus/C05.jsonl: the witnesses of F4, F17, F18, F21, F25 (N1-N4) and hand-picked cases, debug '
                              'on and off with a logFn (every line states the expected outcome) and under the other four host '
                              'configurations (debug True/False/absent x logFn supplied/absent: same outcome, globals and log as '
                              'the reference configuration); non-trivial = all')
    if not os.path.exists(CORPUS):
        ctx.broken.append('corpus file missing')
        return
    with open(CORPUS, encoding='utf-8') as fh:
        entries = [json.loads(ln) for ln in fh if ln.strip()]
    for ent in entries:
        for cfg in CORPUS_CONFIGS:                     # every host configuration: same outcome, failure lines iff debug and logFn
            st.case([ent['text'], cfg_tag(cfg)], nontrivial=True, tags=[ent.get('finding', 'misc'), cfg_tag(cfg)])
            for oracle, want, got in config_failures(mods, ent['text'], cfg, False, ent.get('files')):
                ctx.witness(oracle, {'kind': 'corpus-config', 'text': ent['text'], 'files': ent.get('files'), 'config': cfg,
                                     'note': ent.get('note')}, want, got)
        for debug in (True, False):
            out, log, _ = run_script(mods, ent['text'], None, debug, 20000, ent.get('files'))
            case = {'kind': 'corpus', 'text': ent['text'], 'files': ent.get('files'), 'debug': debug, 'note': ent.get('note')}
            st.case([ent['text'], debug], nontrivial=True, tags=[ent.get('finding', 'misc'), out[0]])
            got = [out[0], tag(out[1]) if out[0] == 'ok' else out[1]]
            want = ent['expect']
            ok = got[0] == want[0] and (got[1] == want[1] if want[0] == 'ok' else str(got[1]).startswith(want[1]))
            if out[0] == 'escape':
                ctx.witness('script-escape', case, want, list(out))
            elif not ok:
                ctx.witness('corpus-expectation', case, want, got)
            nfl = len(fail_lines(log))
            if nfl != (ent.get('failure_lines', 0) if debug else 0):
                ctx.witness('failure-log-once', case, ent.get('failure_lines', 0) if debug else 0, log[-5:])


def streams(ctx):
    os.environ['TZ'] = 'UTC'
    time.tzset()
    mods = fw.impl()
    run_corpus(ctx, mods)
    stream_binop_host(ctx, mods, binop_triples(ctx, ctx.scale(6000, 20000), exhaustive=not ctx.quick))
    if not ctx.quick:
        ctx.streams['binop-host'].exhaustive = False      # the pool is enumerated completely, the value space is not
    stream_wrapper(ctx, mods, {'single': ctx.scale(6, len(ARG_POOL)), 'multi': ctx.scale(4, 60)})
    stream_exec(ctx, mods, ctx.scale(250, 4000))
    stream_expr(ctx, mods, ctx.scale(300, 6000))
    stream_text(ctx, mods, ctx.scale(len(ADV_LINES) + 150, len(ADV_LINES) + 6000))
    stream_deep(ctx, mods, ctx.scale(150, 3000))
    stream_hostile(ctx, mods, ctx.scale(1200, 20000))
    stream_host_failure(ctx, mods, ctx.scale(3000, 60000))
    stream_host_fetch(ctx, mods, ctx.scale(2000, 40000))
    stream_host_values(ctx, mods, ctx.scale(6000, 100000))
    stream_host_reentry(ctx, mods, ctx.scale(3000, 40000))
    stream_script_shapes(ctx, mods, ctx.scale(2000, 30000))
    stream_layered(ctx, mods, ctx.scale(4000, 60000))
    stream_arity(ctx, mods, ctx.scale(1500, 30000))


def disagreement_known(d, known):
    return False


def search(ctx):
    """something no longer checks and no witness yet: larger budgets of the implementation-only oracles"""
    mods = fw.impl()
    try:
        stream_host_failure(ctx, mods, 6000, name='search-host-failure')
        stream_host_fetch(ctx, mods, 4000, name='search-host-fetch')
        stream_deep(ctx, mods, 1500, name='search-deep')
        stream_hostile(ctx, mods, 4000, name='search-hostile')
        stream_host_values(ctx, mods, 6000, name='search-host-values')
        stream_host_reentry(ctx, mods, 3000, name='search-host-reentry')
        stream_script_shapes(ctx, mods, 2000, name='search-script-shapes')
        stream_layered(ctx, mods, 3000, name='search-layered')
        stream_arity(ctx, mods, 4000, name='search-arity')
        if not ctx.witnesses:
            stream_text(ctx, mods, len(ADV_LINES) + 3000, name='search-text')
        if ctx.driver is not None and not ctx.witnesses:
            stream_binop_host(ctx, mods, binop_triples(ctx, 20000, exhaustive=True), name='search-binop')
    except fw.DriverCrash:
        pass


def replay(witness):
    """re-run one witness on the implementation: True = the property still fails on it"""
    os.environ['TZ'] = 'UTC'
    time.tzset()
    mods = fw.impl()
    inp = witness['input']
    kind = inp.get('kind')
    oracle = witness.get('oracle', '')
    if kind == 'binop':
        out, raw = binop_case(mods, inp['op'], inp['a'], inp['b'])
        return out[0] != 'ok' or (raw[0] != 'v' and out[1] is not None)
    if kind == 'call':
        lib = mods['library'].SCRIPT_FUNCTIONS
        cfg = call_cfg(inp['debug'], inp.get('config'))
        alias = inp.get('alias')
        out, _ = callee_outcome(mods, lib[inp['name']], inp['args'], inp['debug'], cfg)
        got, log = wrapped_call(mods, inp['name'], inp['args'], inp['debug'], via_alias=alias, cfg=cfg)
        if got[0] == 'escape':
            return True
        if out[0] in ('args', 'host'):
            want = out[2] if out[0] == 'args' else None
            nfail = [ln for ln in log if (m := FAIL_RE.match(ln)) and m.group(1) == (alias or inp['name'])]
            return got[0] != 'ok' or deep(got[1], lib) != deep(want, lib) or len(nfail) != (1 if cfg_logs(cfg) else 0) or \
                (alias is None and cfg['logFn'] and log[-1:] != ['after'])
        return False
    if kind == 'script' and 'config' in inp:
        model = mods['parser'].parse_script(inp['text'])
        ref = progen.run_impl(model, inp.get('globals'), max_statements=400, debug=bool(inp['debug']))
        ref['log'] = canon_log(ref.get('log', []))
        return bool(exec_config_failures(mods, model, inp.get('globals'), inp['config'], ref))
    if kind in ('script', 'text', 'corpus'):
        modes = [inp['debug']] if inp.get('debug') is not None else [True, False]
        res = {d: run_script(mods, inp['text'], copy.deepcopy(inp.get('globals')), d, 400 if kind == 'script' else 20000,
                             inp.get('files', FILES)) for d in modes}
        if any(r[0][0] == 'escape' for r in res.values()):
            return True
        if oracle == 'script-escape':
            return False
        if oracle == 'failure-log-once':
            return len(fail_lines(res[modes[0]][1])) != witness['expected']
        if oracle == 'no-log-without-debug':
            return bool(fail_lines(res[modes[-1]][1]))
        if oracle in ('execution-continues',):
            r = res[modes[0]]
            return r[0] != ('ok', 'done') or r[1][-1:] != ['END']
        if oracle == 'documented-exception-expected':
            return res[modes[0]][0][0] not in inp.get('expect', ['rt', 'parser'])
        if oracle == 'corpus-expectation':
            r = res[modes[0]][0]
            want = witness['expected']
            got = [r[0], tag(r[1]) if r[0] == 'ok' else r[1]]
            return not (got[0] == want[0] and (got[1] == want[1] if want[0] == 'ok' else str(got[1]).startswith(want[1])))
        if len(modes) == 2:
            (od, ld, _), (on, ln_, _) = res[True], res[False]
            return [x for x in ld if not x.startswith('BareScript: ')] != [x for x in ln_ if not x.startswith('BareScript: ')] \
                or bool(fail_lines(ln_)) or (od[0], str(od[1])) != (on[0], str(on[1]))
        return False
    if kind == 'hostfail':
        return bool(hostfail_failures(mods, inp))
    if kind == 'hostfetch':
        return bool(hostfetch_failures(mods, inp))
    if kind == 'hostfetch-cycle':
        return include_cycle_run(mods, inp)[0] == 'escape'
    if kind == 'hostval':
        return bool(hostval_failures(mods, inp))
    if kind == 'reentry':
        return bool(reentry_failures(mods, inp))
    if kind == 'shape':
        return bool(shape_failures(mods, inp))
    if kind == 'layered':
        return bool(layered_failures(mods, inp))
    if kind == 'arity':
        return bool(arity_failures(mods, inp))
    if kind == 'deep':
        res = deep_run(mods, inp['spec'])
        return res is not None and res[0][0] == 'escape'
    if kind == 'hostile-twin':
        text, files, _ = hostile_script(inp['spec'])
        return parser_error_attrs(mods, text, files)[0] == 'escape' or twin_failure(mods, inp['spec']) is not None
    if kind in ('text-config', 'corpus-config'):
        return bool(config_failures(mods, inp['text'], inp['config'], inp.get('ends_rt', False), inp.get('files', FILES)))
    if kind == 'aliasexpr' and 'shape' in inp:
        lib = mods['library'].SCRIPT_FUNCTIONS
        expr = mods['parser'].parse_expression(inp['text'])
        ref, _ = eval_shape(mods, expr, OPTION_SHAPES[0], inp['builtins'])
        out, log = eval_shape(mods, expr, inp['shape'], inp['builtins'])
        return bool(alias_failures(out, log, inp['shape'], ref, lib, inp['text']))
    if kind == 'expr' and 'config' in inp:
        return bool(expr_config_failures(mods, mods['parser'].parse_expression(inp['text']), inp['globals'], inp['config'],
                                         inp['builtins']))
    if kind in ('expr', 'aliasexpr'):
        expr = mods['parser'].parse_expression(inp['text'])
        g = copy.deepcopy(inp.get('globals') or {})
        if kind == 'expr':
            for name, fn in mods['library'].SCRIPT_FUNCTIONS.items():
                g.setdefault(name, fn)
        out = guarded(mods, lambda: mods['runtime'].evaluate_expression(expr, {'globals': g, 'debug': inp.get('debug')}, None,
                                                                        inp.get('builtins', True)))
        return out[0] == 'escape' or (oracle == 'unexpected-runtime-error' and out[0] == 'rt' and not out[1].startswith('Undefined function'))
    return True
