"""C07 - lowered code is well formed: schema-valid with intact, unique jump targets."""

import json
import os
import re

import fw
import progen
from progen import call, num, var, wf_binary

ID = 'C07'
LEVEL = 'proof'
LEAN_TARGETS = ['BareProofs.C07']
DRIVER = 'drv_c01'
DRIVER_ROOT = 'Drv.C01'
GEN = ['Consts']
THEOREMS = [
    'C07.counter_eq', 'C07.counter_mono',
    'C07.lower_labels_range', 'C07.lower_jumps_range',
    'C07.lower_labels_nodup', 'C07.lower_all_labels_nodup',
    'C07.lower_jumps_resolved_gen', 'C07.lower_jumps_resolved',
    'C07.lower_labels_targeted_gen', 'C07.lower_labels_targeted', 'C07.for_continue_label_iff',
    'C07.no_unknown_label_error', 'C07.no_unknown_label_error_structured',
    'C07.lower_scopes_clean', 'C07.no_label_lint', 'C07.no_label_lint_structured',
    'C07.lower_include_nonempty', 'C07.parseLines_include_nonempty', 'C07.schema_valid',
    'C07.wellNested_iff', 'C07.parsed_well_formed', 'C07.parsed_well_formed_structured',
]
ASSUMPTIONS = [
    'the core theorems are about the recursive SPEC lowering Lower.lowerProgram; C07.parsed_well_formed transfers them to the '
    'line-at-a-time mirror parseLines (label_defs stack, counter, function floor, re-targeting, hasContinue) through the imported theorem '
    'C01.parseLines_render (mirror = spec for well-nested programs in C01 normal form: FidsInOrder, NoAdjacentIncludes); that parse_script '
    'computes the same lists is the correspondence of this check (implementation vs spec AND vs mirror); text -> classified lines is C06/C10',
    'label names: `Name.gen kind n` renders as "__bareScript<Kind><n>" (BareModel/Syntax.lean); distinct (kind, n) give distinct '
    'strings and no user identifier without the reserved prefix renders like one - the JSON boundary (SyntaxJson) is covered by the '
    'correspondence comparison of the rendered names with the implementation strings, not by a theorem',
    'no_label_lint is about the Lean model Lint.lint of lint_script (tied to model.py by the C18 correspondence) and uses '
    'C18.mem_loop_warnings / scope_ldefs_mem / scope_lused_mem',
    'the machine-level consequence "never .err (.unknownLabel _)" needs C08.unknown_label_iff (error iff findLabel = none); C07 proves '
    'findLabel scope target = some _ and jumpTarget scope [] target /= none for every jump of every scope',
    'schema validity is by typing (Stmt/Expr have one constructor per schema union member); the two value constraints are '
    'IncludeStatement.includes len > 0 (proved for spec and mirror) and FunctionStatement.args len > 0 (the JSON boundary omits empty '
    'args); the real validate_script runs on every parsed model of both streams',
]
TRUSTED = ['structured-program renderer/generator harness/progen.py and the scope oracles of harness/props/C07.py (written from the property '
           'statement, independent of the Lean model)']
LEVEL_TEXT = ('Theorems for ALL structured programs (any nesting depth, any number of functions, any counter start, any enclosing loop): the '
              'recursive lowering threads the script-wide label counter as cntS/cntB/cntE; in every scope (global list, each function body) '
              'every defined label is a user label or __bareScript<Kind>n with n inside the construct\'s own counter range, generated labels '
              'are pairwise distinct (sibling ranges disjoint, kinds distinct at one index; If only with else/elif, Continue only when a '
              'continue binds to the for), every generated jump targets a label of the SAME scope (function bodies are lowered with no '
              'enclosing loop), every generated label is the target of a jump of its scope; hence for code without the reserved prefix whose '
              'raw jumps (if any) are resolved, findLabel succeeds for every jump of every scope, and lint (Lean model) emits none of the '
              'unknown/unused/redefined-label warnings; include lists are never empty (spec lowering and line-at-a-time mirror). Tied to '
              'parser.py by exhaustive shape enumeration (7 construct variants x break/continue per loop level; quick: depth <= 2, thorough: '
              'depth <= 3 incl. the extended space and depth 4 exhaustively when the time budget allows - the evidence says which; each '
              'global / in a function / several functions / in a function defined while global blocks are open), exhaustive controlling-'
              'expression enumeration (every if / elif / while / for site x every expression kind and constant class x every way the body '
              'leaves) and random programs (depth <= 6, half of them with pool expressions substituted for their tests): parse_script '
              'output vs spec vs mirror, plus direct oracles on the '
              'implementation output (validate_script, per-scope label/jump census, lint_script, execution).')
LEVEL_NOTE = ('Trusted: Lean kernel; extract.py; harness (progen renderer, scope oracles). The core theorems speak about the spec lowering; '
              'parsed_well_formed carries them to the line-at-a-time mirror via the imported C01.parseLines_render. WellNested is not needed '
              'by any spec-level theorem (lowerS none .brk emits nothing) - it is what makes the parser accept the program and is a conclusion '
              'of parsed_well_formed. Lint theorems are about the Lean lint model (C18 lemmas imported). Classification of text lines is '
              'outside C07 (C06/C10).')

RESERVED = '__bareScript'
RE_LABEL_WARNING = re.compile(r'^(Unknown|Unused|Redefinition of)( global)? label ')
MAX_STATEMENTS = 150


# ---------------------------------------------------------------------------------------------------------------------
# shape enumeration
# ---------------------------------------------------------------------------------------------------------------------

# construct variants: (name, kind, number of branch slots)
VARIANTS = [('if', 'if', 1), ('ifelse', 'if', 2), ('ifelif', 'if', 2), ('ifelifelse', 'if', 3),
            ('while', 'loop', 1), ('for', 'loop', 1), ('forix', 'loop', 1)]
FLAGS = [(False, False), (True, False), (False, True), (True, True)]   # (break, continue)


def shapes(depth, in_loop, slots):
    """Every nesting chain of exactly `depth` constructs.  A level is (variant, slot, brk, cont): the nested construct
    (if any) sits in branch number `slot`; `brk`/`cont` put a break/continue statement into that same block.
    slots=False: the literal space of the property statement (child in the first branch, break/continue directly in loop
    bodies only).  slots=True: the child in every possible branch, break/continue in every block that is inside a loop."""
    if depth == 0:
        yield ()
        return
    for name, kind, nslots in VARIANTS:
        inner_loop = in_loop or kind == 'loop'
        flag_ok = (kind == 'loop') if not slots else inner_loop
        for slot in (range(nslots) if slots else (0,)):
            for brk, cont in (FLAGS if flag_ok else FLAGS[:1]):
                for rest in shapes(depth - 1, inner_loop, slots):
                    yield ((name, slot, brk, cont),) + rest


def shape_count(depth, slots):
    return sum(1 for _ in shapes(depth, False, slots))


def inc(name):
    return {'k': 'expr', 'name': name, 'e': wf_binary('+', var(name), num(1))}


def build(shape, level=0):
    """structured statements (wire form) of a shape"""
    if not shape:
        return [inc('m')]
    (name, slot, brk, cont), rest = shape[0], shape[1:]
    block = [inc('n')] + build(rest, level + 1)
    if cont:
        block.append({'k': 'continue'})
    if brk:
        block.append({'k': 'break'})
    other = lambda tag: [{'k': 'expr', 'name': 'o', 'e': num(tag)}]  # noqa: E731
    cond = lambda k: wf_binary('==', wf_binary('%', var('n'), num(k)), num(level % k))  # noqa: E731
    if name == 'while':
        return [{'k': 'while', 'c': wf_binary('<', var('n'), num(3 + 2 * level)), 'b': block}]
    if name in ('for', 'forix'):
        return [{'k': 'for', 'value': 'v%d' % level, 'index': ('i%d' % level if name == 'forix' else None),
                 'vals': call('arrayNew', num(1), num(2)), 'b': block}]
    bodies = [block if i == slot else other(10 * level + i) for i in range(3)]
    if name == 'if':
        els = None
    elif name == 'ifelse':
        els = {'k': 'else', 'b': bodies[1]}
    elif name == 'ifelif':
        els = {'k': 'elif', 'c': cond(3), 't': bodies[1], 'else': None}
    else:
        els = {'k': 'elif', 'c': cond(3), 't': bodies[1], 'else': {'k': 'else', 'b': bodies[2]}}
    return [{'k': 'if', 'c': cond(2), 't': bodies[0], 'else': els}]


def func(name, body, args=()):
    return {'k': 'func', 'fid': 0, 'name': name, 'args': list(args), 'lastArgArray': False, 'async': False, 'b': body}


def in_context(body, context):
    """global scope / inside a function / several functions in one script (the counter is script-wide)"""
    init = [{'k': 'expr', 'name': 'n', 'e': num(0)}, {'k': 'expr', 'name': 'm', 'e': num(0)}]
    tail = [{'k': 'if', 'c': var('m'), 't': [inc('m')], 'else': None}]      # a sibling construct after the shape
    if context == 'global':
        prog = init + body + tail
    elif context == 'blockfn':
        # the function is defined while two global blocks are still open (the parser's block stack is not empty at `function`)
        fn = func('fa', init + body + tail + [{'k': 'ret', 'e': var('m')}])
        prog = [{'k': 'expr', 'name': 'g', 'e': num(0)},
                {'k': 'while', 'c': wf_binary('<', var('g'), num(1)),
                 'b': [inc('g'), {'k': 'if', 'c': var('g'), 't': [fn], 'else': None}]},
                {'k': 'expr', 'name': 'r', 'e': call('fa')}]
    elif context == 'function':
        prog = [func('fa', init + body + tail + [{'k': 'ret', 'e': var('m')}])] + \
               [{'k': 'expr', 'name': 'r', 'e': call('fa')}]
    else:
        side = [{'k': 'for', 'value': 'w', 'index': None, 'vals': call('arrayNew', num(1), num(2), num(3)),
                 'b': [{'k': 'if', 'c': wf_binary('==', var('w'), num(2)), 't': [{'k': 'continue'}], 'else': None}, inc('s')]}]
        before = [{'k': 'if', 'c': var('g'), 't': [inc('g')], 'else': {'k': 'else', 'b': [inc('h')]}},
                  {'k': 'while', 'c': wf_binary('<', var('g'), num(2)), 'b': [inc('g')]}]    # global constructs BEFORE the functions
        prog = before + \
               [func('fa', [{'k': 'expr', 'name': 's', 'e': num(0)}] + side + [{'k': 'ret', 'e': var('s')}]),
                func('fb', init + body + [{'k': 'ret', 'e': var('m')}], ['p']),
                func('fc', [{'k': 'while', 'c': wf_binary('<', var('q'), num(2)), 'b': [inc('q')]}, {'k': 'ret', 'e': var('q')}], ['q']),
                {'k': 'expr', 'name': 'r1', 'e': call('fa')}, {'k': 'expr', 'name': 'r2', 'e': call('fb', num(1))},
                {'k': 'expr', 'name': 'r3', 'e': call('fc', num(0))}] + \
               [{'k': 'while', 'c': wf_binary('<', var('r3'), num(4)), 'b': [inc('r3')]}]
    return progen.assign_fids(prog)


CONTEXTS = ['global', 'function', 'multi']
CONTEXTS_PLUS = CONTEXTS + ['blockfn']


# ---------------------------------------------------------------------------------------------------------------------
# controlling-expression family: the lowering must not depend on WHAT the test / values expression of a construct is
# (its syntactic kind, a constant value) nor on HOW the body leaves (falls through, break, continue, return, nothing)
# ---------------------------------------------------------------------------------------------------------------------

def _frac(p, q):
    return {'number': [p, q]}


# every expression kind of the expression model x the value classes a lowering could tell apart (falsy / truthy constants of every
# literal type, constant-foldable operators, names that are constants by convention, calls with and without arguments, arrays)
COND_POOL = [
    num(0), num(1), _frac(5, 2), _frac(1, 2), num(1000000),
    progen.string(''), progen.string('a'), progen.string('0'),
    var('true'), var('false'), var('null'), var('n'), var('zz'),
    progen.group(num(1)), progen.group(num(0)), progen.group(var('true')), progen.group(wf_binary('<', var('n'), num(3))),
    progen.group(progen.group(num(1))),
    progen.unop('!', num(0)), progen.unop('!', num(1)), progen.unop('-', num(1)), progen.unop('-', var('n')), progen.unop('!', var('n')),
    progen.unop('!', progen.group(num(1))), progen.unop('!', progen.unop('!', num(1))),
    wf_binary('==', num(1), num(1)), wf_binary('<', var('n'), num(3)), wf_binary('&&', num(1), num(0)), wf_binary('||', num(0), num(1)),
    wf_binary('+', num(1), num(1)), wf_binary('-', num(1), num(1)),
    call('arrayNew'), call('arrayNew', num(1), num(2)), call('systemBoolean', num(1)), call('if', num(1), num(1), num(0)),
    call('objectNew'),
]


def expr_class(e):
    """tag of an expression of the pool: its kind and, for literals, the value class"""
    (k, v), = e.items()
    if k == 'number':
        return 'number:' + ('zero' if v[0] == 0 else ('int' if v[1] == 1 else 'frac'))
    if k == 'string':
        return 'string:' + ('empty' if not v else 'nonempty')
    if k == 'variable':
        return 'variable:' + (v if v in ('true', 'false', 'null') else 'name')
    if k == 'function':
        return 'function:' + ('args' if v['args'] else 'noargs')
    return k


def _if(c, t, els=None):
    return {'k': 'if', 'c': c, 't': t, 'else': els}


def _even(k=2):
    return wf_binary('==', wf_binary('%', var('n'), num(k)), num(0))


def _ge2():
    return wf_binary('>=', var('n'), num(2))


# how the body of the loop under test leaves it
LOOP_BODIES = {
    'plain': lambda: [inc('n')],
    'empty': lambda: [],
    'break': lambda: [inc('n'), {'k': 'break'}],
    'continue': lambda: [inc('n'), {'k': 'continue'}],
    'continue+break': lambda: [inc('n'), _if(_even(), [{'k': 'continue'}]), {'k': 'break'}],
    'return': lambda: [inc('n'), {'k': 'ret', 'e': var('n')}],
    'guarded-return': lambda: [inc('n'), _if(_ge2(), [{'k': 'ret', 'e': var('n')}])],
    'guarded-break': lambda: [inc('n'), _if(_ge2(), [{'k': 'break'}])],
    'guarded-continue': lambda: [inc('n'), _if(_ge2(), [{'k': 'continue'}]), inc('m')],
    # break / continue that belong to an INNER loop only: the loop under test has none of its own
    'inner-while-break': lambda: [inc('n'), {'k': 'while', 'c': wf_binary('<', var('m'), num(2)), 'b': [inc('m'), {'k': 'break'}]}],
    'inner-for-continue': lambda: [inc('n'), {'k': 'for', 'value': 'w', 'index': None, 'vals': call('arrayNew', num(1), num(2)),
                                              'b': [_if(_even(), [{'k': 'continue'}]), inc('m')]}],
}

# how the branches of the if chain under test leave it: (enclosing loop, transfer statement, which branches end with it)
IF_BODIES = {
    'plain': (None, None, None),
    'empty': (None, 'empty', 'all'),
    'return-all': (None, 'ret', 'all'),
    'return-first': (None, 'ret', 'first'),
    'in-while': ('while', None, None),
    'in-while-break-all': ('while', 'break', 'all'),
    'in-while-break-first': ('while', 'break', 'first'),
    'in-while-continue-all': ('while', 'continue', 'all'),
    'in-for-break-all': ('for', 'break', 'all'),
    'in-for-continue-all': ('for', 'continue', 'all'),
    'in-for-continue-first': ('for', 'continue', 'first'),
}

# (construct variant, position of the expression under test)
CONTROL_SITES = [('if', 'if'), ('ifelse', 'if'), ('ifelif', 'if'), ('ifelif', 'elif'), ('ifelifelse', 'if'), ('ifelifelse', 'elif'),
                 ('while', 'test'), ('for', 'values'), ('forix', 'values')]


def control_construct(variant, pos, e, body_kind):
    """structured statements: one construct whose controlling expression at `pos` is `e` and whose body leaves as `body_kind`"""
    if variant == 'while':
        return [{'k': 'while', 'c': e, 'b': LOOP_BODIES[body_kind]()}]
    if variant in ('for', 'forix'):
        return [{'k': 'for', 'value': 'v', 'index': 'i' if variant == 'forix' else None, 'vals': e, 'b': LOOP_BODIES[body_kind]()}]
    host, transfer, where = IF_BODIES[body_kind]

    def branch(i):
        if transfer == 'empty':
            return []
        body = [{'k': 'expr', 'name': 'o', 'e': num(i)}]
        if transfer is not None and (where == 'all' or i == 0):
            body.append({'k': 'ret', 'e': var('o')} if transfer == 'ret' else {'k': transfer})
        return body

    c_if = e if pos == 'if' else _even(2)
    c_elif = e if pos == 'elif' else _even(3)
    if variant == 'if':
        els = None
    elif variant == 'ifelse':
        els = {'k': 'else', 'b': branch(1)}
    elif variant == 'ifelif':
        els = {'k': 'elif', 'c': c_elif, 't': branch(1), 'else': None}
    else:
        els = {'k': 'elif', 'c': c_elif, 't': branch(1), 'else': {'k': 'else', 'b': branch(2)}}
    stmts = [_if(c_if, branch(0), els)]
    if host == 'while':
        stmts = [{'k': 'while', 'c': wf_binary('<', var('n'), num(3)), 'b': [inc('n')] + stmts + [inc('m')]}]
    elif host == 'for':
        stmts = [{'k': 'for', 'value': 'v', 'index': None, 'vals': call('arrayNew', num(1), num(2), num(3)), 'b': [inc('n')] + stmts + [inc('m')]}]
    return stmts


def control_specs():
    """the complete space (site x expression x body); deterministic order"""
    for variant, pos in CONTROL_SITES:
        bodies = LOOP_BODIES if variant in ('while', 'for', 'forix') else IF_BODIES
        for ix in range(len(COND_POOL)):
            for body_kind in bodies:
                yield variant, pos, ix, body_kind


def control_cases(chunk):
    cases = []
    for (variant, pos, ix, body_kind), context in chunk:
        e = COND_POOL[ix]
        cases.append((in_context(control_construct(variant, pos, e, body_kind), context),
                      ['controls', context, variant + '@' + pos, 'expr:' + expr_class(e), 'body:' + body_kind]))
    return cases


def mutate_controls(block, rng, p):
    """Replace (in place, with probability p each) the controlling expressions of a structured program - if / elif / while tests and
    for values - by expressions of the pool.  Loops that no longer end are stopped by the statement budget."""
    for s in block:
        k = s['k']
        if k == 'if':
            node = s
            while node is not None:
                if node['k'] == 'else':
                    mutate_controls(node['b'], rng, p)
                    break
                if rng.random() < p:
                    node['c'] = rng.choice(COND_POOL)
                mutate_controls(node['t'], rng, p)
                node = node.get('else')
        elif k == 'while':
            if rng.random() < p:
                s['c'] = rng.choice(COND_POOL)
            mutate_controls(s['b'], rng, p)
        elif k == 'for':
            if rng.random() < p:
                s['vals'] = rng.choice(COND_POOL)
            mutate_controls(s['b'], rng, p)
        elif k == 'func':
            mutate_controls(s['b'], rng, p)
    return block


# ---------------------------------------------------------------------------------------------------------------------
# the property's own oracles, on the implementation's output (independent of the Lean model)
# ---------------------------------------------------------------------------------------------------------------------

def scopes_of(statements, name='<global>'):
    """(scope name, statement list) for the global list and, recursively, every function body"""
    yield name, statements
    for st in statements:
        if 'function' in st:
            yield from scopes_of(st['function']['statements'], st['function']['name'])


def scope_defects(statements, generated_only=False):
    """Violations of: every jump targets a label defined exactly once in the SAME scope; every label is targeted by at least one
    jump of its scope; labels unique.  generated_only: restrict to '__bareScript' names (programs with raw user labels/jumps)."""
    out = []
    for scope, stmts in scopes_of(statements):
        labels = [st['label'] for st in stmts if 'label' in st]
        jumps = [st['jump']['label'] for st in stmts if 'jump' in st]
        keep = (lambda s: s.startswith(RESERVED)) if generated_only else (lambda s: True)
        for lab in sorted(set(labels)):
            if keep(lab):
                if labels.count(lab) != 1:
                    out.append(f'{scope}: label {lab} defined {labels.count(lab)} times')
                if lab not in jumps:
                    out.append(f'{scope}: label {lab} is not the target of any jump of its scope')
        for tgt in sorted(set(jumps)):
            if keep(tgt) and labels.count(tgt) != 1:
                out.append(f'{scope}: jump target {tgt} defined {labels.count(tgt)} times in its scope')
    return out


def check_model(ctx, text, model, generated_only=False, execute=True):
    """Run every implementation-side oracle on one parsed model; report witnesses; return the execution outcome tag."""
    mods = fw.impl()
    inp = {'text': text, 'generated_only': generated_only}
    # 1. schema
    try:
        mods['model'].validate_script(model)
    except Exception as exc:  # pylint: disable=broad-except
        ctx.witness('schema-valid', inp, 'validate_script accepts the model returned by parse_script', f'{type(exc).__name__}: {exc}'[:300])
    # 2. labels / jumps per scope
    defects = scope_defects(model['statements'], generated_only)
    if defects:
        ctx.witness('scope-labels', inp, 'every jump targets a label defined exactly once in the same scope; every label targeted; unique',
                    defects[:6])
    # 3. lint
    warnings = mods['model'].lint_script(model)
    bad = [w for w in warnings if RE_LABEL_WARNING.match(w) and (not generated_only or RESERVED in w)]
    if bad:
        ctx.witness('label-lint', inp, 'no unknown/unused/redefined label warning', bad[:6])
    # 4. execution
    tag = 'not-run'
    if execute:
        out = progen.run_impl(model, {}, max_statements=MAX_STATEMENTS)
        err = out.get('error', '')
        tag = 'limit' if err.startswith('Exceeded') else ('error' if err else ('hostexc' if 'hostexc' in out else 'ok'))
        if err.startswith('Unknown jump label') and (not generated_only or RESERVED in err):
            ctx.witness('unknown-jump-label', inp, 'execution never raises "Unknown jump label"', err)
    return tag


def parse_impl(text):
    parser = fw.impl()['parser']
    try:
        return parser.parse_script(text), None
    except parser.BareScriptParserError as exc:
        return None, exc.error
    except Exception as exc:  # pylint: disable=broad-except
        # a crash of the parser is not a model: nothing for the oracles to inspect (the mirror comparison reports it)
        return None, 'hostexc ' + type(exc).__name__


def run_cases(ctx, st, stream, cases, generated_only=False):
    """cases: [(prog, tags)]; one driver batch; correspondence + oracles"""
    resps = ctx.driver.batch([{'op': 'lower', 'prog': prog} for prog, _ in cases])
    for (prog, tags), resp in zip(cases, resps):
        text = '\n'.join(progen.render(prog))
        model, err = parse_impl(text)
        if model is None:
            # not a well-nested program: the parser rejects it; only the mirror has something to say
            st.case(text, nontrivial=False, tags=list(tags) + ['rejected'])
            ctx.compare(stream + '-mirror', text, {'error': err}, resp.get('mirror'))
            continue
        impl = progen.canon_script(model, with_fid=False)
        for side in ('spec', 'mirror'):
            out = resp.get(side)
            if out != impl:                       # literals are exact rationals on the model side: round only when it matters
                out = progen.round_script_numbers(out)
            ctx.compare(f'{stream}-{side}', text, impl, out)
        tag = check_model(ctx, text, model, generated_only)
        nlabels = sum(1 for _, stmts in scopes_of(model['statements']) for s in stmts if 'label' in s)
        st.case(text, nontrivial=nlabels > 0, tags=list(tags) + ['exec:' + tag])


# ---------------------------------------------------------------------------------------------------------------------
# parallel execution of a stream: forked workers (the implementation modules are inherited), results merged in order
# ---------------------------------------------------------------------------------------------------------------------

_WORK = {}


def shape_cases(chunk, contexts=CONTEXTS):
    cases = []
    for slots, shape in chunk:
        body = build(shape)
        for context in contexts:
            cases.append((in_context(body, context), ['depth%d' % len(shape), context, 'ext' if slots else 'lit'] +
                          sorted({lvl[0] for lvl in shape})))
    return cases


def _worker(job):
    kind, stream, payload, generated_only = job
    ctx = fw.Ctx(ID, _WORK['tier'], _WORK['seed'])
    ctx.driver = fw.Driver(DRIVER)
    st = fw.StreamStats(stream, '')
    try:
        if kind == 'shapes':
            cases = shape_cases(payload)
        elif kind == 'shapes+':
            cases = shape_cases(payload, CONTEXTS_PLUS)
        elif kind == 'controls':
            cases = control_cases(payload)
        else:
            cases = payload
        run_cases(ctx, st, stream, cases, generated_only)
    except fw.DriverCrash as exc:
        return {'crash': str(exc)}
    return {'evaluations': st.evaluations, 'hashes': st.hashes, 'hist': st.hist, 'samples': st.samples,
            'disagreements': ctx.disagreements, 'witnesses': ctx.witnesses, 'checked': ctx.disagreements_checked,
            'requests': ctx.driver.requests}


def merge(ctx, st, res):
    if 'crash' in res:
        raise fw.DriverCrash(res['crash'], 0)
    st.evaluations += res['evaluations']
    st.hashes |= res['hashes']
    for k, v in res['hist'].items():
        st.hist[k] = st.hist.get(k, 0) + v
    for smp in res['samples']:
        if len(st.samples) < 3:
            st.samples.append(smp)
    for d in res['disagreements']:
        if d is None:
            ctx.disagreements.append(None)
        else:
            ctx.disagree(d['stream'], d['case'], d['impl'], d['model'], d.get('note', ''))
    for w in res['witnesses']:
        if len(ctx.witnesses) < 200:
            ctx.witnesses.append(w)
    ctx.disagreements_checked += res['checked']
    ctx.driver.requests += res['requests']


def n_workers():
    return max(1, int(os.environ.get('VERIF_WORKERS', '') or min(8, (os.cpu_count() or 2) // 2)))


def run_jobs(ctx, st, jobs, deadline=None):
    """Run jobs (in order); returns the number of jobs completed (all, unless the deadline stopped the submission)."""
    fw.impl()                                     # import the implementation before forking
    _WORK.update(tier=ctx.tier, seed=ctx.seed)
    done = 0
    nw = n_workers()
    if nw == 1 or len(jobs) == 1:
        for job in jobs:
            if deadline is not None and ctx.elapsed() > deadline:
                break
            merge(ctx, st, _worker(job))
            done += 1
        return done
    import multiprocessing
    with multiprocessing.get_context('fork').Pool(nw) as pool:
        pending = []
        it = iter(jobs)
        exhausted = False
        while pending or not exhausted:
            while not exhausted and len(pending) < 2 * nw:
                if deadline is not None and ctx.elapsed() > deadline:
                    exhausted = True
                    break
                job = next(it, None)
                if job is None:
                    exhausted = True
                    break
                pending.append(pool.apply_async(_worker, (job,)))
            if pending:
                merge(ctx, st, pending.pop(0).get())
                done += 1
    return done


def chunks(seq, n):
    return [seq[i:i + n] for i in range(0, len(seq), n)]


def load_corpus():
    path = os.path.join(fw.VERIF, 'harness', 'corpus', 'C07.jsonl')
    out = []
    if os.path.exists(path):
        with open(path, encoding='utf-8') as fh:
            for line in fh:
                line = line.strip()
                if line and not line.startswith('#'):
                    out.append(json.loads(line))
    return out


def streams(ctx):
    # --- corpus first
    corpus = load_corpus()
    if corpus:
        st = ctx.stream('corpus', 'hand-picked programs (harness/corpus/C07.jsonl): elif chains without else, continue through nested ifs, '
                                  'while+continue, raw labels next to generated ones, merged includes, ill-nested programs the parser rejects')
        run_cases(ctx, st, 'corpus', [(progen.assign_fids(c['prog']), ['corpus']) for c in corpus if not c.get('raw')])
        run_cases(ctx, st, 'corpus', [(progen.assign_fids(c['prog']), ['corpus-raw']) for c in corpus if c.get('raw')], generated_only=True)

    # --- stream shapes: exhaustive, literal space depth <= 3 (quick 2) + extended space depth <= 3 (quick 2)
    depth_a = ctx.scale(2, 3)
    depth_b = ctx.scale(2, 3)
    st = ctx.stream('shapes',
                    f'EXHAUSTIVE: every nesting chain of the 7 construct variants {{if, if-else, if-elif, if-elif-else, while, for, '
                    f'for-with-index}} with optional break/continue at each loop level, depth 1..{depth_a} (nested construct in the first '
                    f'branch), plus the extended space (nested construct in EVERY branch, break/continue in every block inside a loop, so '
                    f'that they bind through nested ifs) depth 1..{depth_b}; each at global scope, inside a function, with several '
                    f'functions in one script, and inside a function defined while global blocks (while > if) are still open; '
                    f'non-trivial = the lowered code defines at least one label')
    seen = set()
    todo = []
    for slots, maxd in ((False, depth_a), (True, depth_b)):
        for depth in range(1, maxd + 1):
            for shape in shapes(depth, False, slots):
                if shape not in seen:
                    seen.add(shape)
                    todo.append((slots, shape))
    jobs = [('shapes+', 'shapes', ch, False) for ch in chunks(todo, 500)]
    run_jobs(ctx, st, jobs)
    st.exhaustive = True
    ctx.notes.append(f'shapes: literal space depth<={depth_a} + extended space depth<={depth_b}: {len(seen)} distinct shapes x '
                     f'{len(CONTEXTS_PLUS)} contexts, enumerated completely')

    # --- stream shapes4 (thorough): the literal space at depth 4 - exhaustive if it fits the time budget, else a uniform sample
    if not ctx.quick:
        st = ctx.stream('shapes4',
                        'every nesting chain of exactly 4 of the 7 construct variants with optional break/continue at each loop level '
                        '(16^4 = 65536 shapes) x {global, in a function, several functions}; chunks are visited in a seeded random order so '
                        'that a run cut short by the time budget is a uniform sample (then exhaustive=false); non-trivial = defines a label')
        todo4 = [(False, shape) for shape in shapes(4, False, False)]
        ctx.rng('shapes4').shuffle(todo4)
        jobs = [('shapes', 'shapes4', ch, False) for ch in chunks(todo4, 700)]
        budget = float(os.environ.get('VERIF_C07_DEPTH4_DEADLINE_S', '430'))
        done = run_jobs(ctx, st, jobs, deadline=budget)
        st.exhaustive = (done == len(jobs))
        ctx.notes.append(f'shapes4: {done}/{len(jobs)} chunks of 700 shapes x {len(CONTEXTS)} contexts '
                         f'({"EXHAUSTIVE depth 4" if st.exhaustive else "SAMPLED depth 4 (time budget reached)"}), {n_workers()} workers')

    # --- stream controls: exhaustive, every construct site x every controlling-expression class x every way the body leaves
    contexts = CONTEXTS
    st = ctx.stream('controls',
                    f'EXHAUSTIVE: every controlling-expression site {{if, elif, while test, for / for-with-index values}} of the 7 construct '
                    f'variants x {len(COND_POOL)} expressions covering every expression kind and constant class (number literal zero / '
                    f'integer / fraction, string literal empty / non-empty, true / false / null, plain names, groups, unary ! and -, '
                    f'constant-foldable binaries, calls with and without arguments, array values) x every way the body leaves (falls '
                    f'through, empty, break, continue, both, return, guarded, break / continue of an inner loop only; if chains: every / '
                    f'only the first branch ends with return, or with break / continue of an enclosing while / for), each at global '
                    f'scope, inside a function, and with several functions in one script; non-trivial = the lowered code defines at '
                    f'least one label')
    todo = [(spec, context) for spec in control_specs() for context in contexts]
    run_jobs(ctx, st, [('controls', 'controls', ch, False) for ch in chunks(todo, 500)])
    st.exhaustive = True
    ctx.notes.append(f'controls: {len(todo) // len(contexts)} (site, expression, body) combinations x {len(contexts)} contexts, '
                     f'enumerated completely')

    # --- stream random: progen programs, depth <= 6
    rng = ctx.rng('random')
    rng_controls = ctx.rng('random-controls')
    n = ctx.scale(300, 6000)
    st = ctx.stream('random', 'progen.Gen grammar-directed programs, nesting depth <= 6, <= 3 functions + prelude, all seven constructs with '
                              'break/continue; a quarter of them with raw user labels/jumps (L1, L2: oracles restricted to generated '
                              'names); in every second program a third of the if / elif / while tests and for values are replaced by '
                              'expressions of the controlling-expression pool (literals of every type, constants, groups, unary, calls; '
                              'loops that no longer end run into the statement budget); non-trivial = the lowered code defines at least '
                              'one label')
    plain, raw = [], []
    for i in range(n):
        allow_raw = (i % 4 == 3)
        gen = progen.Gen(rng, max_depth=rng.choice([3, 4, 5, 6]), allow_raw=allow_raw)
        prog = gen.program()
        tags = sorted(gen.stats)
        if i % 2 == 1:
            mutate_controls(prog, rng_controls, 0.34)
            tags.append('controls-mutated')
        (raw if allow_raw else plain).append((prog, tags))
    jobs = [('progs', 'random', ch, False) for ch in chunks(plain, 500)] + [('progs', 'random', ch, True) for ch in chunks(raw, 500)]
    run_jobs(ctx, st, jobs)
    # the smallest failing input first (it becomes the replay file)
    ctx.witnesses.sort(key=lambda w: len(w['input']['text']))


def disagreement_known(d, known):
    return False


def search(ctx):
    """Something no longer checks: look for a program on which the property itself fails on the implementation (oracles only)."""
    before = len(ctx.witnesses)
    maxd = ctx.scale(2, 3)
    for slots in (False, True):
        for depth in range(1, maxd + 1):
            for shape in shapes(depth, False, slots):
                body = build(shape)
                for context in CONTEXTS_PLUS:
                    text = '\n'.join(progen.render(in_context(body, context)))
                    model, _ = parse_impl(text)
                    if model is not None:
                        check_model(ctx, text, model, execute=(depth <= 2))
                if len(ctx.witnesses) - before >= 20:
                    return
    for variant, pos, ix, body_kind in control_specs():
        body = control_construct(variant, pos, COND_POOL[ix], body_kind)
        for context in CONTEXTS:
            text = '\n'.join(progen.render(in_context(body, context)))
            model, _ = parse_impl(text)
            if model is not None:
                check_model(ctx, text, model, execute=(context != 'multi'))
        if len(ctx.witnesses) - before >= 20:
            return
    rng = ctx.rng('search')
    for i in range(ctx.scale(1500, 20000)):
        gen = progen.Gen(rng, max_depth=rng.choice([3, 4, 5, 6, 7]))
        prog = gen.program()
        if i % 2 == 1:
            mutate_controls(prog, rng, 0.34)
        text = '\n'.join(progen.render(prog))
        model, _ = parse_impl(text)
        if model is not None:
            check_model(ctx, text, model, execute=False)
        if len(ctx.witnesses) - before >= 20:
            return


class _Collect:
    def __init__(self):
        self.witnesses = []

    def witness(self, oracle, input_, expected, actual, **extra):
        self.witnesses.append(oracle)


def replay(witness):
    inp = witness['input']
    model, _ = parse_impl(inp['text'])
    if model is None:
        return False
    col = _Collect()
    check_model(col, inp['text'], model, inp.get('generated_only', False))
    return witness['oracle'] in col.witnesses
