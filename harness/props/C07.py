"""C07 - lowered code is well formed: schema-valid with intact, unique jump targets."""

import json
import os
import re

import fw
import progen
from progen import call, num, var, wf_binary

ID = 'C07'
LEVEL = 'proof'
LEAN_TARGETS = ['BareProofs.C07']
DRIVER = 'drv_c01'
DRIVER_ROOT = 'Drv.C01'
GEN = ['Consts']
THEOREMS = [
    'C07.counter_eq', 'C07.counter_mono',
    'C07.lower_labels_range', 'C07.lower_jumps_range',
    'C07.lower_labels_nodup', 'C07.lower_all_labels_nodup',
    'C07.lower_jumps_resolved_gen', 'C07.lower_jumps_resolved',
    'C07.lower_labels_targeted_gen', 'C07.lower_labels_targeted', 'C07.for_continue_label_iff',
    'C07.no_unknown_label_error', 'C07.no_unknown_label_error_structured',
    'C07.lower_scopes_clean', 'C07.no_label_lint', 'C07.no_label_lint_structured',
    'C07.lower_include_nonempty', 'C07.parseLines_include_nonempty', 'C07.schema_valid',
    'C07.wellNested_iff', 'C07.parsed_well_formed', 'C07.parsed_well_formed_structured',
]
ASSUMPTIONS = [
    'the core theorems are about the recursive SPEC lowering Lower.lowerProgram; C07.parsed_well_formed transfers them to the '
    'line-at-a-time mirror parseLines (label_defs stack, counter, function floor, re-targeting, hasContinue) through the imported theorem '
    'C01.parseLines_render (mirror = spec for well-nested programs in C01 normal form: FidsInOrder, NoAdjacentIncludes); that parse_script '
    'computes the same lists is the correspondence of this check (implementation vs spec AND vs mirror); text -> classified lines is C06/C10',
    'label names: `Name.gen kind n` renders as "__bareScript<Kind><n>" (BareModel/Syntax.lean); distinct (kind, n) give distinct '
    'strings and no user identifier without the reserved prefix renders like one - the JSON boundary (SyntaxJson) is covered by the '
    'correspondence comparison of the rendered names with the implementation strings, not by a theorem',
    'no_label_lint is about the Lean model Lint.lint of lint_script (tied to model.py by the C18 correspondence) and uses '
    'C18.mem_loop_warnings / scope_ldefs_mem / scope_lused_mem',
    'the machine-level consequence "never .err (.unknownLabel _)" needs C08.unknown_label_iff (error iff findLabel = none); C07 proves '
    'findLabel scope target = some _ and jumpTarget scope [] target /= none for every jump of every scope',
    'schema validity is by typing (Stmt/Expr have one constructor per schema union member); the two value constraints are '
    'IncludeStatement.includes len > 0 (proved for spec and mirror) and FunctionStatement.args len > 0 (the JSON boundary omits empty '
    'args); the real validate_script runs on every parsed model of both streams',
]
TRUSTED = ['structured-program renderer/generator harness/progen.py and the scope oracles of harness/props/C07.py (written from the property '
           'statement, independent of the Lean model)']
LEVEL_TEXT = ('Theorems for ALL structured programs (any nesting depth, any number of functions, any counter start, any enclosing loop): the '
              'recursive lowering threads the script-wide label counter as cntS/cntB/cntE; in every scope (global list, each function body) '
              'every defined label is a user label or __bareScript<Kind>n with n inside the construct\'s own counter range, generated labels '
              'are pairwise distinct (sibling ranges disjoint, kinds distinct at one index; If only with else/elif, Continue only when a '
              'continue binds to the for), every generated jump targets a label of the SAME scope (function bodies are lowered with no '
              'enclosing loop), every generated label is the target of a jump of its scope; hence for code without the reserved prefix whose '
              'raw jumps (if any) are resolved, findLabel succeeds for every jump of every scope, and lint (Lean model) emits none of the '
              'unknown/unused/redefined-label warnings; include lists are never empty (spec lowering and line-at-a-time mirror). Tied to '
              'parser.py by exhaustive shape enumeration (7 construct variants x break/continue per loop level; quick: depth <= 2, thorough: '
              'depth <= 3 incl. the extended space and depth 4 exhaustively when the time budget allows - the evidence says which; each '
              'global / in a function / several functions / in a function defined while global blocks are open), exhaustive controlling-'
              'expression enumeration (every if / elif / while / for site x every expression kind and constant class x every way the body '
              'leaves) and random programs (depth <= 6, half of them with pool expressions substituted for their tests) and, since the lowering must not depend on '
              'how a line is spelled, by the spelling streams (every gap of every statement line kind x every white-space class of the '
              'line grammar / line-continuation form / line end / non-statement line, one deviation at a time exhaustively, whole '
              'programs in uniform and random styles, text as one string or as a list of lines, identifiers that look like keywords), '
              'by the ill-nested stream (break / continue that no loop of its own scope encloses, under every chain of open global blocks x '
              'every chain of ifs inside a function, exhaustively: rejected like the mirror) and, implementation side only, by single-line '
              'edits of well-nested hosts and by every lexical alternative of the expression grammar at every expression site (schema '
              'clause: signed literals, quote styles, bracketed names, operator near misses): '
              'parse_script output vs spec vs mirror, plus direct oracles on the '
              'implementation output (validate_script, harness-pinned walk of the published schema, per-scope label/jump census, only '
              'generated names in structured code, lint_script, '
              'execution), and - the runtime as consumer - by execution histories over one options / globals object (one function name bound '
              'to bodies of different block structure within a script, across scripts run in sequence by one host, inside includes, through '
              'kept function values: never an Unknown jump label error, results as with fresh options).')
LEVEL_NOTE = ('Trusted: Lean kernel; extract.py; harness (progen renderer, scope oracles). The core theorems speak about the spec lowering; '
              'parsed_well_formed carries them to the line-at-a-time mirror via the imported C01.parseLines_render. WellNested is not needed '
              'by any spec-level theorem (lowerS none .brk emits nothing) - it is what makes the parser accept the program and is a conclusion '
              'of parsed_well_formed. Lint theorems are about the Lean lint model (C18 lemmas imported). Classification of text lines is '
              'outside C07 (C06/C10).')

RESERVED = '__bareScript'
RE_LABEL_WARNING = re.compile(r'^(Unknown|Unused|Redefinition of)( global)? label ')
MAX_STATEMENTS = 150


# ---------------------------------------------------------------------------------------------------------------------
# shape enumeration
# ---------------------------------------------------------------------------------------------------------------------

# construct variants: (name, kind, number of branch slots)
VARIANTS = [('if', 'if', 1), ('ifelse', 'if', 2), ('ifelif', 'if', 2), ('ifelifelse', 'if', 3),
            ('while', 'loop', 1), ('for', 'loop', 1), ('forix', 'loop', 1)]
FLAGS = [(False, False), (True, False), (False, True), (True, True)]   # (break, continue)


def shapes(depth, in_loop, slots):
    """Every nesting chain of exactly `depth` constructs.  A level is (variant, slot, brk, cont): the nested construct
    (if any) sits in branch number `slot`; `brk`/`cont` put a break/continue statement into that same block.
    slots=False: the literal space of the property statement (child in the first branch, break/continue directly in loop
    bodies only).  slots=True: the child in every possible branch, break/continue in every block that is inside a loop."""
    if depth == 0:
        yield ()
        return
    for name, kind, nslots in VARIANTS:
        inner_loop = in_loop or kind == 'loop'
        flag_ok = (kind == 'loop') if not slots else inner_loop
        for slot in (range(nslots) if slots else (0,)):
            for brk, cont in (FLAGS if flag_ok else FLAGS[:1]):
                for rest in shapes(depth - 1, inner_loop, slots):
                    yield ((name, slot, brk, cont),) + rest


def shape_count(depth, slots):
    return sum(1 for _ in shapes(depth, False, slots))


def inc(name):
    return {'k': 'expr', 'name': name, 'e': wf_binary('+', var(name), num(1))}


def build(shape, level=0, leaf=None):
    """structured statements (wire form) of a shape; `leaf`: the statements of the innermost block (default: one assignment)"""
    if not shape:
        return [inc('m')] if leaf is None else leaf
    (name, slot, brk, cont), rest = shape[0], shape[1:]
    block = [inc('n')] + build(rest, level + 1, leaf)
    if cont:
        block.append({'k': 'continue'})
    if brk:
        block.append({'k': 'break'})
    other = lambda tag: [{'k': 'expr', 'name': 'o', 'e': num(tag)}]  # noqa: E731
    cond = lambda k: wf_binary('==', wf_binary('%', var('n'), num(k)), num(level % k))  # noqa: E731
    if name == 'while':
        return [{'k': 'while', 'c': wf_binary('<', var('n'), num(3 + 2 * level)), 'b': block}]
    if name in ('for', 'forix'):
        return [{'k': 'for', 'value': 'v%d' % level, 'index': ('i%d' % level if name == 'forix' else None),
                 'vals': call('arrayNew', num(1), num(2)), 'b': block}]
    bodies = [block if i == slot else other(10 * level + i) for i in range(3)]
    if name == 'if':
        els = None
    elif name == 'ifelse':
        els = {'k': 'else', 'b': bodies[1]}
    elif name == 'ifelif':
        els = {'k': 'elif', 'c': cond(3), 't': bodies[1], 'else': None}
    else:
        els = {'k': 'elif', 'c': cond(3), 't': bodies[1], 'else': {'k': 'else', 'b': bodies[2]}}
    return [{'k': 'if', 'c': cond(2), 't': bodies[0], 'else': els}]


def func(name, body, args=()):
    return {'k': 'func', 'fid': 0, 'name': name, 'args': list(args), 'lastArgArray': False, 'async': False, 'b': body}


def in_context(body, context):
    """global scope / inside a function / several functions in one script (the counter is script-wide)"""
    init = [{'k': 'expr', 'name': 'n', 'e': num(0)}, {'k': 'expr', 'name': 'm', 'e': num(0)}]
    tail = [{'k': 'if', 'c': var('m'), 't': [inc('m')], 'else': None}]      # a sibling construct after the shape
    if context == 'global':
        prog = init + body + tail
    elif context == 'blockfn':
        # the function is defined while two global blocks are still open (the parser's block stack is not empty at `function`)
        fn = func('fa', init + body + tail + [{'k': 'ret', 'e': var('m')}])
        prog = [{'k': 'expr', 'name': 'g', 'e': num(0)},
                {'k': 'while', 'c': wf_binary('<', var('g'), num(1)),
                 'b': [inc('g'), {'k': 'if', 'c': var('g'), 't': [fn], 'else': None}]},
                {'k': 'expr', 'name': 'r', 'e': call('fa')}]
    elif context == 'function':
        prog = [func('fa', init + body + tail + [{'k': 'ret', 'e': var('m')}])] + \
               [{'k': 'expr', 'name': 'r', 'e': call('fa')}]
    else:
        side = [{'k': 'for', 'value': 'w', 'index': None, 'vals': call('arrayNew', num(1), num(2), num(3)),
                 'b': [{'k': 'if', 'c': wf_binary('==', var('w'), num(2)), 't': [{'k': 'continue'}], 'else': None}, inc('s')]}]
        before = [{'k': 'if', 'c': var('g'), 't': [inc('g')], 'else': {'k': 'else', 'b': [inc('h')]}},
                  {'k': 'while', 'c': wf_binary('<', var('g'), num(2)), 'b': [inc('g')]}]    # global constructs BEFORE the functions
        prog = before + \
               [func('fa', [{'k': 'expr', 'name': 's', 'e': num(0)}] + side + [{'k': 'ret', 'e': var('s')}]),
                func('fb', init + body + [{'k': 'ret', 'e': var('m')}], ['p']),
                func('fc', [{'k': 'while', 'c': wf_binary('<', var('q'), num(2)), 'b': [inc('q')]}, {'k': 'ret', 'e': var('q')}], ['q']),
                {'k': 'expr', 'name': 'r1', 'e': call('fa')}, {'k': 'expr', 'name': 'r2', 'e': call('fb', num(1))},
                {'k': 'expr', 'name': 'r3', 'e': call('fc', num(0))}] + \
               [{'k': 'while', 'c': wf_binary('<', var('r3'), num(4)), 'b': [inc('r3')]}]
    return progen.assign_fids(prog)


CONTEXTS = ['global', 'function', 'multi']
CONTEXTS_PLUS = CONTEXTS + ['blockfn']


# ---------------------------------------------------------------------------------------------------------------------
# controlling-expression family: the lowering must not depend on WHAT the test / values expression of a construct is
# (its syntactic kind, a constant value) nor on HOW the body leaves (falls through, break, continue, return, nothing)
# ---------------------------------------------------------------------------------------------------------------------

def _frac(p, q):
    return {'number': [p, q]}


# every expression kind of the expression model x the value classes a lowering could tell apart (falsy / truthy constants of every
# literal type, constant-foldable operators, names that are constants by convention, calls with and without arguments, arrays)
COND_POOL = [
    num(0), num(1), _frac(5, 2), _frac(1, 2), num(1000000),
    progen.string(''), progen.string('a'), progen.string('0'),
    var('true'), var('false'), var('null'), var('n'), var('zz'),
    progen.group(num(1)), progen.group(num(0)), progen.group(var('true')), progen.group(wf_binary('<', var('n'), num(3))),
    progen.group(progen.group(num(1))),
    progen.unop('!', num(0)), progen.unop('!', num(1)), progen.unop('-', num(1)), progen.unop('-', var('n')), progen.unop('!', var('n')),
    progen.unop('!', progen.group(num(1))), progen.unop('!', progen.unop('!', num(1))),
    wf_binary('==', num(1), num(1)), wf_binary('<', var('n'), num(3)), wf_binary('&&', num(1), num(0)), wf_binary('||', num(0), num(1)),
    wf_binary('+', num(1), num(1)), wf_binary('-', num(1), num(1)),
    call('arrayNew'), call('arrayNew', num(1), num(2)), call('systemBoolean', num(1)), call('if', num(1), num(1), num(0)),
    call('objectNew'),
]


def expr_class(e):
    """tag of an expression of the pool: its kind and, for literals, the value class"""
    (k, v), = e.items()
    if k == 'number':
        return 'number:' + ('zero' if v[0] == 0 else ('int' if v[1] == 1 else 'frac'))
    if k == 'string':
        return 'string:' + ('empty' if not v else 'nonempty')
    if k == 'variable':
        return 'variable:' + (v if v in ('true', 'false', 'null') else 'name')
    if k == 'function':
        return 'function:' + ('args' if v['args'] else 'noargs')
    return k


def _if(c, t, els=None):
    return {'k': 'if', 'c': c, 't': t, 'else': els}


def _even(k=2):
    return wf_binary('==', wf_binary('%', var('n'), num(k)), num(0))


def _ge2():
    return wf_binary('>=', var('n'), num(2))


# how the body of the loop under test leaves it
LOOP_BODIES = {
    'plain': lambda: [inc('n')],
    'empty': lambda: [],
    'break': lambda: [inc('n'), {'k': 'break'}],
    'continue': lambda: [inc('n'), {'k': 'continue'}],
    'continue+break': lambda: [inc('n'), _if(_even(), [{'k': 'continue'}]), {'k': 'break'}],
    'return': lambda: [inc('n'), {'k': 'ret', 'e': var('n')}],
    'guarded-return': lambda: [inc('n'), _if(_ge2(), [{'k': 'ret', 'e': var('n')}])],
    'guarded-break': lambda: [inc('n'), _if(_ge2(), [{'k': 'break'}])],
    'guarded-continue': lambda: [inc('n'), _if(_ge2(), [{'k': 'continue'}]), inc('m')],
    # break / continue that belong to an INNER loop only: the loop under test has none of its own
    'inner-while-break': lambda: [inc('n'), {'k': 'while', 'c': wf_binary('<', var('m'), num(2)), 'b': [inc('m'), {'k': 'break'}]}],
    'inner-for-continue': lambda: [inc('n'), {'k': 'for', 'value': 'w', 'index': None, 'vals': call('arrayNew', num(1), num(2)),
                                              'b': [_if(_even(), [{'k': 'continue'}]), inc('m')]}],
}

# how the branches of the if chain under test leave it: (enclosing loop, transfer statement, which branches end with it)
IF_BODIES = {
    'plain': (None, None, None),
    'empty': (None, 'empty', 'all'),
    'return-all': (None, 'ret', 'all'),
    'return-first': (None, 'ret', 'first'),
    'in-while': ('while', None, None),
    'in-while-break-all': ('while', 'break', 'all'),
    'in-while-break-first': ('while', 'break', 'first'),
    'in-while-continue-all': ('while', 'continue', 'all'),
    'in-for-break-all': ('for', 'break', 'all'),
    'in-for-continue-all': ('for', 'continue', 'all'),
    'in-for-continue-first': ('for', 'continue', 'first'),
}

# (construct variant, position of the expression under test)
CONTROL_SITES = [('if', 'if'), ('ifelse', 'if'), ('ifelif', 'if'), ('ifelif', 'elif'), ('ifelifelse', 'if'), ('ifelifelse', 'elif'),
                 ('while', 'test'), ('for', 'values'), ('forix', 'values')]


def control_construct(variant, pos, e, body_kind):
    """structured statements: one construct whose controlling expression at `pos` is `e` and whose body leaves as `body_kind`"""
    if variant == 'while':
        return [{'k': 'while', 'c': e, 'b': LOOP_BODIES[body_kind]()}]
    if variant in ('for', 'forix'):
        return [{'k': 'for', 'value': 'v', 'index': 'i' if variant == 'forix' else None, 'vals': e, 'b': LOOP_BODIES[body_kind]()}]
    host, transfer, where = IF_BODIES[body_kind]

    def branch(i):
        if transfer == 'empty':
            return []
        body = [{'k': 'expr', 'name': 'o', 'e': num(i)}]
        if transfer is not None and (where == 'all' or i == 0):
            body.append({'k': 'ret', 'e': var('o')} if transfer == 'ret' else {'k': transfer})
        return body

    c_if = e if pos == 'if' else _even(2)
    c_elif = e if pos == 'elif' else _even(3)
    if variant == 'if':
        els = None
    elif variant == 'ifelse':
        els = {'k': 'else', 'b': branch(1)}
    elif variant == 'ifelif':
        els = {'k': 'elif', 'c': c_elif, 't': branch(1), 'else': None}
    else:
        els = {'k': 'elif', 'c': c_elif, 't': branch(1), 'else': {'k': 'else', 'b': branch(2)}}
    stmts = [_if(c_if, branch(0), els)]
    if host == 'while':
        stmts = [{'k': 'while', 'c': wf_binary('<', var('n'), num(3)), 'b': [inc('n')] + stmts + [inc('m')]}]
    elif host == 'for':
        stmts = [{'k': 'for', 'value': 'v', 'index': None, 'vals': call('arrayNew', num(1), num(2), num(3)), 'b': [inc('n')] + stmts + [inc('m')]}]
    return stmts


def control_specs():
    """the complete space (site x expression x body); deterministic order"""
    for variant, pos in CONTROL_SITES:
        bodies = LOOP_BODIES if variant in ('while', 'for', 'forix') else IF_BODIES
        for ix in range(len(COND_POOL)):
            for body_kind in bodies:
                yield variant, pos, ix, body_kind


def control_cases(chunk):
    cases = []
    for (variant, pos, ix, body_kind), context in chunk:
        e = COND_POOL[ix]
        cases.append((in_context(control_construct(variant, pos, e, body_kind), context),
                      ['controls', context, variant + '@' + pos, 'expr:' + expr_class(e), 'body:' + body_kind]))
    return cases


def mutate_controls(block, rng, p):
    """Replace (in place, with probability p each) the controlling expressions of a structured program - if / elif / while tests and
    for values - by expressions of the pool.  Loops that no longer end are stopped by the statement budget."""
    for s in block:
        k = s['k']
        if k == 'if':
            node = s
            while node is not None:
                if node['k'] == 'else':
                    mutate_controls(node['b'], rng, p)
                    break
                if rng.random() < p:
                    node['c'] = rng.choice(COND_POOL)
                mutate_controls(node['t'], rng, p)
                node = node.get('else')
        elif k == 'while':
            if rng.random() < p:
                s['c'] = rng.choice(COND_POOL)
            mutate_controls(s['b'], rng, p)
        elif k == 'for':
            if rng.random() < p:
                s['vals'] = rng.choice(COND_POOL)
            mutate_controls(s['b'], rng, p)
        elif k == 'func':
            mutate_controls(s['b'], rng, p)
    return block


# ---------------------------------------------------------------------------------------------------------------------
# spelling family: the lowering must not depend on HOW a statement line is spelled.  Every statement line of the language is a
# sequence of tokens separated by gaps that its line grammar declares as `\s*` (optional) or `\s+` (required), with `\s*` in front
# and behind; a gap may also be a line continuation (backslash, optional white space, line end; the parts are joined with one
# blank), lines end with LF or CR LF, comment / blank lines may stand anywhere (also inside a continuation), and the text may be
# handed to parse_script as one string or as a list of lines.  All of this is white space in the sense of Python's `\s`, i.e.
# far more than blank and tab.  The renderer below spells a structured program with any filler in any gap.
# ---------------------------------------------------------------------------------------------------------------------

LEAD, OPT, REQ, TRAIL = 'lead', 'opt', 'req', 'trail'
_O0, _O1, _R1 = (OPT, ''), (OPT, ' '), (REQ, ' ')


def _tline(indent, *parts):
    return [(LEAD, '    ' * indent)] + list(parts) + [(TRAIL, '')]


def token_lines(block, indent=0, out=None):
    """The lines of a structured program as token lists: str = token, (kind, canonical filler) = gap.  With every gap at its canonical
    filler this is exactly progen.render (asserted for every case of the spelling streams)."""
    out = [] if out is None else out
    ex = progen.expr_text
    for s in block:
        k = s['k']
        if k == 'expr':
            out.append(_tline(indent, s['name'], _O1, '=', _O1, ex(s['e'])) if s.get('name') else _tline(indent, ex(s['e'])))
        elif k == 'ret':
            out.append(_tline(indent, 'return', _R1, ex(s['e'])) if s.get('e') else _tline(indent, 'return'))
        elif k == 'if':
            out.append(_tline(indent, 'if', _R1, ex(s['c']), _O0, ':'))
            token_lines(s['t'], indent + 1, out)
            els = s.get('else')
            while els is not None:
                if els['k'] == 'else':
                    out.append(_tline(indent, 'else', _O0, ':'))
                    token_lines(els['b'], indent + 1, out)
                    els = None
                else:
                    out.append(_tline(indent, 'elif', _R1, ex(els['c']), _O0, ':'))
                    token_lines(els['t'], indent + 1, out)
                    els = els.get('else')
            out.append(_tline(indent, 'endif'))
        elif k == 'while':
            out.append(_tline(indent, 'while', _R1, ex(s['c']), _O0, ':'))
            token_lines(s['b'], indent + 1, out)
            out.append(_tline(indent, 'endwhile'))
        elif k == 'for':
            ix = [_O0, ',', _O1, s['index']] if s.get('index') else []
            out.append(_tline(indent, 'for', _R1, s['value'], *ix, _R1, 'in', _R1, ex(s['vals']), _O0, ':'))
            token_lines(s['b'], indent + 1, out)
            out.append(_tline(indent, 'endfor'))
        elif k in ('break', 'continue'):
            out.append(_tline(indent, k))
        elif k == 'func':
            parts = (['async', _R1] if s.get('async') else []) + ['function', _R1, s['name'], _O0, '(', _O0]
            for i, a in enumerate(s['args']):
                parts += ([_O0, ',', _O1] if i else []) + [a]
            if s.get('lastArgArray'):
                parts += [_O0, '...']
            if s['args']:
                parts.append(_O0)
            out.append(_tline(indent, *parts, ')', _O0, ':'))
            token_lines(s['b'], indent + 1, out)
            out.append(_tline(indent, 'endfunction'))
        elif k == 'label':
            out.append(_tline(indent, s['name'], _O0, ':'))
        elif k == 'jump':
            if s.get('c'):
                out.append(_tline(indent, 'jumpif', _O1, '(', _O0, ex(s['c']), _O0, ')', _R1, s['name']))
            else:
                out.append(_tline(indent, 'jump', _R1, s['name']))
        elif k == 'include':
            for inc_ in s['includes']:
                url = '<' + inc_['url'] + '>' if inc_.get('system') else "'" + inc_['url'].replace("'", "\\'") + "'"
                out.append(_tline(indent, 'include', _R1, url))
        else:
            raise ValueError(k)
    return out


# fillers.  White space inside a line: everything Python's `\s` matches that is not the line feed (a CR that is not followed by LF
# does not end a line either)
WS_PLAIN = [' ', '\t', '  ', ' \t ']
WS_EXOTIC = ['\x0b', '\x0c', '\r', '\x1c', '\x1f', '\x85', '\xa0', '\u1680', '\u2003', '\u2028', '\u2029', '\u202f', '\u205f', '\u3000']
# line continuations (legal in a leading, optional or required gap; the parts are stripped and joined with one blank): bare, with
# white space on both sides, white space between backslash and line end, CR LF, a blank line / a comment line / a second
# continuation inside the continued statement
CONTINUATIONS = ['\\\n', ' \\\n    ', '\t\\ \t\n\t', ' \\\r\n  ', ' \\\n\n  ', ' \\\n  # else:\n  ', ' \\\n \\\n ', '\xa0\\\u3000\n\u2003']
# lines that are no statements
NOISE_LINES = ['', '   ', '\t', '# comment', '    # else:', '#endif', '# if x: \\', '\xa0', '#']
EOLS = ['\n', '\r\n']
FINALS = ['', '\n', '\r\n', '\r', '\n\n', '\n# end', '\n   ']


def gap_fillers(kind, exotic=WS_EXOTIC):
    """every filler class of one gap kind"""
    if kind == TRAIL:
        return [''] + WS_PLAIN + exotic
    return ([''] if kind in (LEAD, OPT) else []) + WS_PLAIN + exotic + CONTINUATIONS


UNIFORM_STYLES = {
    # name: (lead, opt, req, trail, eol, noise line between statements, final)   lead None = canonical indentation
    'tight': ('', '', ' ', '', '\n', None, ''),
    'wide': (None, '  ', '   ', '  ', '\n', None, '\n'),
    'tabs': ('\t', '\t', '\t', '\t', '\n', None, '\n'),
    'crlf': (None, ' ', ' ', '', '\r\n', None, '\r\n'),
    'crlf-final-cr': (None, None, None, ' ', '\r\n', None, '\r'),
    'comments': (None, None, None, '', '\n', '    # else:', '\n# end'),
    'blank-lines': (None, None, None, '', '\n', '', '\n\n'),
    'ws-lines': (None, None, None, '', '\r\n', ' \t ', '\n   '),
    'continued': (None, ' \\\n    ', ' \\\n    ', '', '\n', None, '\n'),
    'continued-bare': ('', '\\\n', '\\\n', '', '\n', None, ''),
    'continued-crlf': (None, ' \\\r\n  ', ' \\\r\n  ', ' ', '\r\n', None, '\r\n'),
    'continued-comments': (None, ' \\\n  # else:\n  ', ' \\\n\n  ', '', '\n', '# endif', '\n'),
}
for _ws in WS_EXOTIC:
    UNIFORM_STYLES['ws-%04x' % ord(_ws)] = (_ws, _ws, _ws, _ws, '\n', None, '')
STYLE_NAMES = sorted(UNIFORM_STYLES)


def spell(tlines, style):
    """text of token lines under a style (a JSON-able dict):
         {'kind': 'canon'}                                       progen.render
         {'kind': 'single', 'line': i, 'gap': j, 'fill': s}      one gap of one line changed
         {'kind': 'uniform', 'name': n}                          UNIFORM_STYLES[n] in every gap of every line
         {'kind': 'random', 'seed': k, 'p': q}                   every gap changed with probability q to a random filler of its kind
       optional for all: 'eol', 'final', 'noise' (a non-statement line in front of every statement line)"""
    import random
    kind = style['kind']
    rnd = random.Random(style['seed']) if kind == 'random' else None
    uni = UNIFORM_STYLES[style['name']] if kind == 'uniform' else None
    eol = style.get('eol', uni[4] if uni else '\n')
    noise = style.get('noise', uni[5] if uni else None)
    final = style.get('final', uni[6] if uni else '')
    out = []
    for li, tl in enumerate(tlines):
        buf, gi = [], 0
        for part in tl:
            if isinstance(part, str):
                buf.append(part)
                continue
            gkind, canon = part
            fill = canon
            if kind == 'single':
                if li == style['line'] and gi == style['gap']:
                    fill = style['fill']
            elif kind == 'uniform':
                u = uni[(LEAD, OPT, REQ, TRAIL).index(gkind)]
                fill = canon if u is None else u
            elif kind == 'random':
                if rnd.random() < style.get('p', 0.3):
                    fill = rnd.choice(gap_fillers(gkind))
            buf.append(fill)
            gi += 1
        if rnd is not None:
            if rnd.random() < 0.12:
                out.append(rnd.choice(NOISE_LINES) + rnd.choice(EOLS))
            out.append(''.join(buf) + (rnd.choice(EOLS) if li + 1 < len(tlines) else ''))
        else:
            if noise is not None:
                out.append(noise + eol)
            out.append(''.join(buf) + (eol if li + 1 < len(tlines) else ''))
    if rnd is not None:
        final = rnd.choice(FINALS)
    return ''.join(out) + final


def style_tag(style):
    if style is None or style['kind'] == 'canon':
        return 'spell:canon'
    if style['kind'] == 'uniform':
        return 'spell:' + style['name']
    return 'spell:' + style['kind']


def filler_class(fill):
    if fill == '':
        return 'none'
    if '\\' in fill:
        return 'continuation'
    return 'plain' if fill in WS_PLAIN else 'ws-%04x' % ord(fill[0])


def line_signature(tl):
    """what kind of statement line this is (names and expressions abstracted)"""
    toks = [p for p in tl if isinstance(p, str)]
    head = toks[0]
    if head in ('if', 'elif', 'else', 'endif', 'while', 'endwhile', 'for', 'endfor', 'break', 'continue', 'return', 'function', 'async',
                'endfunction', 'jump', 'jumpif', 'include'):
        return head + ':%d' % len(toks)
    if len(toks) == 2 and toks[1] == ':':
        return 'label'
    return 'assign' if len(toks) > 1 and toks[1] == '=' else 'exprstmt'


def spelling_hosts():
    """small programs in which every statement line kind of the language occurs where its lowering matters: [(name, prog, raw)]"""
    lt = lambda a, k: wf_binary('<', var(a), num(k))  # noqa: E731
    arr = call('arrayNew', num(1), num(2), num(3))
    chain = _if(_even(2), [{'k': 'expr', 'name': 'o', 'e': num(1)}, {'k': 'continue'}],
                {'k': 'elif', 'c': _even(3), 't': [{'k': 'expr', 'name': 'o', 'e': num(2)}, {'k': 'break'}],
                 'else': {'k': 'else', 'b': [{'k': 'expr', 'name': 'o', 'e': num(3)}]}})
    loop = [{'k': 'expr', 'name': 'n', 'e': num(0)}, {'k': 'while', 'c': lt('n', 4), 'b': [inc('n'), chain, inc('m')]}]
    fors = [{'k': 'for', 'value': 'v', 'index': 'i', 'vals': arr, 'b': [_if(wf_binary('==', var('v'), num(2)), [{'k': 'continue'}]), inc('s')]},
            {'k': 'for', 'value': 'w', 'index': None, 'vals': arr, 'b': [_if(_ge2(), [{'k': 'break'}], {'k': 'else', 'b': [inc('n')]})]}]
    funcs = [dict(func('fa', [_if(var('a'), [{'k': 'ret', 'e': var('b')}], {'k': 'else', 'b': [{'k': 'ret', 'e': None}]})], ['a', 'b']),
                  lastArgArray=True),
             dict(func('fb', [{'k': 'while', 'c': lt('q', 2), 'b': [inc('q')]}, {'k': 'ret', 'e': var('q')}], ['q']), **{'async': True}),
             func('fc', [{'k': 'expr', 'name': None, 'e': call('fa', num(1), num(2))}], ['p', 'q', 'r']),
             func('g', [_if(var('zz'), [{'k': 'ret', 'e': num(1)}], {'k': 'elif', 'c': var('n'), 't': [inc('n')], 'else': None})]),
             {'k': 'expr', 'name': 'r1', 'e': call('fa', num(1), num(2), num(3))}, {'k': 'expr', 'name': 'r2', 'e': call('fb', num(0))},
             {'k': 'expr', 'name': None, 'e': call('fc')}, {'k': 'expr', 'name': 'r3', 'e': call('g')}]
    raw = [{'k': 'expr', 'name': 'n', 'e': num(0)}, {'k': 'label', 'name': 'top'}, inc('n'),
           _if(_even(2), [inc('m')], {'k': 'else', 'b': [{'k': 'jump', 'name': 'skip', 'c': None}]}),
           {'k': 'label', 'name': 'skip'}, {'k': 'jump', 'name': 'top', 'c': lt('n', 3)},
           func('fa', [{'k': 'label', 'name': 'top'}, inc('q'), {'k': 'jump', 'name': 'top', 'c': lt('q', 2)},
                       {'k': 'while', 'c': lt('q', 4), 'b': [inc('q')]}], ['q']),
           {'k': 'expr', 'name': None, 'e': call('fa', num(0))}]
    incl = [{'k': 'include', 'includes': [{'url': 'a.bare', 'system': False}, {'url': 'b.bare', 'system': True}]},
            _if(var('x'), [{'k': 'include', 'includes': [{'url': "it's.bare", 'system': False}]}], {'k': 'else', 'b': [inc('x')]}),
            func('fa', [{'k': 'include', 'includes': [{'url': 'c.bare', 'system': True}]}, {'k': 'while', 'c': lt('q', 2), 'b': [inc('q')]}], ['q'])]
    hosts = [('loop-chain', loop, False),
             ('loop-chain-fn', [func('fa', loop + [{'k': 'ret', 'e': var('m')}]), {'k': 'expr', 'name': 'r', 'e': call('fa')}], False),
             ('fors', fors, False),
             ('fors-fn', [func('fa', fors + [{'k': 'ret', 'e': var('s')}]), {'k': 'expr', 'name': 'r', 'e': call('fa')}], False),
             ('functions', funcs, False), ('raw', raw, True), ('includes', incl, False)]
    return [(name, progen.assign_fids(prog), raw_) for name, prog, raw_ in hosts]


def single_sites(prog):
    """(line index, gap index, gap kind, line signature) of the first line of every distinct token list of a program"""
    seen = set()
    for li, tl in enumerate(token_lines(prog)):
        key = tuple(p if isinstance(p, str) else p[0] for p in tl[1:])
        if key in seen:
            continue
        seen.add(key)
        gi = 0
        for part in tl:
            if not isinstance(part, str):
                yield li, gi, part[0], line_signature(tl)
                gi += 1


def single_cases(exotic=WS_EXOTIC):
    """EVERY gap of every line kind of every host x every filler class of that gap (one deviation from the canonical spelling each)"""
    for name, prog, raw_ in spelling_hosts():
        for li, gi, gkind, sig in single_sites(prog):
            for fill in gap_fillers(gkind, exotic):
                yield (prog, ['spelling-single', 'host:' + name, 'line:' + sig, 'gap:' + gkind, 'fill:' + filler_class(fill)],
                       {'kind': 'single', 'line': li, 'gap': gi, 'fill': fill}), raw_
        for extra in ([{'final': f} for f in FINALS[1:]] + [{'eol': '\r\n'}] + [{'noise': nl} for nl in NOISE_LINES]):
            yield (prog, ['spelling-single', 'host:' + name, 'lines:' + next(iter(extra))], dict({'kind': 'canon'}, **extra)), raw_


# names that begin with (or differ only in case from) a statement keyword: the line classifier must not take a line that starts with
# such a name for the keyword's statement
LOOKALIKE = {
    'n': 'iff', 'm': 'elsewhere', 'o': 'endiff', 's': 'whiles', 'g': 'ELSE', 'h': 'Endif', 'v': 'forx', 'w': 'in_', 'p': 'returns',
    'q': 'breaks', 'r': 'continued', 'r1': 'jumps', 'r2': 'jumpifx', 'r3': 'includes', 'x': 'asyncx', 'zz': 'endwhile_', 'a': 'elif_',
    'b': 'functional', 'i': 'endfor2', 'fa': 'functions', 'fb': 'endfunctions', 'fc': 'breakfast', 'top': 'elsex', 'skip': 'Continue',
    'v0': 'if_', 'v1': 'else_', 'v2': 'while1', 'i0': 'For', 'i1': 'Break', 'i2': 'RETURN',
}


def rename(obj, table=None):
    """a structured program with its user identifiers (variables, functions, parameters, loop names, labels) renamed"""
    table = LOOKALIKE if table is None else table
    if isinstance(obj, list):
        return [rename(x, table) for x in obj]
    if not isinstance(obj, dict):
        return obj
    out = {}
    for k, v in obj.items():
        if k in ('name', 'value', 'index', 'variable') and isinstance(v, str):
            out[k] = table.get(v, v)
        elif k == 'args' and v and all(isinstance(a, str) for a in v):
            out[k] = [table.get(a, a) for a in v]
        else:
            out[k] = rename(v, table)
    return out


# ---------------------------------------------------------------------------------------------------------------------
# ill-nested family: "every model returned by parse_script" also quantifies over the texts the parser OUGHT to reject.  A break /
# continue / else / elif / end... line binds to the innermost open block OF ITS OWN SCOPE; a function defined while global blocks are
# open must not see them.  Whatever the parser accepts must still be well formed (jumps to labels of the same scope), and what the
# line-at-a-time mirror rejects the parser must reject too.
#   (1) stray break / continue (wire form, so the mirror answers too): every chain of <= 2 global constructs around the function
#       definition x every chain of if-variants (child in every branch) around the stray statement inside the function x break /
#       continue x what else the function holds (nothing, a loop closed before, a for with its own continue closed before, a loop after,
#       the function's own while / for AROUND the chain = the accepted twin) x a closed global loop in front or not; the same at global
#       scope without a function.
#   (2) single-line edits of well-nested hosts (text only - an unbalanced line sequence has no wire form, so no Lean side: the
#       implementation-side oracles judge every model the parser still returns): every block line deleted / duplicated / swapped with
#       its neighbour, every block keyword line inserted at every position.
# ---------------------------------------------------------------------------------------------------------------------

OUTER_LEVELS = [('while', 0), ('for', 0), ('forix', 0), ('if', 0), ('ifelse', 1), ('ifelif', 1), ('ifelifelse', 2)]
INNER_LEVELS = [('if', 0), ('ifelse', 0), ('ifelse', 1), ('ifelif', 1), ('ifelifelse', 1), ('ifelifelse', 2)]
STRAY_SIBLINGS = ['none', 'closed-while-before', 'closed-for-continue-before', 'loop-after', 'own-while-around', 'own-for-around']
STRAY_SIBLINGS_QUICK = ['none', 'closed-for-continue-before', 'loop-after', 'own-for-around']


def chains(levels, maxdepth):
    """every chain of at most `maxdepth` levels (as shapes without break / continue flags)"""
    yield ()
    if maxdepth > 0:
        for chain in chains(levels, maxdepth - 1):
            for name, slot in levels:
                yield chain + ((name, slot, False, False),)


def stray_specs(outer_depth, inner_depth, siblings, gsibs):
    for placement in ('fn', 'global'):
        for outer in (chains(OUTER_LEVELS, outer_depth) if placement == 'fn' else [()]):
            for inner in chains(INNER_LEVELS, inner_depth):
                for stray in ('break', 'continue'):
                    for sibling in siblings:
                        for gsib in gsibs:
                            if gsib == 'none' or len(outer) <= 1:      # the global sibling axis only under <= 1 open global block
                                yield placement, outer, inner, stray, sibling, gsib


def stray_program(placement, outer, inner, stray, sibling, gsib):
    lt = lambda a, k: wf_binary('<', var(a), num(k))  # noqa: E731
    arr = call('arrayNew', num(1), num(2), num(3))
    core = build(inner, 0, [{'k': stray}])
    closed_while = {'k': 'while', 'c': lt('q', 1), 'b': [inc('q')]}
    closed_for = {'k': 'for', 'value': 'w', 'index': None, 'vals': arr,
                  'b': [_if(wf_binary('==', var('w'), num(2)), [{'k': 'continue'}]), inc('s')]}
    if sibling == 'closed-while-before':
        body = [closed_while] + core
    elif sibling == 'closed-for-continue-before':
        body = [closed_for] + core
    elif sibling == 'loop-after':
        body = core + [{'k': 'while', 'c': lt('q', 1), 'b': [inc('q'), _if(var('q'), [{'k': 'break'}])]}]
    elif sibling == 'own-while-around':
        body = [{'k': 'while', 'c': lt('q', 2), 'b': [inc('q')] + core + [inc('s')]}]
    elif sibling == 'own-for-around':
        body = [{'k': 'for', 'value': 'w', 'index': None, 'vals': arr, 'b': [inc('q')] + core + [inc('s')]}]
    else:
        body = core
    body = [{'k': 'expr', 'name': 'n', 'e': num(0)}, {'k': 'expr', 'name': 'q', 'e': num(0)}] + body
    pre = [{'k': 'expr', 'name': 'g', 'e': num(0)}, {'k': 'expr', 'name': 'n', 'e': num(0)}]
    if gsib == 'closed-before':
        pre.append({'k': 'for', 'value': 'u', 'index': None, 'vals': arr,
                    'b': [_if(wf_binary('==', var('u'), num(2)), [{'k': 'continue'}]), inc('g')]})
    if placement == 'global':
        return progen.assign_fids(pre + body)
    fn = func('fa', body + [{'k': 'ret', 'e': var('n')}], ['p'])
    return progen.assign_fids(pre + build(outer, 0, [inc('g'), fn, inc('g')]) + [{'k': 'expr', 'name': 'r', 'e': call('fa', num(1))}])


def stray_cases(chunk):
    cases = []
    for placement, outer, inner, stray, sibling, gsib in chunk:
        kinds = {lvl[0] for lvl in outer}
        tags = ['stray', 'stray:' + stray, 'placement:' + placement, 'outer-depth%d' % len(outer), 'inner-depth%d' % len(inner),
                'sibling:' + sibling, 'gsib:' + gsib,
                'outer-loop-open' if kinds & {'while', 'for', 'forix'} else 'no-outer-loop']
        cases.append((stray_program(placement, outer, inner, stray, sibling, gsib), tags))
    return cases


BLOCK_HEADS = ('if ', 'elif ', 'else', 'endif', 'while ', 'endwhile', 'for ', 'endfor', 'function ', 'async ', 'endfunction', 'break',
               'continue')
INSERT_LINES = ['break', 'continue', 'else:', 'elif n:', 'endif', 'endwhile', 'endfor', 'endfunction', 'function zq():', 'if n:',
                'while n:', 'for zv in zz:']


def line_edit_hosts(thorough=False):
    """[(name, lines)] well-nested programs without raw labels / jumps"""
    s1 = (('for', 0, True, True), ('ifelifelse', 1, True, False))
    s2 = (('while', 0, False, True), ('ifelse', 1, False, True))
    s3 = (('ifelif', 1, False, False), ('forix', 0, True, False))
    picks = [(s1, 'global'), (s1, 'blockfn'), (s2, 'blockfn'), (s3, 'function'), (s2, 'multi')]
    if thorough:
        picks += [(s1, 'function'), (s1, 'multi'), (s2, 'global'), (s2, 'function'), (s3, 'global'), (s3, 'blockfn'), (s3, 'multi')]
    hosts = [('%s/%s' % ('+'.join(lvl[0] for lvl in shape), context), progen.render(in_context(build(shape), context)))
             for shape, context in picks]
    for name, prog, raw_ in spelling_hosts():
        if not raw_ and name in ('loop-chain-fn', 'fors-fn', 'functions'):
            hosts.append((name, progen.render(prog)))
    # a function (with its own loop and an if chain around a continue) defined DIRECTLY inside each kind of open global block
    lvl = lambda name, slot: (name, slot, False, False)  # noqa: E731
    outers = [(lvl('while', 0),), (lvl('for', 0),), (lvl('if', 0),), (lvl('ifelse', 1),)]
    if thorough:
        outers += [(lvl('forix', 0),), (lvl('ifelif', 1),), (lvl('while', 0), lvl('for', 0)), (lvl('for', 0), lvl('ifelifelse', 2))]
    for outer in outers:
        prog = stray_program('fn', outer, (lvl('ifelse', 1),), 'continue', 'own-for-around', 'none')
        hosts.append(('fn-in-' + '+'.join('%s.%d' % l[:2] for l in outer), progen.render(prog)))
    return hosts


def line_edits(lines):
    """(edit kind, edited line list): one structural line deleted / duplicated / swapped with the next / inserted"""
    is_block = [ln.strip().startswith(BLOCK_HEADS) for ln in lines]
    for i, ln in enumerate(lines):
        if is_block[i]:
            yield 'delete:' + ln.split()[0].rstrip(':'), lines[:i] + lines[i + 1:]
            yield 'duplicate:' + ln.split()[0].rstrip(':'), lines[:i + 1] + lines[i:]
        if i + 1 < len(lines) and (is_block[i] or is_block[i + 1]) and lines[i].strip() != lines[i + 1].strip():
            yield 'swap', lines[:i] + [lines[i + 1], lines[i]] + lines[i + 2:]
    for i in range(len(lines) + 1):
        for ins in INSERT_LINES:
            yield 'insert:' + ins.split()[0].rstrip(':'), lines[:i] + [ins] + lines[i:]


# ---------------------------------------------------------------------------------------------------------------------
# expression-spelling family: the schema clause is about the WHOLE model, expressions included, and the structured renderer spells
# every expression in one canonical way (no sign on a literal, single quotes, plain names, one blank around operators).  Here every
# lexical alternative of the expression grammar (and its near misses, which the parser must reject or still map into the schema)
# stands at every expression site of the statement grammar.  Implementation-side oracles (validate_script, the harness-pinned walk of
# the published schema, scope / lint / execution as everywhere); the Lean side is the schema model of drv_c07x (Schema.validate /
# readScript / scriptJ on the returned model) - the expression TEXT grammar itself is C02 / C06, not modelled here.
# ---------------------------------------------------------------------------------------------------------------------

EXPR_SPELLINGS = [
    # number literals: canonical, signed, fraction forms, exponent forms, leading zeros, magnitude; malformed neighbours
    ('number:canon', '1'), ('number:canon', '0.5'), ('number:canon', '0'),
    ('number:plus', '+1'), ('number:plus', '+0.5'), ('number:plus', '+0'), ('number:plus', '+1.'), ('number:plus', '+1e+3'), ('number:plus', '+007'),
    ('number:minus', '-1'), ('number:minus', '-0.5'), ('number:minus', '-0'), ('number:minus', '-1e-3'),
    ('number:forms', '1.'), ('number:forms', '1.50'), ('number:forms', '007'), ('number:forms', '1e+3'), ('number:forms', '1e-3'),
    ('number:forms', '1.5e+2'), ('number:forms', '12345678901234567890'), ('number:forms', '1e+308'), ('number:forms', '1e-400'), ('number:forms', '1e+400'),
    ('number:near-miss', '1e3'), ('number:near-miss', '1E+3'), ('number:near-miss', '.5'), ('number:near-miss', '0x10'), ('number:near-miss', '1_0'),
    ('number:near-miss', '+ 1'), ('number:near-miss', '++1'), ('number:near-miss', '+-1'), ('number:near-miss', '1..2'), ('number:near-miss', '+.5'),
    # unary operators on every operand kind; unary plus is not in the language
    ('unary', '- 1'), ('unary', '--1'), ('unary', '-+1'), ('unary', '- -1'), ('unary', '!+1'), ('unary', '!-1'), ('unary', '-n'), ('unary', '!n'),
    ('unary', '! n'), ('unary', '!!n'), ('unary', '-!n'), ('unary', '!-n'), ('unary', '-(n)'), ('unary', '-fb()'), ("unary", "-'a'"), ('unary', '-[n]'),
    ('unary:plus', '+n'), ('unary:plus', '+(n)'), ('unary:plus', '+fb()'), ('unary:plus', "+'a'"), ('unary:plus', '+[n]'), ('unary:plus', '+ n'),
    ('unary:plus', '+(1)'), ('unary:plus', '+!n'), ('unary:plus', '!+n'), ('unary:plus', '-+n'), ('unary:plus', '+true'),
    ('unary:other', '~n'), ('unary:other', 'not n'), ('unary:other', '*n'), ('unary:other', '/n'), ('unary:other', '&n'),
    # strings
    ('string:canon', "'a'"), ('string:canon', "''"),
    ('string:double', '"a"'), ('string:double', '""'), ('string:double', '"it\'s"'), ('string:double', '"say \\"x\\""'), ('string:double', '"a\\\\"'),
    ('string:escape', "'it\\'s'"), ('string:escape', "'a\\\\'"), ('string:escape', "'a\\nb'"), ('string:escape', "'a\"b'"),
    ('string:content', "'#'"), ('string:content', "'a: b'"), ('string:content', "' '"), ('string:content', "'+1'"), ('string:content', "'é '"),
    ('string:content', "'endif'"), ('string:content', "')'"), ('string:content', "'\\\\\\''"),
    ('string:near-miss', "'a"), ('string:near-miss', '"a\''), ('string:near-miss', "'a''b'"), ('string:near-miss', '`a`'),
    # variables
    ('variable:canon', 'n'), ('variable:forms', '_x1'), ('variable:forms', 'true'), ('variable:forms', 'null'), ('variable:forms', 'endif'),
    ('variable:bracket', '[n]'), ('variable:bracket', '[ n ]'), ('variable:bracket', '[a b]'), ('variable:bracket', '[a\\]b]'),
    ('variable:bracket', '[a.b]'), ('variable:bracket', '[+1]'), ('variable:bracket', "['a']"), ('variable:bracket', '[a\\\\]'),
    ('variable:near-miss', '[]'), ('variable:near-miss', '[n'), ('variable:near-miss', '1n'), ('variable:near-miss', 'n.m'), ('variable:near-miss', '$n'),
    # calls
    ('call:canon', 'fb()'), ('call:canon', 'fb(1, 2)'),
    ('call:forms', 'fb( )'), ('call:forms', 'fb (1)'), ('call:forms', 'fb(1,2)'), ('call:forms', 'fb( 1 , 2 )'), ('call:forms', 'fb(+1, -1)'),
    ('call:forms', 'fb(fb(+1))'), ('call:forms', 'fb(-n, !n, (n))'), ('call:forms', 'fb(1)(2)'), ('call:forms', "fb('a', \"b\", [c])"),
    ('call:near-miss', 'fb(1,)'), ('call:near-miss', 'fb(,1)'), ('call:near-miss', 'fb(1 2)'), ('call:near-miss', 'fb(1'), ('call:near-miss', 'fb)'),
    ('call:near-miss', 'fb(+)'), ('call:near-miss', 'fb(1, +n)'),
    # groups
    ('group:canon', '(1)'), ('group:forms', '( 1 )'), ('group:forms', '((1))'), ('group:forms', '(+1)'), ('group:forms', '(-n)'), ('group:forms', '(n)(m)'),
    ('group:near-miss', '()'), ('group:near-miss', '(1'), ('group:near-miss', '1)'), ('group:near-miss', '(+n)'), ('group:near-miss', '(1, 2)'),
    # binary operators: every operator tight and wide, signed right operands, chains
    ('binary:signed', '1 + +1'), ('binary:signed', '1 - -1'), ('binary:signed', '1 ++1'), ('binary:signed', '1+-1'), ('binary:signed', '1-+1'),
    ('binary:signed', 'n+1'), ('binary:signed', 'n -1'), ('binary:signed', 'n +1'), ('binary:signed', '2**-1'), ('binary:signed', '2 ** +1'),
    ('binary:signed', 'n<-1'), ('binary:signed', 'n*+2'), ('binary:signed', 'n == +1'), ('binary:signed', '1 + + 1'), ('binary:signed', 'n && +1'),
    ('binary:signed', 'n + +m'), ('binary:signed', 'n - +m'), ('binary:signed', 'n ** +m'), ('binary:signed', 'n || +fb()'),
    ('binary:chain', '1 + 2 * 3 ** 4'), ('binary:chain', '1 ** 2 * 3 + 4'), ('binary:chain', 'n < 1 == m > 2 && 1 || 0'), ('binary:chain', '-n ** 2'),
    ('binary:chain', '!n && !m'), ('binary:chain', '1 - 2 - 3'), ('binary:chain', '2 ** 3 ** 2'),
    ('binary:near-miss', '1 +'), ('binary:near-miss', '* 1'), ('binary:near-miss', '1 = 1'), ('binary:near-miss', '1 === 1'), ('binary:near-miss', '1 <> 1'),
    ('binary:near-miss', '1 & 1'), ('binary:near-miss', '1 | 1'), ('binary:near-miss', '1 // 1'), ('binary:near-miss', '1 ^ 1'), ('binary:near-miss', '1 and 1'),
    ('binary:near-miss', '1 =< 1'), ('binary:near-miss', '1 ! 1'), ('binary:near-miss', '1 1'),
] + [('binary:op-tight', 'n%s1' % op) for op in ('**', '*', '/', '%', '+', '-', '<=', '<', '>=', '>', '==', '!=', '&&', '||')] \
  + [('binary:op-wide', 'n  %s  m' % op) for op in ('**', '*', '/', '%', '+', '-', '<=', '<', '>=', '>', '==', '!=', '&&', '||')]

# (site, lines with the placeholder {E}, raw label / jump lines present)
EXPR_SITES = [
    ('assign', ['x = {E}'], False),
    ('exprstmt-arg', ['fb({E})'], False),
    ('arg-second', ['x = fb(1, {E})'], False),
    ('return', ['return {E}'], False),
    ('if', ['if {E}:', '    x = 1', 'endif'], False),
    ('elif', ['if n:', '    x = 1', 'elif {E}:', '    x = 2', 'else:', '    x = 3', 'endif'], False),
    ('while', ['while {E}:', '    n = n + 1', '    break', 'endwhile'], False),
    ('for', ['for v in {E}:', '    n = n + 1', 'endfor'], False),
    ('jumpif', ['jumpif ({E}) lab', 'n = n + 1', 'lab:'], True),
    ('binary-right', ['x = n + {E}'], False),
    ('binary-right-tight', ['x = n+{E}'], False),
    ('binary-left', ['x = {E} * 2'], False),
    ('binary-left-tight', ['x = {E}-1'], False),
    ('pow-right', ['x = 2 ** {E}'], False),
    ('unary-minus-operand', ['x = -{E}'], False),
    ('unary-not-operand', ['x = !{E}'], False),
    ('group', ['x = ({E})'], False),
]
EXPR_CONTEXTS = ['global', 'function']


def expr_site_text(lines, spelling, context):
    lines = [ln.replace('{E}', spelling) for ln in lines]
    if context == 'global':
        return '\n'.join(['n = 0'] + lines)
    return '\n'.join(['function fa(n):'] + ['    ' + ln for ln in lines] + ['endfunction', 'fa(0)'])


def expr_spelling_cases():
    for site, lines, raw_ in EXPR_SITES:
        for context in EXPR_CONTEXTS:
            for cls, spelling in EXPR_SPELLINGS:
                yield site, context, cls, spelling, raw_, expr_site_text(lines, spelling, context)


# ---------------------------------------------------------------------------------------------------------------------
# the property's own oracles, on the implementation's output (independent of the Lean model)
# ---------------------------------------------------------------------------------------------------------------------

# the published schema (model.py, `BARE_SCRIPT_TYPES`) as pinned data of the harness: member sets, unions, enumerations, `len > 0`.
# Scalars are judged the way the schema validator reads them (a number is an int / float that is no bool).
PUBLISHED_BINARY_OPS = ('**', '*', '/', '%', '+', '-', '<=', '<', '>=', '>', '==', '!=', '&&', '||')
PUBLISHED_UNARY_OPS = ('-', '!')


def schema_defects(model, limit=6):
    """violations of the published BareScript schema in a model (walk written from the schema text, independent of validate_script)"""
    out = []

    def bad(path, msg):
        if len(out) < limit:
            out.append('%s: %s' % (path or '<model>', msg))

    def struct(path, v, required, optional=()):
        if not isinstance(v, dict):
            bad(path, 'not an object: %r' % (v,))
            return False
        for k in v:
            if k not in required and k not in optional:
                bad(path, 'unknown member %r' % (k,))
        for k in required:
            if k not in v:
                bad(path, 'missing member %r' % (k,))
        return True

    def union(path, v, members):
        if not isinstance(v, dict) or len(v) != 1 or next(iter(v)) not in members:
            bad(path, 'not exactly one member of %s: %r' % ('/'.join(members), sorted(v) if isinstance(v, dict) else v))
            return None, None
        return next(iter(v.items()))

    def text(path, v):
        if not isinstance(v, str):
            bad(path, 'not a string: %r' % (v,))

    def flag(path, v):
        if not isinstance(v, bool):
            bad(path, 'not a bool: %r' % (v,))

    def expr(path, e):
        k, v = union(path, e, ('number', 'string', 'variable', 'function', 'binary', 'unary', 'group'))
        p = '%s.%s' % (path, k)
        if k == 'number':
            if isinstance(v, bool) or not isinstance(v, (int, float)):
                bad(p, 'not a number: %r' % (v,))
        elif k in ('string', 'variable'):
            text(p, v)
        elif k == 'group':
            expr(p, v)
        elif k == 'unary':
            if struct(p, v, ('op', 'expr')):
                if 'op' in v and v['op'] not in PUBLISHED_UNARY_OPS:
                    bad(p + '.op', '%r is no UnaryExpressionOperator' % (v['op'],))
                if 'expr' in v:
                    expr(p + '.expr', v['expr'])
        elif k == 'binary':
            if struct(p, v, ('op', 'left', 'right')):
                if 'op' in v and v['op'] not in PUBLISHED_BINARY_OPS:
                    bad(p + '.op', '%r is no BinaryExpressionOperator' % (v['op'],))
                for side in ('left', 'right'):
                    if side in v:
                        expr('%s.%s' % (p, side), v[side])
        elif k == 'function':
            if struct(p, v, ('name',), ('args',)):
                if 'name' in v:
                    text(p + '.name', v['name'])
                if 'args' in v:
                    if not isinstance(v['args'], list):
                        bad(p + '.args', 'not an array')
                    else:
                        for i, a in enumerate(v['args']):
                            expr('%s.args.%d' % (p, i), a)

    def statements(path, stmts):
        if not isinstance(stmts, list):
            bad(path, 'not an array')
            return
        for i, st in enumerate(stmts):
            k, v = union('%s.%d' % (path, i), st, ('expr', 'jump', 'return', 'label', 'function', 'include'))
            p = '%s.%d.%s' % (path, i, k)
            if k == 'label':
                text(p, v)
            elif k == 'expr':
                if struct(p, v, ('expr',), ('name',)):
                    if 'name' in v:
                        text(p + '.name', v['name'])
                    if 'expr' in v:
                        expr(p + '.expr', v['expr'])
            elif k == 'jump':
                if struct(p, v, ('label',), ('expr',)):
                    if 'label' in v:
                        text(p + '.label', v['label'])
                    if 'expr' in v:
                        expr(p + '.expr', v['expr'])
            elif k == 'return':
                if struct(p, v, (), ('expr',)) and 'expr' in v:
                    expr(p + '.expr', v['expr'])
            elif k == 'include':
                if struct(p, v, ('includes',)) and 'includes' in v:
                    incs = v['includes']
                    if not isinstance(incs, list) or not incs:
                        bad(p + '.includes', 'not a non-empty array')
                    else:
                        for j, inc_ in enumerate(incs):
                            q = '%s.includes.%d' % (p, j)
                            if struct(q, inc_, ('url',), ('system',)):
                                if 'url' in inc_:
                                    text(q + '.url', inc_['url'])
                                if 'system' in inc_:
                                    flag(q + '.system', inc_['system'])
            elif k == 'function':
                if struct(p, v, ('name', 'statements'), ('async', 'args', 'lastArgArray')):
                    if 'name' in v:
                        text(p + '.name', v['name'])
                    for fl in ('async', 'lastArgArray'):
                        if fl in v:
                            flag('%s.%s' % (p, fl), v[fl])
                    if 'args' in v:
                        if not isinstance(v['args'], list) or not v['args']:
                            bad(p + '.args', 'not a non-empty array')
                        else:
                            for j, a in enumerate(v['args']):
                                text('%s.args.%d' % (p, j), a)
                    if 'statements' in v:
                        statements(p + '.statements', v['statements'])

    if struct('', model, ('statements',)) and 'statements' in model:
        statements('statements', model['statements'])
    return out


def scopes_of(statements, name='<global>'):
    """(scope name, statement list) for the global list and, recursively, every function body"""
    yield name, statements
    for st in statements:
        if 'function' in st:
            yield from scopes_of(st['function']['statements'], st['function']['name'])


def scope_defects(statements, generated_only=False):
    """Violations of: every jump targets a label defined exactly once in the SAME scope; every label is targeted by at least one
    jump of its scope; labels unique.  generated_only: restrict to '__bareScript' names (programs with raw user labels/jumps)."""
    out = []
    for scope, stmts in scopes_of(statements):
        labels = [st['label'] for st in stmts if 'label' in st]
        jumps = [st['jump']['label'] for st in stmts if 'jump' in st]
        keep = (lambda s: s.startswith(RESERVED)) if generated_only else (lambda s: True)
        for lab in sorted(set(labels)):
            if keep(lab):
                if labels.count(lab) != 1:
                    out.append(f'{scope}: label {lab} defined {labels.count(lab)} times')
                if lab not in jumps:
                    out.append(f'{scope}: label {lab} is not the target of any jump of its scope')
        for tgt in sorted(set(jumps)):
            if keep(tgt) and labels.count(tgt) != 1:
                out.append(f'{scope}: jump target {tgt} defined {labels.count(tgt)} times in its scope')
    return out


def check_model(ctx, text, model, generated_only=False, execute=True, as_lines=False):
    """Run every implementation-side oracle on one parsed model; report witnesses; return the execution outcome tag."""
    mods = fw.impl()
    inp = {'text': text, 'generated_only': generated_only}
    if as_lines:
        inp['as_lines'] = True
    # 1. schema
    try:
        mods['model'].validate_script(model)
    except Exception as exc:  # pylint: disable=broad-except
        ctx.witness('schema-valid', inp, 'validate_script accepts the model returned by parse_script', f'{type(exc).__name__}: {exc}'[:300])
    # 1b. the published schema as pinned by the harness (member sets, unions, operator enumerations, non-empty arrays)
    pinned = schema_defects(model)
    if pinned:
        ctx.witness('schema-published', inp, 'the model has exactly the members / union keys / operator names of the published schema', pinned)
    # 2. labels / jumps per scope
    defects = scope_defects(model['statements'], generated_only)
    if defects:
        ctx.witness('scope-labels', inp, 'every jump targets a label defined exactly once in the same scope; every label targeted; unique',
                    defects[:6])
    # 2b. purely structured source (no label / jump line): everything the lowering emits carries the reserved prefix
    if not generated_only:
        foreign = sorted({f'{scope}: {name}' for scope, stmts in scopes_of(model['statements']) for st in stmts
                          for name in ([st['label']] if 'label' in st else [st['jump']['label']] if 'jump' in st else [])
                          if not name.startswith(RESERVED)})
        if foreign:
            ctx.witness('foreign-label', inp, 'structured code lowers to generated (__bareScript...) labels and jumps only', foreign[:6])
    # 3. lint
    warnings = mods['model'].lint_script(model)
    bad = [w for w in warnings if RE_LABEL_WARNING.match(w) and (not generated_only or RESERVED in w)]
    if bad:
        ctx.witness('label-lint', inp, 'no unknown/unused/redefined label warning', bad[:6])
    # 4. execution
    tag = 'not-run'
    if execute:
        out = progen.run_impl(model, {}, max_statements=MAX_STATEMENTS)
        err = out.get('error', '')
        tag = 'limit' if err.startswith('Exceeded') else ('error' if err else ('hostexc' if 'hostexc' in out else 'ok'))
        if err.startswith('Unknown jump label') and (not generated_only or RESERVED in err):
            ctx.witness('unknown-jump-label', inp, 'execution never raises "Unknown jump label"', err)
    return tag


def parse_impl(text, as_lines=False):
    """as_lines: hand the text to parse_script as a list of lines (the other documented input form)"""
    parser = fw.impl()['parser']
    try:
        return parser.parse_script(text.split('\n') if as_lines else text), None
    except parser.BareScriptParserError as exc:
        return None, exc.error
    except Exception as exc:  # pylint: disable=broad-except
        # a crash of the parser is not a model: nothing for the oracles to inspect (the mirror comparison reports it)
        return None, 'hostexc ' + type(exc).__name__


def run_cases(ctx, st, stream, cases, generated_only=False, rejected_nontrivial=False):
    """cases: [(prog, tags) or (prog, tags, style)]; one driver batch; correspondence + oracles.  The expected lowering is a function
    of the structured program alone: a style (see `spell`) changes the text handed to parse_script, not the model's answer."""
    resps = ctx.driver.batch([{'op': 'lower', 'prog': case[0]} for case in cases])
    for case, resp in zip(cases, resps):
        prog, style = case[0], (case[2] if len(case) > 2 else None)
        tags = list(case[1]) + ([style_tag(style)] if style is not None else [])
        text = '\n'.join(progen.render(prog))
        as_lines = False
        if style is not None:
            tlines = token_lines(prog)
            if spell(tlines, {'kind': 'canon'}) != text:
                raise AssertionError('token_lines does not reproduce progen.render: ' + text[:200])
            text = spell(tlines, style)
            as_lines = bool(style.get('as_lines'))
        model, err = parse_impl(text, as_lines)
        if model is None:
            # not a well-nested program: the parser rejects it; only the mirror has something to say
            st.case(text, nontrivial=rejected_nontrivial, tags=list(tags) + ['rejected'])
            ctx.compare(stream + '-mirror', text, {'error': err}, resp.get('mirror'))
            continue
        impl = progen.canon_script(model, with_fid=False)
        for side in ('spec', 'mirror'):
            out = resp.get(side)
            if out != impl:                       # literals are exact rationals on the model side: round only when it matters
                out = progen.round_script_numbers(out)
            ctx.compare(f'{stream}-{side}', text, impl, out)
        tag = check_model(ctx, text, model, generated_only, as_lines=as_lines)
        nlabels = sum(1 for _, stmts in scopes_of(model['statements']) for s in stmts if 'label' in s)
        st.case(text, nontrivial=nlabels > 0, tags=list(tags) + ['exec:' + tag])


# ---------------------------------------------------------------------------------------------------------------------
# parallel execution of a stream: forked workers (the implementation modules are inherited), results merged in order
# ---------------------------------------------------------------------------------------------------------------------

_WORK = {}


def shape_cases(chunk, contexts=CONTEXTS):
    cases = []
    for slots, shape in chunk:
        body = build(shape)
        for context in contexts:
            cases.append((in_context(body, context), ['depth%d' % len(shape), context, 'ext' if slots else 'lit'] +
                          sorted({lvl[0] for lvl in shape})))
    return cases


def _worker(job):
    kind, stream, payload, generated_only = job
    ctx = fw.Ctx(ID, _WORK['tier'], _WORK['seed'])
    ctx.driver = fw.Driver(DRIVER)
    st = fw.StreamStats(stream, '')
    try:
        if kind == 'shapes':
            cases = shape_cases(payload)
        elif kind == 'shapes+':
            cases = shape_cases(payload, CONTEXTS_PLUS)
        elif kind == 'controls':
            cases = control_cases(payload)
        elif kind == 'stray':
            cases = stray_cases(payload)
        else:
            cases = payload
        run_cases(ctx, st, stream, cases, generated_only, rejected_nontrivial=(kind == 'stray'))
    except fw.DriverCrash as exc:
        return {'crash': str(exc)}
    return {'evaluations': st.evaluations, 'hashes': st.hashes, 'hist': st.hist, 'samples': st.samples,
            'disagreements': ctx.disagreements, 'witnesses': ctx.witnesses, 'checked': ctx.disagreements_checked,
            'requests': ctx.driver.requests}


def merge(ctx, st, res):
    if 'crash' in res:
        raise fw.DriverCrash(res['crash'], 0)
    st.evaluations += res['evaluations']
    st.hashes |= res['hashes']
    for k, v in res['hist'].items():
        st.hist[k] = st.hist.get(k, 0) + v
    for smp in res['samples']:
        if len(st.samples) < 3:
            st.samples.append(smp)
    for d in res['disagreements']:
        if d is None:
            ctx.disagreements.append(None)
        else:
            ctx.disagree(d['stream'], d['case'], d['impl'], d['model'], d.get('note', ''))
    for w in res['witnesses']:
        if len(ctx.witnesses) < 200:
            ctx.witnesses.append(w)
    ctx.disagreements_checked += res['checked']
    ctx.driver.requests += res['requests']


def n_workers():
    return max(1, int(os.environ.get('VERIF_WORKERS', '') or min(8, (os.cpu_count() or 2) // 2)))


def run_jobs(ctx, st, jobs, deadline=None):
    """Run jobs (in order); returns the number of jobs completed (all, unless the deadline stopped the submission)."""
    fw.impl()                                     # import the implementation before forking
    _WORK.update(tier=ctx.tier, seed=ctx.seed)
    done = 0
    nw = n_workers()
    if nw == 1 or len(jobs) == 1:
        for job in jobs:
            if deadline is not None and ctx.elapsed() > deadline:
                break
            merge(ctx, st, _worker(job))
            done += 1
        return done
    import multiprocessing
    with multiprocessing.get_context('fork').Pool(nw) as pool:
        pending = []
        it = iter(jobs)
        exhausted = False
        while pending or not exhausted:
            while not exhausted and len(pending) < 2 * nw:
                if deadline is not None and ctx.elapsed() > deadline:
                    exhausted = True
                    break
                job = next(it, None)
                if job is None:
                    exhausted = True
                    break
                pending.append(pool.apply_async(_worker, (job,)))
            if pending:
                merge(ctx, st, pending.pop(0).get())
                done += 1
    return done


def chunks(seq, n):
    return [seq[i:i + n] for i in range(0, len(seq), n)]


def load_corpus():
    path = os.path.join(fw.VERIF, 'harness', 'corpus', 'C07.jsonl')
    out = []
    if os.path.exists(path):
        with open(path, encoding='utf-8') as fh:
            for line in fh:
                line = line.strip()
                if line and not line.startswith('#'):
                    out.append(json.loads(line))
    return out


# ---------------------------------------------------------------------------------------------------------------------
# execution histories (the EXECUTION side of "structured code can never cause an Unknown jump label runtime error"): the model is well
# formed - what is exercised is the consumer.  One function NAME bound to several bodies of different block structure under one options
# object / one globals object, called between and after the definitions.  Host-level state (the options dict, the globals dict, the
# function values kept alive in variables) has no counterpart in the Lean model: implementation-side oracles only.
# ---------------------------------------------------------------------------------------------------------------------

HIST_MAX_STATEMENTS = 5000
HIST_ORACLES = ('history-unknown-jump-label', 'history-result')
HIST_POLICIES = ['same-options', 'same-options-new-globals', 'copied-options', 'new-options-same-globals']


def hist_body(constructs, lead=0):
    """a pure function body over the parameter `a`: locals only, the value tells which statements ran"""
    pre = [{'k': 'expr', 'name': 'n', 'e': var('a')}, {'k': 'expr', 'name': 'm', 'e': num(0)}] + \
          [{'k': 'expr', 'name': 'p%d' % i, 'e': num(i)} for i in range(lead)]
    return pre + constructs + [{'k': 'ret', 'e': wf_binary('+', wf_binary('*', var('n'), num(100)), var('m'))}]


def _shape_name(shape):
    return '>'.join(name + ('.%d' % slot if slot else '') + ('+b' if brk else '') + ('+c' if cont else '') for name, slot, brk, cont in shape)


def _random_shape(rng, depth, loop=None):
    """a random chain of the extended space; no continue that binds to a while (known finding F7: such a loop never ends)"""
    if depth == 0:
        return ()
    name, kind, nslots = rng.choice(VARIANTS)
    inner = ('while' if name == 'while' else 'for') if kind == 'loop' else loop
    brk, cont = rng.choice(FLAGS) if inner else FLAGS[0]
    return ((name, rng.randrange(nslots), brk, cont and inner != 'while'),) + _random_shape(rng, depth - 1, inner)


def hist_palette(rng, n_random):
    """[(name, body)]: bodies whose generated labels differ in name and / or statement index: no jump at all, every single construct of the
    extended space, two sibling constructs in BOTH orders (same length, other label names), the same constructs behind 1 / 3 leading
    statements (same label names, other indexes), random deeper chains"""
    one = lambda name: ((name, 0, False, False),)  # noqa: E731
    pal = [('straight', hist_body([inc('m')]))]
    for shape in shapes(1, False, True):
        pal.append((_shape_name(shape), hist_body(build(shape))))
    for x, y in (('ifelse', 'while'), ('for', 'ifelifelse'), ('while', 'forix'), ('if', 'for'), ('ifelif', 'ifelse')):
        pal.append((x + ',' + y, hist_body(build(one(x)) + build(one(y)))))
        pal.append((y + ',' + x, hist_body(build(one(y)) + build(one(x)))))
    for lead in (1, 3):
        pal.append(('lead%d,while' % lead, hist_body(build(one('while')), lead)))
        pal.append(('lead%d,ifelse,for' % lead, hist_body(build(one('ifelse')) + build(one('for')), lead)))
    for _ in range(n_random):
        shape = _random_shape(rng, rng.choice([2, 2, 3]))
        pal.append((_shape_name(shape), hist_body(build(shape))))
    return pal


def hist_glob(k, u=''):
    """a small global construct (shifts the script-wide label counter and gives the GLOBAL scope - of a script or of an include file - labels
    of its own); k picks the kind, u makes its variables unique; the trace variable gt<u> tells which statements ran"""
    k %= 4
    gt, gw, gv = 'gt' + u, 'gw' + u, 'gv' + u
    mark = lambda e: {'k': 'expr', 'name': gt, 'e': wf_binary('+', wf_binary('*', var(gt), num(10)), e)}  # noqa: E731
    if k == 0:
        return []
    if k == 1:
        return [{'k': 'expr', 'name': gt, 'e': num(1)}, {'k': 'expr', 'name': gw, 'e': num(0)},
                {'k': 'while', 'c': wf_binary('<', var(gw), num(2)), 'b': [inc(gw), mark(var(gw))]}, mark(num(7))]
    if k == 2:
        return [{'k': 'expr', 'name': gt, 'e': num(2)}, _if(var('gz'), [mark(num(1))], {'k': 'else', 'b': [mark(num(2))]}),
                {'k': 'for', 'value': gv, 'index': None, 'vals': call('arrayNew', num(1), num(2)), 'b': [mark(var(gv))]}]
    return [{'k': 'expr', 'name': gt, 'e': num(3)},
            {'k': 'for', 'value': gv, 'index': 'gi' + u, 'vals': call('arrayNew', num(1), num(2), num(3)),
             'b': [_if(wf_binary('==', var(gv), num(2)), [{'k': 'continue'}]), mark(var(gv))]},
            {'k': 'expr', 'name': gw, 'e': num(0)}, {'k': 'while', 'c': wf_binary('<', var(gw), num(1)), 'b': [inc(gw), mark(num(5))]}]


class _Hist:
    """builder of one history: scripts (structured programs), include files, and what every recorded call must return"""

    def __init__(self, pal, family, tags=()):
        self.pal, self.family, self.tags = pal, family, list(tags)
        self.scripts, self.files, self.expect, self.k = [[]], {}, [], 0
        self.cur = self.scripts[0]

    def script(self):
        self.scripts.append([])
        self.cur = self.scripts[-1]

    def file(self, url):
        self.files[url] = []
        return self.files[url]

    def add(self, *stmts, to=None):
        (self.cur if to is None else to).extend(stmts)

    def glob(self, k, to=None):
        """a global construct with variables of its own; its trace variable is part of what the history must compute"""
        if k % 4:
            u = str(self.k)
            self.k += 1
            self.expect.append([len(self.scripts) - 1, 'gt' + u, 'one', [['glob', k % 4]]])
            self.add(*hist_glob(k, u), to=to)

    def define(self, name, ix, to=None):
        self.add(func(name, json.loads(json.dumps(self.pal[ix][1])), ['a']), to=to)

    def call(self, name, ix, a, to=None, script=None):
        """record `r<k> = name(a)`; ix: the body the name is bound to when the statement runs"""
        v = 'r%d' % self.k
        self.k += 1
        self.expect.append([len(self.scripts) - 1 if script is None else script, v, 'one', [[ix, a]]])
        self.add({'k': 'expr', 'name': v, 'e': call(name, num(a))}, to=to)


def hist_families(pal, a, b, c, j):
    """the histories of one ordered pair (a, b) of bodies (c: a third one); j rotates the global constructs"""
    # one script re-defines a function it already called (and goes back to the first body)
    h = _Hist(pal, 'redefine')
    h.glob(j)
    h.define('f', a)
    h.call('f', a, 0)
    h.call('f', a, 2)
    h.glob(j + 1)
    h.define('f', b)
    for arg in (0, 1, 2):
        h.call('f', b, arg)
    h.define('f', a)
    h.call('f', a, 1)
    yield h
    # two scripts defining the same names, run in sequence by one host
    h = _Hist(pal, 'two-scripts')
    h.glob(j + 1)
    h.define('f', a)
    h.define('g', c)
    h.call('f', a, 0)
    h.call('g', c, 2)
    h.call('f', a, 2)
    h.script()
    h.add(*[{'k': 'expr', 'name': 'gp%d' % i, 'e': num(i)} for i in range(1 + j % 3)])    # then the same construct again: same label names, other indexes
    h.glob(j + 1)
    h.glob(j + 2)
    h.define('g', a)
    h.define('f', b)
    h.call('f', b, 0)
    h.call('g', a, 1)
    h.call('f', b, 2)
    h.call('g', a, 2)
    yield h
    # the second script first uses what the first one left behind in the globals (only where the globals object is kept)
    h = _Hist(pal, 'two-scripts-carry', ['needs-globals'])
    h.define('f', a)
    h.call('f', a, 1)
    h.script()
    h.glob(j)
    h.call('f', a, 2)
    h.define('f', b)
    h.call('f', b, 2)
    h.call('f', b, 0)
    yield h
    # re-definition inside includes: each include file defines (and calls) f; the main script calls it in between; a file included twice
    h = _Hist(pal, 'include-redefine')
    fa, fb = h.file('a.bare'), h.file('lib/b.bare')
    h.glob(j + 1, to=fa)
    h.define('f', a, to=fa)
    h.call('f', a, 1, to=fa)
    h.glob(j + 2, to=fb)
    h.define('f', b, to=fb)
    h.call('f', b, 1, to=fb)
    h.add({'k': 'include', 'includes': [{'url': 'a.bare'}]})
    h.call('f', a, 0)
    h.add({'k': 'include', 'includes': [{'url': 'lib/b.bare'}]})
    h.call('f', b, 0)
    h.call('f', b, 2)
    h.add({'k': 'include', 'includes': [{'url': 'a.bare'}]})
    h.call('f', a, 2)
    yield h
    # an include overrides a function of the main script that was already called; the main script then overrides it back
    h = _Hist(pal, 'include-override')
    fb = h.file('b.bare')
    h.add(*[{'k': 'expr', 'name': 'gp%d' % i, 'e': num(i)} for i in range(1 + j % 3)], to=fb)   # the file's global scope: the main script's labels, shifted
    h.glob(j, to=fb)
    h.define('f', b, to=fb)
    h.glob(j)
    h.define('f', a)
    h.call('f', a, 2)
    h.add({'k': 'include', 'includes': [{'url': 'b.bare'}]})
    h.call('f', b, 2)
    h.call('f', b, 0)
    h.define('f', a)
    h.call('f', a, 0)
    yield h
    # the old function value is kept alive in a variable: BOTH bodies are callable, interleaved (no invalidation point can help)
    h = _Hist(pal, 'alias')
    h.define('f', a)
    h.add({'k': 'expr', 'name': 'h', 'e': var('f')})
    h.call('f', a, 0)
    h.glob(j + 1)
    h.define('f', b)
    for arg in (0, 2, 1):
        h.call('h', a, arg)
        h.call('f', b, arg)
    yield h
    # called through another function (itself with a loop) before and after the re-definition
    h = _Hist(pal, 'via')
    h.add(func('g', [{'k': 'expr', 'name': 's', 'e': num(0)},
                     {'k': 'for', 'value': 'v', 'index': None, 'vals': call('arrayNew', num(0), num(1), num(2)),
                      'b': [{'k': 'expr', 'name': 's', 'e': wf_binary('+', var('s'), call('f', var('v')))}]},
                     {'k': 'ret', 'e': var('s')}]))
    h.define('f', a)
    h.add({'k': 'expr', 'name': 'v0', 'e': call('g')})
    h.expect.append([0, 'v0', 'sum', [[a, 0], [a, 1], [a, 2]]])
    h.define('f', b)
    h.add({'k': 'expr', 'name': 'v1', 'e': call('g')})
    h.expect.append([0, 'v1', 'sum', [[b, 0], [b, 1], [b, 2]]])
    h.call('f', b, 1)
    yield h
    # the definition is chosen at run time: a loop re-defines f on every iteration, alternating between the two bodies
    h = _Hist(pal, 'toggle')
    h.add({'k': 'expr', 'name': 'rs', 'e': call('arrayNew')}, {'k': 'expr', 'name': 'k', 'e': num(0)},
          {'k': 'while', 'c': wf_binary('<', var('k'), num(5)),
           'b': [_if(wf_binary('==', wf_binary('%', var('k'), num(2)), num(0)),
                     [func('f', json.loads(json.dumps(pal[a][1])), ['a'])],
                     {'k': 'else', 'b': [func('f', json.loads(json.dumps(pal[b][1])), ['a'])]}),
                 {'k': 'expr', 'name': None, 'e': call('arrayPush', var('rs'), call('f', wf_binary('%', var('k'), num(3))))},
                 inc('k')]})
    h.expect.append([0, 'rs', 'list', [[a, 0], [b, 1], [a, 2], [b, 0], [a, 1]]])
    yield h


def hist_render(h, policy, ref):
    """the JSON form of a history under a policy: texts, files, and the expected value of every recorded variable"""
    expect = []
    for script, v, kind, items in h.expect:
        vals = [ref[(ix, arg)] for ix, arg in items]
        expect.append([script, v, vals[0] if kind == 'one' else (sum(vals) if kind == 'sum' else vals)])
    return {'family': h.family, 'policy': policy, 'scripts': ['\n'.join(progen.render(s)) for s in h.scripts],
            'files': {url: '\n'.join(progen.render(s)) for url, s in h.files.items()}, 'expect': expect}


def hist_reference(pal):
    """-> (usable palette, {(body index, argument): value of `f(argument)` in a script of its own run with FRESH options}, names left out).
    A body that does not run to completion on its own (while + continue: the known finding F7 never ends) is left out of the palette."""
    mods = fw.impl()
    keep, ref, dropped = [], {}, []
    for name, body in pal:
        text = '\n'.join(progen.render([func('f', body, ['a'])] + [{'k': 'expr', 'name': 'r%d' % arg, 'e': call('f', num(arg))} for arg in range(3)]))
        options = {'globals': {}, 'maxStatements': HIST_MAX_STATEMENTS}
        try:
            mods['runtime'].execute_script(mods['parser'].parse_script(text), options)
        except Exception:  # pylint: disable=broad-except
            dropped.append(name)
            continue
        for arg in range(3):
            ref[(len(keep), arg)] = options['globals'].get('r%d' % arg)
        keep.append((name, body))
    for k in (1, 2, 3):
        options = {'globals': {}, 'maxStatements': HIST_MAX_STATEMENTS}
        mods['runtime'].execute_script(mods['parser'].parse_script('\n'.join(progen.render(hist_glob(k)))), options)
        ref[('glob', k)] = options['globals'].get('gt')
    return keep, ref, dropped


def hist_run(hist):
    """Execute a history on the implementation -> [(oracle, expected, actual)] (empty: the property holds on it)"""
    mods = fw.impl()
    runtime, parser = mods['runtime'], mods['parser']
    files = hist['files']
    policy = hist['policy']
    models = [parser.parse_script(text) for text in hist['scripts']]
    if policy == 'twice':
        models = models + models
    globals_ = {}
    options = {'globals': globals_, 'maxStatements': HIST_MAX_STATEMENTS, 'fetchFn': lambda req: files.get(req['url'])}
    seen = []
    out = []
    for ix, model in enumerate(models):
        if ix:
            if policy == 'same-options-new-globals':
                globals_ = options['globals'] = {}
            elif policy == 'copied-options':
                options = dict(options)                     # a shallow copy: whatever the runtime keeps INSIDE the options travels along
            elif policy == 'new-options-same-globals':
                options = {'globals': globals_, 'maxStatements': HIST_MAX_STATEMENTS, 'fetchFn': lambda req: files.get(req['url'])}
        try:
            runtime.execute_script(model, options)
        except runtime.BareScriptRuntimeError as exc:
            msg = str(exc)
            oracle = HIST_ORACLES[0] if msg.startswith('Unknown jump label') else HIST_ORACLES[1]
            out.append((oracle, f'script {ix + 1} of the history runs to completion as it does with fresh options', msg))
            break
        except Exception as exc:  # pylint: disable=broad-except
            out.append((HIST_ORACLES[1], f'script {ix + 1} of the history runs to completion as it does with fresh options',
                        f'{type(exc).__name__}: {exc}'[:200]))
            break
        seen.append(globals_)
    bad = []
    for script, v, want in hist['expect']:
        for run in ([script, script + len(hist['scripts'])] if policy == 'twice' else [script]):
            if run < len(seen) and not (v in seen[run] and seen[run][v] == want):
                bad.append([run + 1, v, want, seen[run].get(v, '<unset>')])
    if bad and not out:
        out.append((HIST_ORACLES[1], 'every recorded call returns what the body bound to the name at that moment returns with fresh options '
                                     '(the jump lands on the label of its own scope): [script, variable, expected, actual]', bad[:6]))
    return out


def stream_histories(ctx):
    rng = ctx.rng('exec-histories')
    pal = hist_palette(rng, ctx.scale(6, 24))
    partners = ctx.scale(3, 12)
    st = ctx.stream('exec-histories',
                    f'EXECUTION histories of parsed structured programs over one options object / one globals object (implementation side only: '
                    f'the options dict, the globals dict and function values kept in variables are host state the Lean model does not have; the '
                    f'lowered models themselves are the well-formed ones of the other streams).  Pure function bodies whose generated '
                    f'labels differ in name and / or statement index (no jump at all; every single construct of the extended space with break / '
                    f'continue; two sibling constructs in both orders; the same constructs behind 1 / 3 leading statements; random chains of depth '
                    f'2-3; a body that does not end on its own with fresh options - while + continue, known finding F7 - is left out); for '
                    f'{partners} partner bodies B of every body A (in rotation) the families: redefine (f = A, called, global constructs, f = B, '
                    f'called, f = A again), two-scripts (both define f and g with swapped / other bodies; the second script repeats the global '
                    f'constructs of the first behind 1-3 leading statements) and two-scripts-carry (the second script calls the f the first left '
                    f'behind, then re-defines it) under the policies {", ".join(HIST_POLICIES)}, include-redefine (two include files define and '
                    f'call f, the main script calls it in between, one file included twice), include-override (the file re-defines a function '
                    f'of the main script and repeats its global constructs shifted), alias (h = f kept alive: both bodies called interleaved), '
                    f'via (called through another function with a loop before and after), toggle (a loop re-defines f on every iteration, '
                    f'alternating), and every fourth single script run twice on the same options.  The global constructs in between (while / '
                    f'if-else + for / for-with-index + continue + while) keep a trace variable each.  Oracles: no "Unknown jump label" runtime '
                    f'error ever; every recorded call returns what the body bound to the name at that moment returns in a script of its own '
                    f'run with fresh options, and every global construct leaves the trace it leaves when run alone (a jump lands on the '
                    f'label of its OWN scope); non-trivial = both bodies contain a label')
    pal, ref, dropped = hist_reference(pal)
    has_label = ['endwhile' in t or 'endfor' in t or 'endif' in t for t in ('\n'.join(progen.render(body)) for _, body in pal)]
    n = len(pal)
    j = 0
    for a in range(n):
        bs = sorted({(a + 1 + 7 * i + a * i) % n for i in range(partners)} - {a})
        for b in bs:
            c = (a + b + 3) % n
            j += 1
            for h in hist_families(pal, a, b, c, j):
                multi = len(h.scripts) > 1
                if multi:
                    policies = [p for p in HIST_POLICIES if not ('needs-globals' in h.tags and p == 'same-options-new-globals')]
                    if ctx.quick:
                        policies = [policies[(j + i) % len(policies)] for i in range(2)]
                else:
                    policies = ['single'] + (['twice'] if j % 4 == 0 else [])
                for policy in policies:
                    hist = hist_render(h, policy, ref)
                    failures = hist_run(hist)
                    text = '\n# --- next script, same host ---\n'.join(hist['scripts']) + \
                           ''.join(f'\n# --- include file {url} ---\n{body}' for url, body in sorted(hist['files'].items()))
                    for oracle, expected, actual in failures:
                        ctx.witness(oracle, {'text': text, 'generated_only': False, 'history': hist}, expected, actual)
                    st.case(hist, nontrivial=has_label[a] and has_label[b],
                            tags=['family:' + h.family, 'policy:' + policy, 'A:' + pal[a][0].split('>')[0].split(',')[0].split('.')[0].split('+')[0],
                                  'outcome:' + (failures[0][0] if failures else 'ok')])
    ctx.notes.append(f'exec-histories: {len(pal)} bodies, {j} ordered pairs; left out (do not end on their own, F7): {", ".join(dropped) or "none"}')


def streams(ctx):
    # --- corpus first
    corpus = load_corpus()
    if corpus:
        st = ctx.stream('corpus', 'hand-picked programs (harness/corpus/C07.jsonl): elif chains without else, continue through nested ifs, '
                                  'while+continue, raw labels next to generated ones, merged includes, ill-nested programs the parser rejects (break / continue '
                                  'under an if of a function defined inside an open global loop)')
        entry = lambda c, tag: (progen.assign_fids(c['prog']), [tag]) + ((c['style'],) if c.get('style') else ())  # noqa: E731
        run_cases(ctx, st, 'corpus', [entry(c, 'corpus') for c in corpus if not c.get('raw')])
        run_cases(ctx, st, 'corpus', [entry(c, 'corpus-raw') for c in corpus if c.get('raw')], generated_only=True)

    # --- stream shapes: exhaustive, literal space depth <= 3 (quick 2) + extended space depth <= 3 (quick 2)
    depth_a = ctx.scale(2, 3)
    depth_b = ctx.scale(2, 3)
    st = ctx.stream('shapes',
                    f'EXHAUSTIVE: every nesting chain of the 7 construct variants {{if, if-else, if-elif, if-elif-else, while, for, '
                    f'for-with-index}} with optional break/continue at each loop level, depth 1..{depth_a} (nested construct in the first '
                    f'branch), plus the extended space (nested construct in EVERY branch, break/continue in every block inside a loop, so '
                    f'that they bind through nested ifs) depth 1..{depth_b}; each at global scope, inside a function, with several '
                    f'functions in one script, and inside a function defined while global blocks (while > if) are still open; '
                    f'non-trivial = the lowered code defines at least one label')
    seen = set()
    todo = []
    for slots, maxd in ((False, depth_a), (True, depth_b)):
        for depth in range(1, maxd + 1):
            for shape in shapes(depth, False, slots):
                if shape not in seen:
                    seen.add(shape)
                    todo.append((slots, shape))
    jobs = [('shapes+', 'shapes', ch, False) for ch in chunks(todo, 500)]
    run_jobs(ctx, st, jobs)
    st.exhaustive = True
    ctx.notes.append(f'shapes: literal space depth<={depth_a} + extended space depth<={depth_b}: {len(seen)} distinct shapes x '
                     f'{len(CONTEXTS_PLUS)} contexts, enumerated completely')

    # --- stream shapes4 (thorough): the literal space at depth 4 - exhaustive if it fits the time budget, else a uniform sample
    if not ctx.quick:
        st = ctx.stream('shapes4',
                        'every nesting chain of exactly 4 of the 7 construct variants with optional break/continue at each loop level '
                        '(16^4 = 65536 shapes) x {global, in a function, several functions}; chunks are visited in a seeded random order so '
                        'that a run cut short by the time budget is a uniform sample (then exhaustive=false); non-trivial = defines a label')
        todo4 = [(False, shape) for shape in shapes(4, False, False)]
        ctx.rng('shapes4').shuffle(todo4)
        jobs = [('shapes', 'shapes4', ch, False) for ch in chunks(todo4, 700)]
        budget = float(os.environ.get('VERIF_C07_DEPTH4_DEADLINE_S', '430'))
        done = run_jobs(ctx, st, jobs, deadline=budget)
        st.exhaustive = (done == len(jobs))
        ctx.notes.append(f'shapes4: {done}/{len(jobs)} chunks of 700 shapes x {len(CONTEXTS)} contexts '
                         f'({"EXHAUSTIVE depth 4" if st.exhaustive else "SAMPLED depth 4 (time budget reached)"}), {n_workers()} workers')

    # --- stream controls: exhaustive, every construct site x every controlling-expression class x every way the body leaves
    contexts = CONTEXTS
    st = ctx.stream('controls',
                    f'EXHAUSTIVE: every controlling-expression site {{if, elif, while test, for / for-with-index values}} of the 7 construct '
                    f'variants x {len(COND_POOL)} expressions covering every expression kind and constant class (number literal zero / '
                    f'integer / fraction, string literal empty / non-empty, true / false / null, plain names, groups, unary ! and -, '
                    f'constant-foldable binaries, calls with and without arguments, array values) x every way the body leaves (falls '
                    f'through, empty, break, continue, both, return, guarded, break / continue of an inner loop only; if chains: every / '
                    f'only the first branch ends with return, or with break / continue of an enclosing while / for), each at global '
                    f'scope, inside a function, and with several functions in one script; non-trivial = the lowered code defines at '
                    f'least one label')
    todo = [(spec, context) for spec in control_specs() for context in contexts]
    run_jobs(ctx, st, [('controls', 'controls', ch, False) for ch in chunks(todo, 500)])
    st.exhaustive = True
    ctx.notes.append(f'controls: {len(todo) // len(contexts)} (site, expression, body) combinations x {len(contexts)} contexts, '
                     f'enumerated completely')

    # --- stream ill-nested: stray break / continue across scope boundaries (exhaustive, with the mirror) ...
    outer_d, inner_d = 2, ctx.scale(1, 2)
    siblings = ctx.scale(STRAY_SIBLINGS_QUICK, STRAY_SIBLINGS)
    gsibs = ctx.scale(['none'], ['none', 'closed-before'])
    st = ctx.stream('ill-nested',
                    f'EXHAUSTIVE: a break / continue that no loop OF ITS OWN SCOPE encloses: every chain of 0..{outer_d} global constructs '
                    f'({len(OUTER_LEVELS)} variants: while, for, for-with-index, if / else / elif branches) around a function definition x '
                    f'every chain of 0..{inner_d} if-variants ({len(INNER_LEVELS)}: the statement in the if / else / elif branch) around the '
                    f'statement inside the function x break / continue x the rest of the function body ({", ".join(siblings)}; own-...-around '
                    f'is the accepted twin: the statement binds to the function\'s own loop while global loops are open) x a closed global '
                    f'for-with-continue in front ({", ".join(gsibs)}; the second only under at most one open global block); the same at global scope without a function.  The parser must answer '
                    f'like the line-at-a-time mirror (reject with the same message / same lowering); every model it returns is judged by '
                    f'the scope, schema, lint and execution oracles; non-trivial = rejected as it must be, or accepted with a label defined')
    todo = list(stray_specs(outer_d, inner_d, siblings, gsibs))
    run_jobs(ctx, st, [('stray', 'ill-nested', ch, False) for ch in chunks(todo, 600)])
    st.exhaustive = True
    ctx.notes.append(f'ill-nested: {len(todo)} (placement, outer chain, inner chain, statement, sibling, global sibling) combinations, '
                     f'enumerated completely')

    # --- stream line-edits: one structural line deleted / duplicated / swapped / inserted (text only; implementation-side oracles)
    st = ctx.stream('line-edits',
                    'EXHAUSTIVE single-line edits of well-nested hosts (shape programs at global scope / in a function / in a function '
                    'defined inside open global while > if / several functions; the spelling hosts with functions): every block line '
                    '(if, elif, else, endif, while, endwhile, for, endfor, function, endfunction, break, continue) deleted, duplicated, '
                    f'swapped with its neighbour, and each of {len(INSERT_LINES)} block lines inserted at every position.  An unbalanced '
                    'line sequence has no wire form, so there is NO Lean side here: the parser either rejects the text or returns a model, '
                    'and every returned model must pass the implementation-side oracles (schema, per-scope label / jump census, generated '
                    'names only, lint, execution); non-trivial = the edited text is still accepted and defines a label')
    seen_texts = set()
    for name, lines in line_edit_hosts(thorough=not ctx.quick):
        for kind, edited in line_edits(lines):
            text = '\n'.join(edited)
            if text in seen_texts:
                continue
            seen_texts.add(text)
            model, err = parse_impl(text)
            if model is None:
                st.case(text, nontrivial=False, tags=['host:' + name, 'edit:' + kind, 'rejected', 'rejected:' + str(err)[:40]])
                continue
            tag = check_model(ctx, text, model)
            nlabels = sum(1 for _, stmts in scopes_of(model['statements']) for s in stmts if 'label' in s)
            st.case(text, nontrivial=nlabels > 0, tags=['host:' + name, 'edit:' + kind, 'accepted', 'exec:' + tag])
    st.exhaustive = True

    # --- stream expr-spelling: every lexical alternative of the expression grammar at every expression site
    st = ctx.stream('expr-spelling',
                    f'EXHAUSTIVE: {len(EXPR_SITES)} expression sites of the statement grammar (assignment, call argument first / second, '
                    f'return, if / elif / while test, for values, jumpif test, operand to the right / left of a binary operator with and '
                    f'without a blank, exponent, operand of unary - and !, inside a group) x {{global scope, inside a function}} x '
                    f'{len(EXPR_SPELLINGS)} spellings: number literals canonical / with explicit + or - sign / trailing point / exponent / '
                    f'leading zeros / beyond the double range, unary operators on every operand kind (unary plus and other non-operators '
                    f'must be rejected), single / double quoted strings with escapes and with text that looks like syntax, plain and '
                    f'bracketed names, call and group forms, every binary operator tight and wide, signed right operands (n++1, 2**-1), '
                    f'chains, and the near misses of each class.  Oracles on the implementation: validate_script, the pinned walk of the '
                    f'published schema (operator enumerations, member sets), scope / lint / execution; Lean side: the schema model of '
                    f'drv_c07x accepts the returned model and writes it back unchanged (expression TEXT grammar: C02 / C06, not modelled '
                    f'here); non-trivial = an accepted non-canonical spelling')
    sent = []
    for site, context, cls, spelling, raw_, text in expr_spelling_cases():
        model, err = parse_impl(text)
        tags = ['site:' + site, context, cls]
        if model is None:
            st.case(text, nontrivial=False, tags=tags + ['rejected'])
            continue
        tag = check_model(ctx, text, model, generated_only=raw_)
        st.case(text, nontrivial=not cls.endswith(':canon'), tags=tags + ['accepted', 'exec:' + tag])
        try:
            sent.append((text, progen.canon_script(model, with_fid=False)))
        except (OverflowError, ValueError, KeyError, TypeError):
            pass                                  # a non-finite literal (1e+308 is the largest sent) has no exact wire form
    st.exhaustive = True
    try:
        drv = fw.Driver('drv_c07x')
        for (text, doc), resp in zip(sent, drv.batch([{'op': 'schema_script', 'script': d} for _, d in sent])):
            ctx.compare('expr-spelling-schema', text, {'valid': True, 'roundtrip': doc, 'copyOk': True},
                        {k: resp.get(k) for k in ('valid', 'roundtrip', 'copyOk')})
        if ctx.driver is not None:
            ctx.driver.requests += drv.requests
    except fw.Infra as exc:
        ctx.broken.append(f'correspondence: expr-spelling schema tie could not run: {exc}')

    # --- stream spelling-single: exhaustive, every gap of every statement line kind x every filler class, one deviation at a time
    exotic = WS_EXOTIC
    st = ctx.stream('spelling-single',
                    f'EXHAUSTIVE: 7 host programs (if / elif / else chain with break and continue in a while, at global scope and in a '
                    f'function; for / for-with-index with continue and break, global and in a function; function headers: async, no / one / '
                    f'several parameters, last-argument array, bare and valued return; raw label / jump / jumpif next to structured code; '
                    f'include lines) - for the first line of every distinct statement form, EVERY gap of its line grammar (leading, '
                    f'optional, required, trailing) x every filler: none, blank, tab, mixed, each of {len(exotic)} other characters that '
                    f'are white space for the line grammar (VT FF CR FS US NEL NBSP and the Unicode Zs / Zl / Zp spaces), '
                    f'{len(CONTINUATIONS)} line-continuation forms (bare, padded, white space after the backslash, CR LF, a blank / comment '
                    f'line / second continuation inside); plus CR LF line ends, {len(FINALS) - 1} ways to end the text and '
                    f'{len(NOISE_LINES)} kinds of non-statement lines between the statements; the expected lowering is that of the '
                    f'structured program; non-trivial = the lowered code defines at least one label')
    singles = list(single_cases(exotic))
    # every 5th case is handed to parse_script as a list of lines
    singles = [((c[0], c[1], dict(c[2], as_lines=True)) if i % 5 == 4 else c, raw_) for i, (c, raw_) in enumerate(singles)]
    jobs = [('progs', 'spelling-single', ch, False) for ch in chunks([c for c, raw_ in singles if not raw_], 600)] + \
           [('progs', 'spelling-single', ch, True) for ch in chunks([c for c, raw_ in singles if raw_], 600)]
    run_jobs(ctx, st, jobs)
    st.exhaustive = True
    ctx.notes.append(f'spelling-single: {len(singles)} (host, line, gap, filler) combinations, enumerated completely')

    # --- stream spelling-styles: whole programs in one style
    depth_s = ctx.scale(1, 2)
    st = ctx.stream('spelling-styles',
                    f'every shape of the extended space of depth <= {depth_s} x {{global, in a function, several functions, function inside '
                    f'open blocks}} x EVERY uniform style ({len(STYLE_NAMES)}: tight, wide, tabs, CR LF, comment / blank / white-space '
                    f'lines between all statements, every gap a continuation (4 forms), every gap one of the {len(WS_EXOTIC)} other '
                    f'white-space characters), every third case as a list of lines; the shapes of depth {depth_s + 1} (extended space up to '
                    f'depth 2, literal space beyond) with two styles each and the controlling-expression pool at every site with the styles taken in rotation; the same with all user identifiers '
                    f'renamed to keyword look-alikes (iff, elsewhere, endiff, ELSE, Endif, forx, in_, returns, breaks, continued, '
                    f'functions, ...); non-trivial = the lowered code defines at least one label')
    todo, k = [], 0
    for depth in range(1, depth_s + 2):
        for shape in shapes(depth, False, depth <= 2):      # beyond depth 2 the literal space (the extended one has 28736 shapes)
            body = build(shape)
            for context in CONTEXTS_PLUS:
                names = STYLE_NAMES if depth <= depth_s else [STYLE_NAMES[(k + j * 7) % len(STYLE_NAMES)] for j in range(2)]
                for name in names:
                    k += 1
                    prog = in_context(body, context)
                    tags = ['styles', 'depth%d' % depth, context]
                    if k % 4 == 0:
                        prog = rename(prog)
                        tags.append('lookalike-names')
                    style = {'kind': 'uniform', 'name': name}
                    if k % 3 == 0:
                        style['as_lines'] = True
                    todo.append((prog, tags, style))
    for variant, pos, ix, body_kind in control_specs():
        if body_kind == 'plain':
            k += 1
            prog = in_context(control_construct(variant, pos, COND_POOL[ix], body_kind), 'function' if k % 2 else 'global')
            todo.append((prog, ['styles', 'controls', variant + '@' + pos, 'expr:' + expr_class(COND_POOL[ix])],
                         {'kind': 'uniform', 'name': STYLE_NAMES[k % len(STYLE_NAMES)]}))
    for name, prog, raw_ in spelling_hosts():
        if not raw_:
            for sname in STYLE_NAMES:
                todo.append((rename(prog), ['styles', 'host:' + name, 'lookalike-names'], {'kind': 'uniform', 'name': sname}))
    run_jobs(ctx, st, [('progs', 'spelling-styles', ch, False) for ch in chunks(todo, 500)])
    raw_todo = [(rename(prog) if j % 2 else prog, ['styles', 'host:' + name] + (['lookalike-names'] if j % 2 else []),
                 {'kind': 'uniform', 'name': sname})
                for name, prog, raw_ in spelling_hosts() if raw_ for j, sname in enumerate(STYLE_NAMES + STYLE_NAMES)]
    run_jobs(ctx, st, [('progs', 'spelling-styles', raw_todo, True)])

    # --- stream spelling-random: random programs, every gap spelled at random
    rng = ctx.rng('spelling-random')
    n = ctx.scale(240, 5000)
    st = ctx.stream('spelling-random',
                    'progen.Gen programs (depth <= 5, a quarter with raw labels / jumps) spelled at random: each gap of each line gets, with '
                    'probability 0.15 / 0.4 / 1, a random filler of its kind (white space of any class, a continuation form), random LF / '
                    'CR LF line ends, non-statement lines in between, a random end of text; every third program with look-alike '
                    'identifiers, every fourth as a list of lines; non-trivial = the lowered code defines at least one label')
    plain, raw = [], []
    for i in range(n):
        allow_raw = (i % 4 == 3)
        gen = progen.Gen(rng, max_depth=rng.choice([2, 3, 4, 5]), allow_raw=allow_raw)
        prog = gen.program()
        tags = sorted(gen.stats)
        if i % 3 == 0:
            prog = rename(prog)
            tags.append('lookalike-names')
        style = {'kind': 'random', 'seed': rng.getrandbits(32), 'p': rng.choice([0.15, 0.4, 1.0])}
        if i % 4 == 1:
            style['as_lines'] = True
        (raw if allow_raw else plain).append((prog, tags, style))
    jobs = [('progs', 'spelling-random', ch, False) for ch in chunks(plain, 300)] + \
           [('progs', 'spelling-random', ch, True) for ch in chunks(raw, 300)]
    run_jobs(ctx, st, jobs)

    # --- stream random: progen programs, depth <= 6
    rng = ctx.rng('random')
    rng_controls = ctx.rng('random-controls')
    n = ctx.scale(300, 6000)
    st = ctx.stream('random', 'progen.Gen grammar-directed programs, nesting depth <= 6, <= 3 functions + prelude, all seven constructs with '
                              'break/continue; a quarter of them with raw user labels/jumps (L1, L2: oracles restricted to generated '
                              'names); in every second program a third of the if / elif / while tests and for values are replaced by '
                              'expressions of the controlling-expression pool (literals of every type, constants, groups, unary, calls; '
                              'loops that no longer end run into the statement budget); non-trivial = the lowered code defines at least '
                              'one label')
    plain, raw = [], []
    for i in range(n):
        allow_raw = (i % 4 == 3)
        gen = progen.Gen(rng, max_depth=rng.choice([3, 4, 5, 6]), allow_raw=allow_raw)
        prog = gen.program()
        tags = sorted(gen.stats)
        if i % 2 == 1:
            mutate_controls(prog, rng_controls, 0.34)
            tags.append('controls-mutated')
        (raw if allow_raw else plain).append((prog, tags))
    jobs = [('progs', 'random', ch, False) for ch in chunks(plain, 500)] + [('progs', 'random', ch, True) for ch in chunks(raw, 500)]
    run_jobs(ctx, st, jobs)

    # --- stream exec-histories: one function name, several bodies, one options / globals object (implementation side only)
    stream_histories(ctx)
    # the smallest failing input first (it becomes the replay file)
    ctx.witnesses.sort(key=lambda w: len(w['input']['text']))


def disagreement_known(d, known):
    return False


def search(ctx):
    """Something no longer checks: look for a program on which the property itself fails on the implementation (oracles only)."""
    before = len(ctx.witnesses)
    maxd = ctx.scale(2, 3)
    for slots in (False, True):
        for depth in range(1, maxd + 1):
            for shape in shapes(depth, False, slots):
                body = build(shape)
                for context in CONTEXTS_PLUS:
                    text = '\n'.join(progen.render(in_context(body, context)))
                    model, _ = parse_impl(text)
                    if model is not None:
                        check_model(ctx, text, model, execute=(depth <= 2))
                if len(ctx.witnesses) - before >= 20:
                    return
    for variant, pos, ix, body_kind in control_specs():
        body = control_construct(variant, pos, COND_POOL[ix], body_kind)
        for context in CONTEXTS:
            text = '\n'.join(progen.render(in_context(body, context)))
            model, _ = parse_impl(text)
            if model is not None:
                check_model(ctx, text, model, execute=(context != 'multi'))
        if len(ctx.witnesses) - before >= 20:
            return
    # programs the parser ought to reject, single-line edits, expression spellings
    for spec in stray_specs(2, maxd - 1, STRAY_SIBLINGS, ['none', 'closed-before']):
        text = '\n'.join(progen.render(stray_program(*spec)))
        model, _ = parse_impl(text)
        if model is not None:
            check_model(ctx, text, model, execute=False)
        if len(ctx.witnesses) - before >= 20:
            return
    for _, lines in line_edit_hosts(thorough=True):
        for _, edited in line_edits(lines):
            text = '\n'.join(edited)
            model, _ = parse_impl(text)
            if model is not None:
                check_model(ctx, text, model, execute=False)
        if len(ctx.witnesses) - before >= 20:
            return
    for _, _, _, _, raw_, text in expr_spelling_cases():
        model, _ = parse_impl(text)
        if model is not None:
            check_model(ctx, text, model, generated_only=raw_, execute=False)
        if len(ctx.witnesses) - before >= 20:
            return
    # spellings: one deviation at a time, then whole-program styles over the shape space
    for (prog, _, style), raw_ in single_cases():
        text = spell(token_lines(prog), style)
        model, _ = parse_impl(text)
        if model is not None:
            check_model(ctx, text, model, generated_only=raw_, execute=False)
        if len(ctx.witnesses) - before >= 20:
            return
    for depth in range(1, maxd + 1):
        for shape in shapes(depth, False, depth <= 2):
            tlines = token_lines(in_context(build(shape), 'function'))
            for name in STYLE_NAMES:
                text = spell(tlines, {'kind': 'uniform', 'name': name})
                model, _ = parse_impl(text)
                if model is not None:
                    check_model(ctx, text, model, execute=False)
            if len(ctx.witnesses) - before >= 20:
                return
    rng = ctx.rng('search')
    for i in range(ctx.scale(1500, 20000)):
        gen = progen.Gen(rng, max_depth=rng.choice([3, 4, 5, 6, 7]))
        prog = gen.program()
        if i % 2 == 1:
            mutate_controls(prog, rng, 0.34)
        if i % 3 == 2:
            text = spell(token_lines(prog), {'kind': 'random', 'seed': rng.getrandbits(32), 'p': rng.choice([0.15, 0.4, 1.0])})
        else:
            text = '\n'.join(progen.render(prog))
        model, _ = parse_impl(text)
        if model is not None:
            check_model(ctx, text, model, execute=False)
        if len(ctx.witnesses) - before >= 20:
            return


class _Collect:
    def __init__(self):
        self.witnesses = []

    def witness(self, oracle, input_, expected, actual, **extra):
        self.witnesses.append(oracle)


def replay(witness):
    inp = witness['input']
    if witness['oracle'] in HIST_ORACLES and 'history' in inp:
        return witness['oracle'] in [f[0] for f in hist_run(inp['history'])]
    model, _ = parse_impl(inp['text'], inp.get('as_lines', False))
    if model is None:
        return False
    col = _Collect()
    check_model(col, inp['text'], model, inp.get('generated_only', False), as_lines=inp.get('as_lines', False))
    return witness['oracle'] in col.witnesses


# extension: further model code, theorems and streams (DESIGN 13.7)
from props import c07x as _ext  # noqa: E402  pylint: disable=wrong-import-position
_ext.EXTRA_ROOTS = ['Drv.C07X']
fw.attach_extension(globals(), _ext)
