"""C17 extension "one machine": the include semantics of the statement machine (`Machine.execute`, the machine of C01/C08/C09)
instantiated with C17's resolution and a virtual file system of REAL statement lists (`BareModel/IncludeBridge.lean`), with its
event trace (`executeT`; `C17Bridge.executeT_res`: same results as `Machine.execute`), proved to produce the events of the
include model `Include.run` on the abstraction of the program (`C17Bridge.machine_refines_include`) and hence to satisfy the
theorems of C17 (`machine_run_spec`, `machine_fetch_order`, `machine_include_errors`, ...).  Imported by harness/props/C17.py.

Stream `machine-include`: the include trees of C17's generator as REAL scripts (parsed by the real parser, every file of the
virtual file system too), executed by the real `execute_script` with a recording fetchFn / logFn, against `drv_c17x` running the
machine on the parsed models: interleaved fetch/log events, outcome (error text with the resolved location), the `trace`
global, the statement counter.  A third of the cases wrap the root script in a two-round jump loop (programs with jumps are
outside the bridge to `Include.run` but inside the traced machine).  Trees whose include statements sit in function bodies are
left out: the machine runs a callee with base = none (DESIGN finding F42), see the examples in BareProofs/C17Bridge.lean.
"""

import importlib
import re

import fw
import progen

THEOREMS = [
    'C17Bridge.executeT_res', 'C17Bridge.execMT_res', 'C17Bridge.execIncludesT_res', 'C17Bridge.machine_resolve_spec',
    'C17Bridge.machine_base_restored', 'C17Bridge.machine_include_global_scope', 'C17Bridge.machine_return_ends_only_include',
    'C17Bridge.machine_include_error_step', 'C17Bridge.machine_include_counts', 'C17Bridge.machine_dead_after_return',
    'C17Bridge.machine_refines_include', 'C17Bridge.machine_run_spec', 'C17Bridge.machine_fetch_order', 'C17Bridge.machine_fetch_prefix',
    'C17Bridge.machine_include_errors', 'C17Bridge.filesStraight_sound',
]
LEAN_TARGETS = ['BareProofs.C17Bridge']
EXTRA_TARGETS = ['drv_c17x']

LOOP_HEAD = ['loopRound = 0', 'loopTop:']
LOOP_TAIL = ['loopRound = loopRound + 1', 'jumpif (loopRound < 2) loopTop']

# hand-made: jumps around / over include statements, an include statement run three times, a conditional include, labels in
# included files, a return value of an included script, a function DEFINED in an included file and called by the includer
HAND = [
    {'name': 'loop-3', 'urlFn': '/r/main.bare', 'systemPrefix': None,
     'root': "i = 0\ntop:\ninclude 'sub/a.bare'\ni = i + 1\njumpif (i < 3) top\nsystemLog('end')",
     'files': {'/r/sub/a.bare': "systemLog('a')\ninclude 'b.bare'", '/r/sub/b.bare': "trace = trace + 'b;'"}},
    {'name': 'jump-over', 'urlFn': 'http://h/x/main.bare', 'systemPrefix': '/sys/',
     'root': "jump skip\ninclude 'never.bare'\nskip:\ninclude <s.bare>\nsystemLog('end')",
     'files': {'/sys/s.bare': "systemLog('s')\nreturn 7\nsystemLog('dead')"}},
    {'name': 'cond', 'urlFn': None, 'systemPrefix': None,
     'root': "x = 1\njumpif (x) yes\ninclude 'no.bare'\njump done\nyes:\ninclude 'd/yes.bare'\ndone:\nsystemLog('end')",
     'files': {'d/yes.bare': "lbl:\nsystemLog('yes')\ninclude 'z.bare'", 'd/z.bare': "systemLog('z')", 'no.bare': "systemLog('no')"}},
    {'name': 'def-in-include', 'urlFn': '/r/main.bare', 'systemPrefix': None,
     'root': "include 'lib/f.bare'\ntrace = trace + f(2)\nsystemLog('mid')\ninclude 'lib/missing.bare'\nsystemLog('never')",
     'files': {'/r/lib/f.bare': "function f(a):\n    return 'f' + a\nendfunction"}},
    {'name': 'jump-in-include', 'urlFn': '/r/main.bare', 'systemPrefix': None,
     'root': "include 'a.bare'\nsystemLog('after')\ninclude 'bad.bare'",
     'files': {'/r/a.bare': "k = 0\nagain:\nk = k + 1\ninclude 'b.bare'\njumpif (k < 2) again\nreturn\ninclude 'dead.bare'",
               '/r/b.bare': "systemLog('b')", '/r/bad.bare': "x = 1 +"}},
    {'name': 'budget', 'urlFn': None, 'systemPrefix': None, 'maxStatements': 9,
     'root': "include 'self.bare'", 'files': {'self.bare': "systemLog('s')\ninclude 'self.bare'"}},
]


def _c17():
    return importlib.import_module('props.C17')


def hand_case(h):
    files = {k: {'kind': 'text', 'text': v, 'items': None} for k, v in h['files'].items()}
    return {'files': files, 'root': {'items': None, 'text': h['root']}, 'urlFn': h['urlFn'], 'systemPrefix': h['systemPrefix'],
            'maxStatements': h.get('maxStatements', 2000), 'fetch': True, 'acyclic': False, 'hand': h['name']}


def gen_case(rng):
    c17 = _c17()
    for _ in range(50):
        case = c17.TreeGen(rng).build()
        texts = [case['root']['text']] + [f['text'] for f in case['files'].values() if f['kind'] == 'text']
        if case['fetch'] and not any('function incFn' in t for t in texts):
            break
    if rng.random() < 0.33:
        case['root'] = {'items': None, 'text': '\n'.join(LOOP_HEAD + [case['root']['text']] + LOOP_TAIL)}
        case['loop'] = True
    return case


def build_request(case):
    """-> driver request, or None when a text the generator meant to be valid does not parse"""
    parser = fw.impl()['parser']
    counter = [0]
    try:
        root = parser.parse_script(case['root']['text'])
    except parser.BareScriptParserError:
        return None
    files = []
    for loc, f in sorted(case['files'].items()):
        if f['kind'] in ('text', 'broken'):
            try:
                files.append([loc, progen.canon_script(parser.parse_script(f['text']), counter)])
            except parser.BareScriptParserError:
                files.append([loc, 'broken'])
        else:
            files.append([loc, f['kind']])
    ms = case['maxStatements']
    bounded = 0 < ms < 5000
    return {'op': 'run', 'script': progen.canon_script(root, counter), 'files': files, 'base': case['urlFn'],
            'systemPrefix': case['systemPrefix'], 'globals': progen.wire_globals({'trace': ''}), 'max': ms,
            'fuel': 20 * ms + 200 if bounded else 20000,
            'bridge': bool(case.get('acyclic')) and not case.get('loop')}


_INC_FAILED = re.compile(r'^Include of "(.*)" failed$', re.S)
_INC_PARSE = re.compile(r'^ParserError Included from "(.*)"$', re.S)
_EXCEEDED = re.compile(r'^Exceeded maximum script statements \(\d+\)$')


def model_obs(resp):
    if 'events' not in resp:
        return {'bad': resp}
    events = [[e[0], e[1][2:] if e[0] == 'exec' else e[1]] for e in resp['events'] if e[0] == 'fetch' or e[1].startswith('L:')]
    if 'error' in resp:
        err = resp['error']
        m1, m2 = _INC_FAILED.match(err), _INC_PARSE.match(err)
        if m1:
            outcome = {'kind': 'includeFailed', 'url': m1.group(1)}
        elif m2:
            outcome = {'kind': 'parseError', 'url': m2.group(1)}
        elif _EXCEEDED.match(err):
            outcome = {'kind': 'exceeded'}
        else:
            outcome = {'kind': 'other', 'msg': err}
    elif resp.get('oof'):
        outcome = {'kind': 'oof'}
    else:
        outcome = {'kind': 'ok'}
    trace = next((v for k, v in resp.get('globals', []) if k == 'trace'), None)
    return {'events': events, 'outcome': outcome, 'trace': trace, 'statementCount': resp.get('count')}


def impl_obs(impl):
    out = dict(impl['outcome'])
    if out.get('kind') == 'other':
        out = {'kind': 'other', 'msg': out.get('msg')}
    return {'events': impl['events'], 'outcome': out, 'trace': impl['trace'], 'statementCount': impl['statementCount']}


def slim(case):
    return {'root': case['root']['text'], 'urlFn': case['urlFn'], 'systemPrefix': case['systemPrefix'], 'maxStatements': case['maxStatements'],
            'files': {k: (v['text'] if v['kind'] in ('text', 'broken') else v['kind']) for k, v in sorted(case['files'].items())}}


def bridge_check(ctx, case, resp):
    """the driver's machine trace against the driver's include-model trace: the statement of machine_refines_include"""
    inc = resp.get('include')
    if inc is None or not resp.get('straight'):
        return False
    ev, iev = resp['events'], inc['events']
    want = {'fin': 'ok', 'incFailed': 'includeFailed', 'incParse': 'parseError'}.get(resp['stop'])
    ok = iev[:len(ev)] == ev if want is None else (iev == ev and inc['outcome']['kind'] == want)
    if not ok:
        ctx.disagree('machine-include', slim(case), {'events': ev, 'stop': resp['stop']}, inc,
                     note='Lean machine vs Lean include model (theorem machine_refines_include)')
    return True


def streams(ctx):
    drv = fw.Driver('drv_c17x')
    c17 = _c17()
    rng = ctx.rng('machine-include')
    n = ctx.scale(500, 12000)
    st = ctx.stream('machine-include', 'include trees as real scripts on the real execute_script (recording fetchFn/logFn) vs Machine.execute with '
                    'C17 resolution + virtual file system (drv_c17x, traced machine): interleaved fetch/log events, outcome and resolved '
                    'location in the error, trace global, statement counter; non-trivial: at least one fetch request')
    cases = [hand_case(h) for h in HAND] + [gen_case(rng) for _ in range(n)]
    reqs, kept = [], []
    for case in cases:
        req = build_request(case)
        if req is not None:
            reqs.append(req)
            kept.append(case)
    resps = drv.batch(reqs)
    for case, req, resp in zip(kept, reqs, resps):
        impl = c17.run_impl(case)
        if impl['outcome'].get('kind') == 'root-does-not-parse':
            continue
        tags = [impl['outcome'].get('kind', '?'), 'stop:' + str(resp.get('stop'))]
        tags.append('hand' if case.get('hand') else 'loop' if case.get('loop') else 'tree')
        tags.append('straight' if resp.get('straight') else 'jumps')
        depth = sum(1 for e in impl['events'] if e[0] == 'fetch')
        tags.append('fetches:' + ('0' if depth == 0 else '1-3' if depth <= 3 else '4-9' if depth <= 9 else '10+'))
        if any(f[1] == 'broken' for f in req['files']):
            tags.append('has-broken')
        if bridge_check(ctx, case, resp):
            tags.append('bridge-checked')
        st.case(slim(case), nontrivial=depth > 0, tags=tags)
        ctx.compare('machine-include', slim(case), impl_obs(impl), model_obs(resp))
        # the property's own oracle on the implementation (reference walk of harness/props/C17.py, written from the statement)
        if case['root']['items'] is not None:
            want, ok = c17.spec_obs(case, impl)
            if not ok:
                ctx.witness('include-tree-real-scripts', {'case': case}, want,
                            {'events': impl['events'], 'outcome': impl['outcome'], 'trace': impl['trace']})
        elif case.get('loop') and impl['outcome'].get('kind') == 'ok':
            # metamorphic: a completed two-round loop around a root script without `return` fetches the same list twice
            fetches = [e[1] for e in impl['events'] if e[0] == 'fetch']
            half = len(fetches) // 2
            if len(fetches) % 2 or fetches[:half] != fetches[half:]:
                if 'return' not in case['root']['text']:
                    ctx.witness('include-loop-rounds', {'case': case}, 'the same fetch list in both rounds', fetches)
    ctx.driver.requests += drv.requests


def replay(witness):
    if witness.get('oracle') not in ('include-tree-real-scripts', 'include-loop-rounds'):
        return None
    c17 = _c17()
    case = witness['input']['case']
    impl = c17.run_impl(case)
    if witness['oracle'] == 'include-tree-real-scripts':
        _, ok = c17.spec_obs(case, impl)
        return not ok
    fetches = [e[1] for e in impl['events'] if e[0] == 'fetch']
    half = len(fetches) // 2
    return bool(len(fetches) % 2 or fetches[:half] != fetches[half:])


LEVEL_TEXT_EXT = ('C17Bridge: the include code of the statement machine (Machine.execute) instantiated with the C17 resolution is the C17 include model: traced machine = machine (all programs), machine_refines_include / machine_fetch_order / machine_include_errors for jump-free programs, step theorems (global scope, return ends only the include, base restored, counter shared) for all programs.')
