"""C19 - data functions implement their relational meaning; CSV typing round-trips."""

import calendar
import collections
import copy
import csv
import datetime
import enum
import functools
import json
import math
import os
import re
import time
from fractions import Fraction

import fw

ID = 'C19'
LEVEL = 'proof'
LEAN_TARGETS = ['BareProofs.C19']
DRIVER = 'drv_c19'
DRIVER_ROOT = 'Drv.C19'
GEN = []
THEOREMS = [
    'C19.filter_spec', 'C19.filter_raises_iff', 'C19.calc_spec', 'C19.calc_sets_field', 'C19.calc_raise_partial_update',
    'C19.sort_spec', 'C19.sort_entry',
    'C19.bucket_key_faithful', 'C19.key_text_faithful', 'C19.bucketRows_eq_groupSpec', 'C19.top_spec', 'C19.top_first_n_of_each_category',
    'C19.aggregate_spec', 'C19.aggregate_partition', 'C19.agg_count', 'C19.agg_sum_average_stddev', 'C19.agg_min_max_homogeneous',
    'C19.agg_mixed_types_fail',
    'C19.right_names_spec', 'C19.join_spec', 'C19.join_pairs_equal_values', 'C19.join_never_overwrites_left', 'C19.join_raises',
    'C19.validate_column', 'C19.csv_typing_roundtrip_partial', 'C19.datelike_kept_string',
]
ASSUMPTIONS = [
    'expression evaluation is a parameter eval : Row -> Option PValue (none = the evaluation raised): the evaluator is property C03; the harness '
    'evaluates the expression per row with the real evaluate_expression and sends the values; expressions are pure (same row, same value)',
    'rows are Python dicts with str keys in insertion order, modelled as association lists with pairwise different keys; the rows of one table '
    'are distinct objects (no row aliased twice in one data array) and values are not self-containing (known finding F18)',
    'numbers: every finite int/float is an exact rational (1 and 1.0 are one value, as for Python == / hash and for value_compare); NaN/inf excluded',
    'datetimes in tables: the model holds the normalised instant as an integer. The `data` stream uses naive datetime.datetime values (what '
    'datetimeNew / parsing produce). Host representations (timezone-aware datetimes, plain dates, sub-millisecond values, subclasses of int / float / '
    'str / dict / list / datetime / date, IntEnum / str-Enum members) are covered by the streams `host`, `hostkey`, `reuse` under fixed-offset zones: the '
    'Lean model is compared on the PLAIN TWIN (every host value replaced by the plain value it stands for - reference normalisation written in the '
    'harness: aware = local wall clock of the same instant, date = local midnight, subclass / member = base value); that the implementation treats a '
    'host value like its plain twin is established by the implementation-side oracles only (reference relational semantics on plain values, '
    'host-table-equals-plain-twin). Kept out of the oracles (host-boundary findings, reported): dataAggregate min / max over datetimes of more than '
    'one representation (Python min()/max() raise TypeError), average over IntEnum members (statistics.mean converts the mean back to the enum class)',
    'options objects: every case of the data / host streams gets fresh options; the `reuse` stream re-uses one options object over a history of calls '
    '(with failing calls) and checks each call against the fresh-options reference and that the caller\'s globals are untouched',
    'functions and regexes are keyed by identity by _bucket_key: outside the value fragment of bucket_key_faithful (IsData)',
    'dataAggregate: math.fsum returns the correctly rounded exact sum (measure ints stay below 2^53: fsum converts each int to a double first), '
    'statistics.mean the correctly rounded exact mean (int when integral over ints) and statistics.pstdev the correctly rounded square root of '
    'the exact population variance (CPython >= 3.11) - HostFloat.round/sqrt are NOT modelled: the harness checks the implementation against the '
    'exact sum / mean / variance the model returns (equal to its correct rounding; within a one-ulp bracket for an irrational square root)',
    'dataAggregate: min/max use Python min()/max(): modelled for scalar measure values (number, boolean-as-int, string, datetime; a mix is a '
    'TypeError -> null); array/object measure values under min/max, a measure name equal to a category name and duplicate measure names are '
    'outside the model (answered "unmodelled", implementation checked not to hang only)',
    'dataSort: a sorts entry is an array whose first element is a string (field) optionally followed by the descending flag (Python truthiness); '
    'other shapes are outside the model',
    'dataTop: categoryFields are strings',
    'dataParseCSV: physical lines end at LF, CRLF or a lone CR and nowhere else (harness ref_split_lines, written from RFC 4180); csv.reader cell '
    'splitting/quoting (skipinitialspace) is trusted base: the model starts from the split cells; records are rectangular or short (no surplus '
    'cells: they would create a None key); header names are pairwise different and the first chunk is not empty / the text does not start with a '
    'blank line (csv.DictReader would take the empty row as the header); the harness writer is a plain RFC 4180 writer (minimal quoting: cells '
    'containing , " CR or LF - or every cell quoted; LF, CRLF, CR or mixed record ends) that also quotes a cell starting with a blank (skipped '
    'after a delimiter by design: skipinitialspace, pinned by the suite); cells containing VT, FF, FS, GS, RS, NEL, U+2028, U+2029 are written '
    'UNQUOTED and must round-trip (F32); string cells are drawn from every ASCII punctuation character incl. backslash and apostrophe, tabs, '
    'control characters, Latin-1/BMP/astral text (NFC and NFD, BOM, NBSP, zero-width); malformed hand-written cells (stray quotes, text after a '
    'closing quote, unterminated quote) are typed as csv.reader splits them',
    'table sizes: the theorems hold for tables of any size; the streams data / host / reuse / csv sample tables of at most 12 rows, the streams `scale` '
    'and `csvscale` (and the scale part of csvtext-roundtrip) walk the row-count axis 0, 1, 2, 9, 10, 11, 12, 16, 17, 64, 100, 128, 129, 300 for every '
    'function family with the number of distinct keys, the largest group, dataTop counts and the row of the first non-null cell of a CSV column on the '
    'same axis; a size-dependent behaviour whose threshold lies above 300 rows is not sampled',
    'dataParseCSV is modelled as a FUNCTION of its text arguments: that the real function has no memory (the same text read again after an in-place '
    'update of an earlier result, results of separate reads sharing rows) is checked on the implementation only, by the stream `csvhist`',
    'value_parse_number = C13 model NumText.numberParseFloat (exact rational, the double is its correct rounding: the harness rounds); '
    'value_parse_datetime = C16 model Datetime.isoParse over a fixed-offset zone (the csv stream runs under TZ=UTC, thorough also Etc/GMT+5, Etc/GMT-3)',
]
TRUSTED = ['reference relational implementations (filter/sort/group/aggregate/join/CSV typing) and generators in harness/props/C19.py (the property oracles)',
           'CPython: dict insertion order, list.sort stability, tuple ==/hash, min/max/sum, statistics.mean/pstdev, csv.reader / csv.DictReader']

LEVEL_TEXT = ('Theorems, for tables of any size: dataFilter = List.filter by truthiness of the expression value (raises iff an evaluation raises); '
              'dataCalculatedField sets the field on every row keeping all other fields; dataSort is the unique sorted stable permutation w.r.t. the '
              'lexicographic multi-key preorder (via C11); the typed bucket key equals on two data values exactly when value_compare says 0 (hence same '
              'type); bucketing = grouping in first-appearance order; dataTop = first n rows of each category; dataAggregate (two-pass mirror) = one row '
              'per category with count/sum/min/max/average/stddev over the non-null measure values, null when none, failure on mixed types; dataJoin = '
              'relational join on equal keys in left-then-right order with unmatched left rows kept iff NOT isLeftJoin (as coded and pinned by the suite), '
              'right fields renamed to the first free name2, name3, ... and never onto a left field; CSV: a column of canonical texts of one type parses '
              'back to the values (side conditions explicit), 2024-02-30 stays a string. Mirror tied to data.py/library.py by differential '
              'correspondence (scripts and direct calls) and by independent relational reference implementations run against the implementation.')
LEVEL_NOTE = ('Trusted: Lean kernel; correspondence harness with its reference implementations. Modelled not verified: expression evaluation (parameter), '
              'csv.DictReader, float rounding of sum/mean/pstdev (HostFloat), float()/datetime parsing via the C13/C16 models. isLeftJoin is inverted '
              'w.r.t. its doc comment (observation, outside the property).')

MAXS = 100000
EPOCH1 = datetime.datetime(1, 1, 1)
US = datetime.timedelta(microseconds=1)


# ---------------------------------------------------------------------------------------------------------------------
# Value specs (JSON-able, loss-free), builders, wire encoding
# ---------------------------------------------------------------------------------------------------------------------

def I(n):
    return {'i': str(n)}


def F(x):
    return {'f': float(x).hex()}


def D(y, mo=1, d=1, h=0, mi=0, s=0, us=0):
    return {'d': [y, mo, d, h, mi, s, us]}


def L(*xs):
    return {'l': list(xs)}


def O(*kvs):
    return {'o': [list(kv) for kv in kvs]}


def build(s):
    if s is None or isinstance(s, (bool, str)):
        return s
    (k, v), = s.items()
    if k == 'i':
        return int(v)
    if k == 'f':
        return float.fromhex(v)
    if k == 'd':
        return datetime.datetime(*v)
    if k == 'l':
        return [build(x) for x in v]
    if k == 'o':
        return {kk: build(x) for kk, x in v}
    if k == 'dz':
        return datetime.datetime(*v[:7], tzinfo=host_zone(v[7]))
    if k == 'dd':
        return datetime.date(*v)
    if k == 'h':
        return build_host(v[0], v[1])
    raise ValueError(s)


def spec_of(v):
    if v is None or isinstance(v, (bool, str)):
        return v
    kind = host_kind(v)
    if kind is not None:
        return {'h': [kind, spec_of(plain_shallow(v))]}
    if isinstance(v, int):
        return I(v)
    if isinstance(v, float):
        return F(v)
    if isinstance(v, datetime.datetime):
        fields = [v.year, v.month, v.day, v.hour, v.minute, v.second, v.microsecond]
        if v.tzinfo is not None:
            return {'dz': fields + [v.utcoffset() // datetime.timedelta(minutes=1)]}
        return {'d': fields}
    if isinstance(v, datetime.date):
        return {'dd': [v.year, v.month, v.day]}
    if isinstance(v, list):
        return {'l': [spec_of(x) for x in v]}
    if isinstance(v, dict):
        return {'o': [[k, spec_of(x)] for k, x in v.items()]}
    return {'other': repr(v)}


def build_table(rows, rowkind=None, tablekind=None):
    """rowkind: None (plain dict rows) | 'hdict' (dict subclass) | 'odict' (collections.OrderedDict) | 'hkeys' (field names are str-subclass
    instances); tablekind: None (plain list) | 'hlist' (list subclass) - what an embedding application may hand over in globals"""
    out = []
    for row in rows:
        if rowkind == 'hkeys':
            out.append({HStr(k): build(v) for k, v in row})
        elif rowkind == 'hdict':
            out.append(HDict((k, build(v)) for k, v in row))
        elif rowkind == 'odict':
            out.append(collections.OrderedDict((k, build(v)) for k, v in row))
        else:
            out.append({k: build(v) for k, v in row})
    return HList(out) if tablekind == 'hlist' else out


def case_table(case, key='rows'):
    return build_table(case[key], case.get('rowkind'), case.get('tablekind'))


# ---------------------------------------------------------------------------------------------------------------------
# Host-boundary values: what an embedding application can put into globals although no script expression produces it - timezone-aware
# datetimes, plain dates, sub-millisecond datetimes, subclasses of int / float / str / dict / list / datetime / date, enum members that are ints
# or strs.  The language gives each of them a type (value_type) and an order (value_compare); `plain` is the reference reading, written
# here from the documentation (aware datetime = the local wall clock of the same instant, date = local midnight, subclass / enum member = the
# value of its base type) and independent of value.py.
# ---------------------------------------------------------------------------------------------------------------------

class HInt(int):
    pass


class HFloat(float):
    pass


class HStr(str):
    pass


class HDict(dict):
    pass


class HList(list):
    pass


class HDatetime(datetime.datetime):
    pass


class HDate(datetime.date):
    pass


HIntEnum = enum.IntEnum('HIntEnum', {'N%d' % n: n for n in range(0, 11)})
HSTR_ENUM_VALUES = ['', 'a', 'x', '1', 'A', 'b', 'ab', 'true', 'k']
HStrEnum = enum.Enum('HStrEnum', {'S%d' % i: v for i, v in enumerate(HSTR_ENUM_VALUES)}, type=str)


def H(kind, inner):
    return {'h': [kind, inner]}


def DZ(y, mo, d, h, mi, s, us, offmin):
    return {'dz': [y, mo, d, h, mi, s, us, offmin]}


def DD(y, mo, d):
    return {'dd': [y, mo, d]}


def host_zone(offmin):
    return datetime.timezone.utc if offmin == 0 else datetime.timezone(datetime.timedelta(minutes=offmin))


def build_host(kind, inner):
    v = build(inner)
    if kind == 'int':
        return HInt(v)
    if kind == 'float':
        return HFloat(v)
    if kind == 'str':
        return HStr(v)
    if kind == 'ienum':
        return HIntEnum(v)
    if kind == 'senum':
        return HStrEnum(v)
    if kind == 'dict':
        return HDict(v)
    if kind == 'odict':
        return collections.OrderedDict(v)
    if kind == 'list':
        return HList(v)
    if kind == 'dt':
        return HDatetime(v.year, v.month, v.day, v.hour, v.minute, v.second, v.microsecond, tzinfo=v.tzinfo)
    if kind == 'date':
        return HDate(v.year, v.month, v.day)
    raise ValueError(kind)


_HOST_KINDS = [(HIntEnum, 'ienum'), (HStrEnum, 'senum'), (HInt, 'int'), (HFloat, 'float'), (HStr, 'str'), (HDict, 'dict'),
               (collections.OrderedDict, 'odict'), (HList, 'list'), (HDatetime, 'dt'), (HDate, 'date')]


def host_kind(v):
    for cls, kind in _HOST_KINDS:
        if type(v) is cls:  # pylint: disable=unidiomatic-typecheck
            return kind
    return None


def plain_shallow(v):
    """the value of the base type of a subclass instance / enum member (containers: the members are kept)"""
    if isinstance(v, bool) or v is None:
        return v
    if isinstance(v, int):
        return int.__int__(v)
    if isinstance(v, float):
        return float.__float__(v)
    if isinstance(v, str):
        return str.__str__(v)
    if isinstance(v, datetime.datetime):
        return datetime.datetime(v.year, v.month, v.day, v.hour, v.minute, v.second, v.microsecond, tzinfo=v.tzinfo)
    if isinstance(v, datetime.date):
        return datetime.date(v.year, v.month, v.day)
    if isinstance(v, dict):
        return dict(v.items())
    if isinstance(v, list):
        return list(v)
    return v


def ref_normalize_datetime(v):
    """the naive local datetime a date / datetime value stands for: a date is its local midnight, an aware datetime is the wall clock of the
    same instant in the (fixed-offset) zone the check runs in; microseconds are kept"""
    if isinstance(v, datetime.datetime):
        wall = datetime.datetime(v.year, v.month, v.day, v.hour, v.minute, v.second, v.microsecond)
        if v.tzinfo is not None:
            return wall - v.utcoffset() + datetime.timedelta(seconds=local_offset())
        return wall
    return datetime.datetime(v.year, v.month, v.day)


_PLAIN_TYPES = (type(None), bool, int, float, str)


def plain(v):
    """the language-level plain twin of a host value (recursively)"""
    if type(v) in _PLAIN_TYPES:
        return v
    if isinstance(v, datetime.date):
        return ref_normalize_datetime(v)
    if isinstance(v, dict):
        return {plain(k): plain(x) for k, x in v.items()}
    if isinstance(v, list):
        return [plain(x) for x in v]
    return plain_shallow(v)


def enc(v):
    """wire form of a value (Drv/C19.lean); host values are sent as the plain values they stand for"""
    t = type(v)
    if t is str:
        return {'t': 'str', 'v': v}
    if v is None:
        return {'t': 'null'}
    if t is bool:
        return {'t': 'bool', 'v': v}
    if t is int:
        return {'t': 'num', 'v': [v, 1]}
    if t is float:
        if v != v or v in (math.inf, -math.inf):
            return {'t': 'nonfinite', 'v': repr(v)}
        n, d = v.as_integer_ratio()
        return {'t': 'num', 'v': [n, d]}
    if t is dict:
        return {'t': 'obj', 'v': [[k if type(k) is str else _enc_key(k), enc(x)] for k, x in v.items()]}  # pylint: disable=unidiomatic-typecheck
    if t is list:
        return {'t': 'arr', 'v': [enc(x) for x in v]}
    if t is datetime.datetime and v.tzinfo is None:
        return {'t': 'dt', 'v': (v - EPOCH1) // US}
    # host representations
    if isinstance(v, (str, int, float)):
        return enc(plain_shallow(v))
    if isinstance(v, datetime.date):
        # aware datetimes, plain dates, subclasses: the instant they stand for (reference normalisation)
        return {'t': 'dt', 'v': (ref_normalize_datetime(v) - EPOCH1) // US}
    if isinstance(v, dict):
        return {'t': 'obj', 'v': [[k if type(k) is str else _enc_key(k), enc(x)] for k, x in v.items()]}  # pylint: disable=unidiomatic-typecheck
    if isinstance(v, list):
        return {'t': 'arr', 'v': [enc(x) for x in v]}
    return {'t': 'opaque', 'v': t.__name__}


def _enc_key(k):
    return str.__str__(k) if isinstance(k, str) else k


def enc_table(t):
    if not isinstance(t, list):
        return {'not-a-table': enc(t)}
    return [enc(r) for r in t]


def enc_val(v):
    return {'raise': True} if v is RAISED else enc(v)


class _Raised:
    def __repr__(self):
        return 'RAISED'


RAISED = _Raised()


# ---------------------------------------------------------------------------------------------------------------------
# Reference semantics written from the property statement (independent of data.py and of the Lean model)
# ---------------------------------------------------------------------------------------------------------------------

def tname(v):
    if v is None:
        return 'null'
    if isinstance(v, str):
        return 'string'
    if isinstance(v, bool):
        return 'boolean'
    if isinstance(v, (int, float)):
        return 'number'
    if isinstance(v, datetime.date):
        return 'datetime'
    if isinstance(v, dict):
        return 'object'
    if isinstance(v, list):
        return 'array'
    return 'other'


def typed_equal(a, b):
    """a and b are equal values of the same type (value_compare == 0 AND same type, recursively)"""
    ta, tb = tname(a), tname(b)
    if ta != tb:
        return False
    if ta == 'array':
        return len(a) == len(b) and all(typed_equal(x, y) for x, y in zip(a, b))
    if ta == 'object':
        return set(a) == set(b) and all(typed_equal(a[k], b[k]) for k in a)
    if type(a) not in _PLAIN_TYPES or type(b) not in _PLAIN_TYPES:
        a, b = plain(a), plain(b)           # host values: compared as the plain values they stand for
    return fw.impl()['value'].value_compare(a, b) == 0 and fw.impl()['value'].value_type(a) == fw.impl()['value'].value_type(b)


def ref_truthy(v):
    """null, false, 0, '' and [] are false; everything else is true (language reference)"""
    if v is None or v is False:
        return False
    if isinstance(v, bool):
        return True
    if isinstance(v, (int, float)):
        return v != 0
    if isinstance(v, str):
        return v != ''
    if isinstance(v, list):
        return len(v) != 0
    return True


def ref_group(rows, key_of):
    """[(key, [row indices])] grouped on typed value equality, first-appearance order"""
    groups = []
    for ix, row in enumerate(rows):
        k = key_of(row)
        for g in groups:
            if typed_equal(g[0], k):
                g[1].append(ix)
                break
        else:
            groups.append((k, [ix]))
    return groups


def ref_sort(rows, sorts):
    """indices of the rows stably ordered by the keys: successive stable sorts from the last key to the first"""
    vc = fw.impl()['value'].value_compare
    order = list(range(len(rows)))
    for field, desc in reversed(sorts):
        keys = [plain(r.get(field)) for r in rows]
        order.sort(key=functools.cmp_to_key(lambda i, j, ks=keys: vc(ks[i], ks[j])), reverse=desc)
    return order


def ref_unique_names(left_names, right_names):
    """right field name -> joined name: itself unless a left field has it, else the first name2, name3, ... used by neither side"""
    out = {}
    for name in right_names:
        if name not in left_names:
            out[name] = name
        else:
            k = 2
            while f'{name}{k}' in left_names or f'{name}{k}' in right_names:
                k += 1
            out[name] = f'{name}{k}'
    return out


def all_names(rows):
    names = []
    for row in rows:
        for k in row:
            if k not in names:
                names.append(k)
    return names


# ---------------------------------------------------------------------------------------------------------------------
# Running the real implementation
# ---------------------------------------------------------------------------------------------------------------------

def base_options(extra_globals=None):
    g = dict(extra_globals or {})
    g.update((k, v) for k, v in fw.impl()['library'].SCRIPT_FUNCTIONS.items() if k not in g)
    return {'globals': g, 'maxStatements': MAXS}


def _host_id(args, unused_options):
    return args[0] if args else None


def _host_boom(args, unused_options):
    raise ValueError('host function failed')


def _host_odd(args):            # a host callable without the options parameter: the call fails inside the evaluator (-> null)
    return args[0]


def _host_kw(args, options=None, *, strict=False):
    return None if strict else (args[0] if args else None)


HOST_FUNCTIONS = {'hostId': _host_id, 'hostBoom': _host_boom, 'hostOdd': _host_odd, 'hostKw': _host_kw}


def case_globals(case):
    """the host globals of a case: variables the embedding application put into options['globals'] (names may collide with field names)
    and, with `hostfns`, host callables"""
    g = {}
    if case.get('hostfns'):
        g.update(HOST_FUNCTIONS)
    if case.get('globals'):
        g.update(build(case['globals']))
    return g


def case_vars(case):
    return build(case['vars']) if case.get('vars') else None


def case_env(case):
    """(variables argument, host globals, options mode) of a case"""
    return case_vars(case), case_globals(case), case.get('opt')


def eval_rows(expr, rows, variables=None, globals_=None, opt=None):
    """the expression value per row with the real evaluator and FRESH options (RAISED when it raises): the variables argument shadows the
    globals, a row field shadows both.  opt 'bare' / 'none': the caller's options have no globals (the variables are all there is)"""
    parser, runtime = fw.impl()['parser'], fw.impl()['runtime']
    e = parser.parse_expression(expr)
    if opt in ('bare', 'none'):
        opts = {'maxStatements': MAXS}
        if variables is not None:
            opts['globals'] = dict(variables)
    else:
        g = dict(globals_ or {})
        g.update(variables or {})
        opts = base_options(g)
    out = []
    for row in rows:
        try:
            out.append(runtime.evaluate_expression(e, opts, row))
        except runtime.BareScriptRuntimeError:
            out.append(RAISED)
    return out


def call_lib(name, args, via, script=None, literals=None, globals_=None, opt=None, options=None):
    """-> ('ok', value) | ('raised', class name).  via = 'direct' (library function object), 'script' (execute_script) or 'expr'
    (evaluate_expression of the call expression).  globals_: host globals; opt (direct only): 'bare' = options without globals, 'none' =
    options None; options: a caller-owned options object that is RE-USED (histories), the arguments are added to its globals"""
    library, parser, runtime = fw.impl()['library'], fw.impl()['parser'], fw.impl()['runtime']
    try:
        if via == 'direct':
            if options is None:
                options = None if opt == 'none' else ({'maxStatements': MAXS} if opt == 'bare' else base_options(globals_))
            return ('ok', library.SCRIPT_FUNCTIONS[name](list(args), options))
        names = [f'arg{i}' for i in range(len(args))]
        g = dict(globals_ or {})
        g.update(zip(names, args))
        params = list(names)
        for i, lit in (literals or {}).items():
            params[i] = lit
        if options is None:
            options = base_options(g)
        else:
            options['globals'].update(zip(names, args))
        if via == 'expr':
            return ('ok', runtime.evaluate_expression(parser.parse_expression(f'{name}({", ".join(params)})'), options))
        text = f'return {name}({", ".join(params)})'
        return ('ok', runtime.execute_script(parser.parse_script(text), options))
    except runtime.BareScriptRuntimeError as exc:
        return ('raised', 'BareScriptRuntimeError' if 'Exceeded maximum' not in str(exc) else 'budget')
    except Exception as exc:  # pylint: disable=broad-except
        return ('raised', type(exc).__name__)


def num_literal(x):
    """a script number literal for an integral float"""
    return str(int(x)) if float(x).is_integer() and abs(x) < 1e15 else repr(float(x))


# ---------------------------------------------------------------------------------------------------------------------
# One data case: run implementation, build the model request, compare, run the oracles
# ---------------------------------------------------------------------------------------------------------------------

def case_request(case):
    """the driver request of a case, or None if the case is checked on the implementation only"""
    op = case['op']
    rows = case_table(case)
    if op in ('filter', 'calc'):
        vals = eval_rows(case['expr'], rows, *case_env(case))
        req = {'op': op, 'rows': enc_table(rows), 'vals': [enc_val(v) for v in vals]}
        if op == 'calc':
            req['field'] = case['field']
        return req
    if op == 'sort':
        return {'op': 'sort', 'rows': enc_table(rows), 'sorts': [enc(build(s)) for s in case['sorts']]}
    if op == 'top':
        c = Fraction(plain_shallow(build(case['count'])))
        return {'op': 'top', 'rows': enc_table(rows), 'count': [c.numerator, c.denominator], 'fields': case['fields']}
    if op == 'aggregate':
        return {'op': 'aggregate', 'rows': enc_table(rows), 'categories': case['categories'], 'measures': case['measures']}
    if op == 'join':
        right = case_table(case, 'right')
        env = case_env(case)
        lvals = eval_rows(case['expr'], rows, *env)
        rvals = eval_rows(case['rexpr'] if case.get('rexpr') is not None else case['expr'], right, *env)
        return {'op': 'join', 'left': enc_table(rows), 'right': enc_table(right), 'lvals': [enc_val(v) for v in lvals],
                'rvals': [enc_val(v) for v in rvals], 'isLeftJoin': left_flag(case)}
    raise ValueError(op)


def aggregation_of(case):
    agg = {'measures': [dict(m) for m in case['measures']]}
    if case['categories'] is not None:
        agg['categories'] = list(case['categories'])
    if case.get('aggkind') == 'host':
        # the aggregation model as an embedding application may build it: mapping / sequence / string subclasses
        agg = collections.OrderedDict((HStr(k), v) for k, v in agg.items())
        agg['measures'] = HList(HDict((k, HStr(v)) for k, v in m.items()) for m in agg['measures'])
    return agg


def left_flag(case):
    """the isLeftJoin argument as the boolean the language reads it as (a bool, or the spec of any value: truthiness)"""
    v = case['isLeftJoin']
    return v if isinstance(v, bool) else ref_truthy(build(v))


def run_case(case, options=None, table=None):
    """Run the real function.  -> dict(status, result, data (the input objects), extra).  options: a re-used options object (histories);
    table: the table OBJECT to work on (pipelines: the outcome of the previous call) - case['rows'] describes its content"""
    op, via = case['op'], case.get('via', 'direct')
    rows = table if table is not None else case_table(case)
    variables = case_vars(case)
    kw = {'globals_': case_globals(case), 'opt': case.get('opt'), 'options': options}
    out = {'data': rows, 'orig': copy.deepcopy(rows)}
    if op == 'filter':
        res = call_lib('dataFilter', [rows, case['expr'], variables], via, **kw)
    elif op == 'calc':
        res = call_lib('dataCalculatedField', [rows, case['field'], case['expr'], variables], via, **kw)
    elif op == 'sort':
        out['before_ids'] = [id(r) for r in rows]       # the identity of the rows before the in-place sort
        out['keep'] = list(rows)
        res = call_lib('dataSort', [rows, [build(s) for s in case['sorts']]], via, **kw)
    elif op == 'top':
        count = build(case['count'])
        lits = {1: num_literal(count)} if via == 'script' and type(count) is float and count.is_integer() and count >= 0 else None  # pylint: disable=unidiomatic-typecheck
        res = call_lib('dataTop', [rows, count, case['fields']], via, literals=lits, **kw)
    elif op == 'aggregate':
        res = call_lib('dataAggregate', [rows, aggregation_of(case)], via, **kw)
    elif op == 'join':
        right = case_table(case, 'right')
        out['right'] = right
        out['right_orig'] = copy.deepcopy(right)
        flag = case['isLeftJoin'] if isinstance(case['isLeftJoin'], bool) else build(case['isLeftJoin'])
        res = call_lib('dataJoin', [rows, right, case['expr'], case.get('rexpr'), flag, variables], via, **kw)
    else:
        raise ValueError(op)
    out['status'], out['result'] = res
    return out


def float_cell_matches(impl, q, fn):
    """Does the implementation's number agree with the exact value the model returned for an average / stddev cell?"""
    if isinstance(impl, bool) or not isinstance(impl, (int, float)):
        return False
    if fn == 'sum':
        # the exact sum, or its correctly rounded double (the int/float spelling of the result is not part of the property)
        return Fraction(impl) == q if isinstance(impl, int) else impl == q.numerator / q.denominator
    if fn == 'average':
        if isinstance(impl, int):
            return Fraction(impl) == q
        return impl == q.numerator / q.denominator
    # stddev: q >= 0 is the exact rational root (the implementation returns its correctly rounded double); q < 0 is the marker -(variance) - 1
    if q >= 0:
        return isinstance(impl, float) and impl == q.numerator / q.denominator
    var = -q - 1
    if not isinstance(impl, float) or impl <= 0:
        return False
    lo, hi = Fraction(math.nextafter(impl, 0.0)), Fraction(math.nextafter(impl, math.inf))
    return lo * lo < var < hi * hi


def impl_view(case, run, model):
    """canonical implementation outcome, shaped like the driver's answer (`model`) for this op"""
    op = case['op']
    if op == 'filter':
        if run['status'] == 'raised':
            return {'raised': True}
        return {'rows': enc_table(run['result'])}
    if op == 'calc':
        return {'rows': enc_table(run['data']), 'done': run['status'] == 'ok'}
    if op == 'sort':
        if run['status'] == 'raised':
            return {'raised': True}
        return {'rows': enc_table(run['result'])}
    if op == 'top':
        if run['status'] == 'raised' or run['result'] is None:
            return {'null': True}
        return {'rows': enc_table(run['result'])}
    if op == 'aggregate':
        if run['status'] == 'raised' or run['result'] is None:
            return {'raised': True}
        rows = enc_table(run['result'])
        # inexact cells: accept the implementation's float when it is the rounding of the model's exact value
        mrows = (model or {}).get('rows')
        fns = {}
        for m in case['measures']:
            fns[m.get('name', m['field'])] = m['function']
        if isinstance(mrows, list) and isinstance(run['result'], list) and len(mrows) == len(rows):
            for irow, erow, mrow in zip(run['result'], rows, mrows):
                mcells = dict((k, v) for k, v in mrow['v'])
                for cell in erow['v']:
                    fn = fns.get(cell[0])
                    mc = mcells.get(cell[0])
                    if fn in ('sum', 'average', 'stddev') and mc is not None and mc.get('t') == 'num' and isinstance(irow, dict):
                        if float_cell_matches(irow.get(cell[0]), Fraction(mc['v'][0], mc['v'][1]), fn):
                            cell[1] = mc
        return {'rows': rows}
    if op == 'join':
        if run['status'] == 'raised':
            return {'raised': True}
        return {'rows': enc_table(run['result'])}
    raise ValueError(op)


def model_view(case, resp):
    op = case['op']
    if op == 'aggregate':
        return resp.get('model', resp)
    if op == 'join':
        return {k: v for k, v in resp.items() if k != 'names'}
    return {k: v for k, v in resp.items() if k != 'spec'}


def same_rows(a, b):
    return len(a) == len(b) and all(x is y for x, y in zip(a, b))


def oracles(case, run):
    """The property's oracles on the implementation alone. -> [(oracle, expected, actual)]"""
    bad = []
    op = case['op']
    data, orig = run['data'], run['orig']
    env = case_env(case)
    res = run['result']
    if op == 'filter':
        vals = eval_rows(case['expr'], orig, *env)
        if RAISED in vals:
            if run['status'] != 'raised':
                bad.append(('filter-raise-propagates', 'BareScriptRuntimeError', enc_table(res)))
            return bad
        if run['status'] != 'ok' or not isinstance(res, list):
            bad.append(('filter-returns-table', 'array', [run['status'], str(res)]))
            return bad
        want = [r for r, v in zip(data, vals) if ref_truthy(v)]
        if not same_rows(res, want):
            bad.append(('filter-keeps-truthy-rows-in-order', enc_table(want), enc_table(res)))
        if enc_table(data) != enc_table(orig):
            bad.append(('filter-leaves-rows-unchanged', enc_table(orig), enc_table(data)))
    elif op == 'calc':
        vals = eval_rows(case['expr'], orig, *env)
        n_ok = vals.index(RAISED) if RAISED in vals else len(vals)
        if (run['status'] == 'ok') != (n_ok == len(vals)):
            bad.append(('calc-raise-propagates', 'raise iff an evaluation raises', run['status']))
        if run['status'] == 'ok' and res is not data:
            bad.append(('calc-returns-the-data-array', 'same array object', enc_table(res)))
        want = []
        for ix, (row, v) in enumerate(zip(orig, vals)):
            row = dict(row)
            if ix < n_ok:
                row[case['field']] = v
            want.append(row)
        if enc_table(want) != enc_table(data):
            bad.append(('calc-sets-field-on-every-row', enc_table(want), enc_table(data)))
    elif op == 'sort':
        sorts = py_sorts(case)
        if sorts is None:
            return bad
        if run['status'] != 'ok' or res is not data:
            bad.append(('sort-returns-the-data-array', 'same array object', [run['status'], str(res)[:200]]))
            return bad
        before = run['before_ids']
        want = [before[i] for i in ref_sort(orig, sorts)]
        if [id(r) for r in res] != want:
            bad.append(('sort-stable-by-keys', [before.index(i) for i in want], [before.index(id(r)) if id(r) in before else -1 for r in res]))
    elif op == 'top':
        count = plain(build(case['count']))
        valid = isinstance(count, (int, float)) and not isinstance(count, bool) and int(count) == count and count >= 1
        if not valid:
            if not (run['status'] == 'ok' and res is None) and via_script(case):
                bad.append(('top-invalid-count-is-null', None, str(res)[:200]))
            return bad
        if run['status'] != 'ok' or not isinstance(res, list):
            bad.append(('top-returns-table', 'array', [run['status'], str(res)[:200]]))
            return bad
        fields = case['fields']
        groups = ref_group(orig, (lambda r: [r.get(f) for f in fields]) if fields is not None else (lambda r: None))
        want = [data[i] for _, ixs in groups for i in ixs[:int(count)]]
        if not same_rows(res, want):
            bad.append(('top-first-n-of-each-category', enc_table(want), enc_table(res)))
    elif op == 'aggregate':
        bad.extend(aggregate_oracle(case, run))
    elif op == 'join':
        bad.extend(join_oracle(case, run))
    if op == 'aggregate':
        out_names = [m.get('name', m['field']) for m in case['measures']]
        if len(set(out_names)) != len(out_names) or any(n in (case['categories'] or []) for n in out_names):
            return bad                  # colliding output names: outside the property's meaning (a measure named like a category whose value
                                        # is an array even appends the measure values to the first row's own array: observation, reported)
    if op in ('sort', 'top', 'aggregate') and not bad:
        # the rows themselves are not touched (sort: the row objects in their original order)
        rows_now = run['keep'] if op == 'sort' else data
        if len(rows_now) != len(orig) or enc_table(rows_now) != enc_table(orig):
            bad.append(('table-rows-left-unchanged', enc_table(orig), enc_table(rows_now)))
    return bad


def via_script(case):
    return case.get('via') in ('script', 'expr')


def py_sorts(case):
    """[(field, desc bool)] for sorts entries of the modelled shape, else None"""
    out = []
    for s in case['sorts']:
        v = build(s)
        if not isinstance(v, list) or not v or not isinstance(v[0], str):
            return None
        out.append((v[0], bool(v[1]) if len(v) > 1 else False))
    return out


def agg_numbers_only(vals):
    return all(isinstance(v, (int, float)) and not isinstance(v, bool) for v in vals)


def dt_repr(v):
    """the representation class of a datetime value: Python orders values inside one class only"""
    if isinstance(v, datetime.datetime):
        return 'aware' if v.tzinfo is not None else 'naive'
    return 'date'


def aggregate_oracle(case, run):
    bad = []
    measures = case['measures']
    cats = case['categories']
    names = [m.get('name', m['field']) for m in measures]
    if len(set(names)) != len(names) or any(n in (cats or []) for n in names):
        return bad                      # colliding output names: outside the property's meaning
    orig = run['orig']
    res = run['result']
    groups = ref_group(orig, (lambda r: [r.get(c) for c in cats]) if cats is not None else (lambda r: None))
    # expected cells where the property is unambiguous: all non-null measure values of the group are numbers (or the function is count),
    # or min/max over values of one of the types number / string / datetime
    vc = fw.impl()['value'].value_compare
    expected = []
    decidable = True
    for key, ixs in groups:
        row = {}
        if cats is not None:
            for c, v in zip(cats, key):
                row[c] = v
        for m in measures:
            vals = [orig[i].get(m['field']) for i in ixs]
            vals = [v for v in vals if v is not None]
            fn = m['function']
            name = m.get('name', m['field'])
            if not vals:
                row[name] = ('exact', None)
            elif fn == 'count':
                row[name] = ('exact', len(vals))
            elif fn in ('min', 'max'):
                types = {tname(v) for v in vals}
                if len(types) == 1 and types <= {'number', 'string', 'datetime'} and (types != {'datetime'} or len({dt_repr(v) for v in vals}) == 1):
                    best = plain(vals[0])
                    for v in vals[1:]:
                        v = plain(v)
                        if (vc(v, best) > 0) if fn == 'max' else (vc(v, best) < 0):
                            best = v
                    row[name] = ('cmp0', best)
                else:
                    # mixed types; or datetimes in more than one representation (naive / aware / plain date): Python's min()/max() cannot
                    # order them although the language can (host-boundary finding C19-H1, reported, not yet numbered, kept out of the oracle)
                    decidable = False
            elif fn == 'average' and any(isinstance(v, enum.Enum) for v in vals):
                # statistics.mean converts an integral mean back to the enum class and fails when it is no member (host-boundary finding C19-H2,
                # reported, kept out of the oracle)
                decidable = False
            elif agg_numbers_only(vals):
                fr = [Fraction(plain_shallow(v)) for v in vals]
                mean = sum(fr) / len(fr)
                if fn == 'sum':
                    row[name] = ('num', sum(fr))
                elif fn == 'average':
                    row[name] = ('average', mean)
                else:
                    row[name] = ('stddev', sum((x - mean) ** 2 for x in fr) / len(fr))
            else:
                decidable = False
        expected.append(row)
    if not decidable:
        return bad
    if run['status'] != 'ok' or not isinstance(res, list):
        bad.append(('aggregate-returns-table', 'array', [run['status'], str(res)[:200]]))
        return bad
    ok = len(res) == len(expected)
    if ok:
        for got, want in zip(res, expected):
            if not isinstance(got, dict) or list(got.keys()) != list(want.keys()):
                ok = False
                break
            for k, w in want.items():
                g = got[k]
                if isinstance(w, tuple):
                    kind, val = w
                    if kind == 'exact':
                        ok = ok and (g is None if val is None else (isinstance(g, int) and not isinstance(g, bool) and g == val))
                    elif kind == 'cmp0':
                        ok = ok and typed_equal(g, val)
                    elif kind == 'num':
                        ok = ok and float_cell_matches(g, val, 'sum')
                    elif kind == 'average':
                        ok = ok and float_cell_matches(g, val, 'average')
                    else:
                        root = exact_sqrt(val)
                        ok = ok and float_cell_matches(g, root if root is not None else -val - 1, 'stddev')
                else:
                    ok = ok and typed_equal(g, w)
    if not ok:
        bad.append(('aggregate-partition-and-functions',
                    [{k: (list(map(str, w)) if isinstance(w, tuple) else spec_of(w)) for k, w in row.items()} for row in expected], enc_table(res)))
    return bad


def exact_sqrt(q):
    if q < 0:
        return None
    n, d = q.numerator, q.denominator
    rn, rd = math.isqrt(n), math.isqrt(d)
    return Fraction(rn, rd) if rn * rn == n and rd * rd == d else None


def join_oracle(case, run):
    bad = []
    left, right = run['data'], run['right']
    lorig, rorig = run['orig'], run['right_orig']
    env = case_env(case)
    lvals = eval_rows(case['expr'], lorig, *env)
    rvals = eval_rows(case['rexpr'] if case.get('rexpr') is not None else case['expr'], rorig, *env)
    res = run['result']
    if RAISED in lvals or RAISED in rvals:
        if run['status'] != 'raised':
            bad.append(('join-raise-propagates', 'BareScriptRuntimeError', enc_table(res)))
        return bad
    if run['status'] != 'ok' or not isinstance(res, list):
        bad.append(('join-returns-table', 'array', [run['status'], str(res)[:200]]))
        return bad
    lnames, rnames = all_names(lorig), all_names(rorig)
    rename = ref_unique_names(lnames, rnames)
    # renamed right fields never collide with a left field name
    clash = [u for n, u in rename.items() if u in lnames]
    if clash:
        bad.append(('join-renamed-fields-disjoint-from-left', [], clash))
    injective = len(set(rename.values())) == len(rename)
    want = []          # (left index, right index or None)
    for li, lv in enumerate(lvals):
        partners = [ri for ri, rv in enumerate(rvals) if typed_equal(lv, rv)]
        if partners:
            want.extend((li, ri) for ri in partners)
        elif not left_flag(case):        # as coded and pinned by test_join_data_left (the doc comment says the opposite: observation)
            want.append((li, None))
    if len(res) != len(want):
        bad.append(('join-pairs-equal-keys', [list(w) for w in want], enc_table(res)))
        return bad
    for got, (li, ri) in zip(res, want):
        lrow = left[li]
        # never overwrites a left field: every left field keeps its value (the very object) and its position
        if not isinstance(got, dict) or list(got.keys())[:len(lrow)] != list(lrow.keys()) or any(got[k] is not v for k, v in lrow.items()):
            bad.append(('join-never-overwrites-left', enc(lrow), enc(got)))
            break
        if got is lrow:
            bad.append(('join-copies-left-row', 'a new row object', 'the left row itself'))
            break
        exp = dict(lrow)
        if ri is not None:
            for n, v in right[ri].items():
                exp[rename[n]] = v
        if injective and (list(got.keys()) != list(exp.keys()) or any(got[k] is not exp[k] for k in exp)):
            bad.append(('join-pairs-equal-keys', enc(exp), enc(got)))
            break
    if enc_table(left) != enc_table(lorig) or enc_table(right) != enc_table(rorig):
        bad.append(('join-leaves-inputs-unchanged', [enc_table(lorig), enc_table(rorig)], [enc_table(left), enc_table(right)]))
    return bad


# ---------------------------------------------------------------------------------------------------------------------
# Generators
# ---------------------------------------------------------------------------------------------------------------------

FIELD_POOLS = [['a', 'b', 'c'], ['a', 'a2', 'a3', 'b'], ['a', 'a2', 'b', 'c', 'k'], ['k', 'a'], ['a', 'a2', 'a3', 'a4', 'b'], ['x y', 'a', 'b'],
               ['a', 'a22', 'a2', 'b2', 'b']]
KEY_GROUPS = [
    [I(1), F(1.0), '1', True, None],
    [D(2020, 1, 1), '2020-01-01T00:00:00+00:00', '2020-01-01', D(2020, 1, 1, 0, 0, 0, 1000), None],
    ['a.0,', 'a,', 'a', 'a.0', ']', '"', '["a"]', ','],
    [I(0), F(0.0), False, '', None, '0', 'null', 'false'],
    [L(I(1)), L(F(1.0)), L('1'), L(), L(None), L(True)],
    [O(['k', I(1)]), O(['k', F(1.0)]), O(), O(['x', I(1)], ['y', I(2)]), O(['y', I(2)], ['x', I(1)]), O(['x', I(1)])],
    [I(1), I(2), I(3), F(2.0), F(2.5), None],
    ['x', 'y', 'x', 'z', None, I(7)],
    [True, False, I(1), I(0), 'true'],
    [L(I(1), 'a.0,'), L(I(1), 'a,'), L(L(I(1))), L(L(F(1.0))), O(['a', L(I(1))]), O(['a', L(F(1.0))])],
    ['a\\', 'a\\\\', 'a"', 'a\\"', 'a\n', 'a\\n', 'a', "a'"],
    ['\u00e9', 'e\u0301', 'E\u0301', '\u00c9', '\U0001f600', '\ud7ff', '\uffff', 'e'],
]
MEASURE_CLEAN = [I(0), I(1), I(2), I(3), I(-3), I(6), F(0.5), F(2.0), F(-1.25), F(4.75), F(1.0), None, None, I(10), F(0.1), F(0.2), F(0.3), F(1e16), F(-1e16)]
MEASURE_DIRTY = ['s', 't', True, False, D(2021, 5, 6), D(2020, 1, 1), L(I(1)), O(['k', I(1)]), '1']
MEASURE_STR = ['b', 'a', 'ab', '', 'B', None]
MEASURE_DT = [D(2021, 5, 6), D(2020, 1, 1), D(2020, 1, 1, 0, 0, 1), None]
FUNCTIONS = ['average', 'count', 'max', 'min', 'stddev', 'sum']
FILTER_EXPRS = ['a', 'b', 'a == 1', "a == '1'", 'a == b', 'b > 1', '!a', 'a && b', 'a || b', 'if(a, b, c)', 'a != null', 'a2', '[x y]', 'k',
                'vv == a', 'a * 2', 'a + b', 'a < b', 'a3', "a == 'a,'", 'a >= 2', 'true', 'null', "''", 'b - 1', 'c', 'arrayLength(a)', 'a == vv']
CALC_EXPRS = ['a', 'b * 2', 'a + b', 'if(a, 1, 0)', 'vv', 'null', 'arrayNew(a, b)', 'a2', "'' + a", 'b / 4', 'a == b', '[x y]', 'objectNew(\'k\', a)',
              'max(b, 1)', 'b - 1', 'k', '1', "'a,'"]
RAISING_EXPRS = ['unknownFn(a)', 'if(b, unknownFn(a), 1)', 'a && nope(1)']
JOIN_EXPRS = ['a', 'a', 'a', 'k', 'b', 'a2', 'a + 0', "'' + a", 'if(a, a, b)', 'vv']
DESC_FLAGS = [None, True, False, I(1), I(0), '', 'x', F(0.0), F(1.0), L(), L(I(0)), O(), O(['k', I(1)])]


def gen_rows(rng, fields, keypool, nmax=12, measure_pool=None, key_fields=None, n=None):
    """n: the exact row count (SCALE axis); default: drawn from 0..nmax"""
    if n is None:
        n = rng.choice([0, 1, 2, 3, 4, 5, 6, 8, 10, 12]) if nmax >= 12 else rng.randint(0, nmax)
    key_fields = key_fields if key_fields is not None else fields[:max(1, len(fields) - 1)]
    rows = []
    for _ in range(n):
        order = list(fields)
        if rng.random() < 0.15:
            rng.shuffle(order)
        row = []
        for f in order:
            if rng.random() < 0.12:
                continue
            if f in key_fields or measure_pool is None:
                row.append([f, rng.choice(keypool)])
            else:
                row.append([f, rng.choice(measure_pool)])
        rows.append(row)
    return rows


def gen_case(rng):
    op = rng.choice(['filter', 'calc', 'sort', 'sort', 'top', 'top', 'aggregate', 'aggregate', 'aggregate', 'join', 'join', 'join'])
    fields = list(rng.choice(FIELD_POOLS))
    rng.shuffle(fields)
    fields = fields[:rng.randint(1, 5)]
    pool = list(rng.choice(KEY_GROUPS))
    if rng.random() < 0.3:
        pool = pool + list(rng.choice(KEY_GROUPS))
    keypool = rng.sample(pool, min(len(pool), rng.randint(2, 5)))
    case = {'op': op, 'via': rng.choice(['direct', 'script'])}
    if op == 'filter':
        case['rows'] = gen_rows(rng, fields, keypool)
        case['expr'] = rng.choice(FILTER_EXPRS) if rng.random() < 0.93 else rng.choice(RAISING_EXPRS)
        if 'vv' in case['expr'] or rng.random() < 0.1:
            case['vars'] = O(['vv', rng.choice(keypool)])
    elif op == 'calc':
        case['rows'] = gen_rows(rng, fields, keypool + [I(2), F(0.5)])
        case['expr'] = rng.choice(CALC_EXPRS) if rng.random() < 0.93 else rng.choice(RAISING_EXPRS)
        case['field'] = rng.choice(fields + ['z', 'a', 'a2', 'new field'])
        if 'vv' in case['expr'] or rng.random() < 0.1:
            case['vars'] = O(['vv', rng.choice(keypool)])
    elif op == 'sort':
        case['rows'] = gen_rows(rng, fields, keypool)
        sorts = []
        for _ in range(rng.choice([1, 1, 2, 2, 3])):
            f = rng.choice(fields + ['missing'])
            flag = rng.choice(DESC_FLAGS)
            sorts.append(L(f) if flag is None and rng.random() < 0.7 else L(f, flag))
        if rng.random() < 0.03:
            sorts.append(rng.choice([L(), 'ab', L(I(1))]))
        case['sorts'] = sorts
    elif op == 'top':
        case['rows'] = gen_rows(rng, fields, keypool)
        r = rng.random()
        if r < 0.8:
            case['count'] = F(rng.choice([1, 1, 2, 2, 3, 5, 20]))
        elif r < 0.9:
            case['count'] = I(rng.choice([1, 2, 3]))
        else:
            case['count'] = rng.choice([F(0), F(1.5), F(-1), I(0), F(2.000001)])
        case['fields'] = None if rng.random() < 0.25 else [rng.choice(fields + ['missing']) for _ in range(rng.choice([1, 1, 2, 3]))]
    elif op == 'aggregate':
        nkeys = rng.randint(0, max(0, len(fields) - 1))
        key_fields = fields[:nkeys]
        measure_fields = fields[nkeys:] or ['m']
        kind = rng.random()
        if kind < 0.6:
            mpool = MEASURE_CLEAN
        elif kind < 0.7:
            mpool = MEASURE_STR
        elif kind < 0.8:
            mpool = MEASURE_DT
        else:
            mpool = MEASURE_CLEAN + rng.sample(MEASURE_DIRTY, 2)
        case['rows'] = gen_rows(rng, fields, keypool, measure_pool=mpool, key_fields=key_fields)
        case['categories'] = None if not key_fields or rng.random() < 0.15 else [rng.choice(key_fields + ['missing']) for _ in range(rng.choice([1, 1, 2]))]
        measures = []
        used = set()
        for _ in range(rng.choice([1, 1, 2, 3])):
            m = {'field': rng.choice(measure_fields + ['missing']), 'function': rng.choice(FUNCTIONS)}
            r = rng.random()
            if r < 0.45 or m['field'] in used:
                m['name'] = rng.choice(['n1', 'n2', 'n3', 'total', 'a9'])
            if r > 0.97:
                m['name'] = rng.choice(fields)         # collides with a category / another measure: outside the model
            if m.get('name', m['field']) in used and rng.random() < 0.8:
                continue
            used.add(m.get('name', m['field']))
            measures.append(m)
        case['measures'] = measures or [{'field': measure_fields[0], 'function': 'count'}]
    else:
        rfields = list(rng.choice(FIELD_POOLS))
        rng.shuffle(rfields)
        rfields = rfields[:rng.randint(1, 5)]
        if rng.random() < 0.7 and 'a' not in rfields:
            rfields[0] = 'a'
        if 'a' not in fields and rng.random() < 0.7:
            fields[0] = 'a'
        case['rows'] = gen_rows(rng, fields, keypool, nmax=8, key_fields=fields)
        case['right'] = gen_rows(rng, rfields, keypool, nmax=8, key_fields=rfields)
        case['expr'] = rng.choice(JOIN_EXPRS) if rng.random() < 0.95 else rng.choice(RAISING_EXPRS)
        case['rexpr'] = None if rng.random() < 0.6 else rng.choice(JOIN_EXPRS)
        case['isLeftJoin'] = rng.random() < 0.5
        if 'vv' in case['expr'] or 'vv' in (case['rexpr'] or '') or rng.random() < 0.1:
            case['vars'] = O(['vv', rng.choice(keypool)])
    return case


def case_tags(case, run, model):
    tags = [case['op'], 'via-' + case.get('via', 'direct'), 'rows%d' % min(len(case['rows']), 12)]
    if run['status'] == 'raised':
        tags.append('impl-raised')
    elif run['result'] is None:
        tags.append('impl-null')
    if model is not None and model.get('unmodelled'):
        tags.append('unmodelled')
    if case['op'] == 'aggregate':
        tags += ['fn-' + m['function'] for m in case['measures']]
    if case['op'] == 'sort':
        tags.append('keys%d' % len(case['sorts']))
    if case['op'] == 'join':
        tags.append('leftjoin' if left_flag(case) else 'keep-unmatched')
    return tags


def nontrivial(case, run):
    if len(case['rows']) < 2:
        return False
    if case['op'] == 'join':
        return len(case['right']) >= 1
    return True


def load_corpus():
    path = os.path.join(fw.VERIF, 'harness', 'corpus', 'C19.jsonl')
    out = []
    if os.path.exists(path):
        with open(path, encoding='utf-8') as fh:
            for ln in fh:
                ln = ln.strip()
                if ln and not ln.startswith('#'):
                    out.append(json.loads(ln))
    return out


# ---------------------------------------------------------------------------------------------------------------------
# Stream `data`
# ---------------------------------------------------------------------------------------------------------------------

def check_data_case(ctx, st, case, resp, stream='data', tags=None):
    """run the implementation on one case, compare with the model answer, run the oracles"""
    run = run_case_with_ids(case)
    model = model_view(case, resp) if resp is not None else None
    st.case(case, nontrivial=nontrivial(case, run), tags=case_tags(case, run, model) + list(tags or []))
    if model is not None and 'bad' in model:
        ctx.disagree(stream, case, 'request', model, 'driver rejected the request')
    elif model is not None and not model.get('unmodelled'):
        ctx.compare(stream, case, impl_view(case, run, model), model)
        # the spec layer must agree with the mirror (theorems filter_spec/top_spec/aggregate_spec, re-checked on the wire)
        if 'spec' in resp and resp['spec'] != (resp.get('model') if case['op'] == 'aggregate' else resp.get('rows')):
            ctx.disagree(stream, case, 'mirror', resp, 'mirror and spec layer differ in the driver')
    for oracle, want, got in oracles(case, run):
        ctx.witness(oracle, case, want, got)


def run_case_with_ids(case, options=None):
    return run_case(case, options)


def data_cases(ctx, rng, n):
    cases = [c for c in load_corpus() if c.get('op') in ('filter', 'calc', 'sort', 'top', 'aggregate', 'join') and c.get('stream') != 'host']
    for _ in range(n):
        cases.append(gen_case(rng))
    return cases


def stream_data(ctx):
    st = ctx.stream('data', 'random tables <= 12 rows x 5 fields (duplicate keys, nulls, missing fields, mixed key types 1 / 1.0 / "1" / true / datetime / its '
                            'ISO text, colliding field names a a2 a3 on both sides, key strings with JSON punctuation, nested arrays/objects as keys) through '
                            'dataFilter / dataCalculatedField / dataSort (multi-key, descending flags of every truthiness) / dataTop (float counts, invalid '
                            'counts) / dataAggregate (all six functions, mixed-type measures) / dataJoin (left/right expressions, variables, both flag '
                            'values), each via execute_script or the library function; implementation vs mirror vs spec layer + reference oracles; '
                            'non-trivial = at least 2 rows (join: and a right row)')
    rng = ctx.rng('data')
    cases = data_cases(ctx, rng, ctx.scale(20000, 200000))
    reqs = [case_request(c) for c in cases]
    resps = ctx.driver.batch(reqs)
    for case, resp in zip(cases, resps):
        check_data_case(ctx, st, case, resp)


# ---------------------------------------------------------------------------------------------------------------------
# Stream `key`: the typed bucket key against typed value equality
# ---------------------------------------------------------------------------------------------------------------------

def key_pool():
    pool = []
    for g in KEY_GROUPS:
        for s in g:
            if s not in pool:
                pool.append(s)
    pool += [F(2.0), I(2), L(I(1), I(2)), L(I(1), F(2.0)), L(I(2), I(1)), O(['a', None]), O(['a', None], ['b', None]), L(L()), L(O()), O(['k', L()]),
             D(2020, 1, 1, 0, 0, 0, 0), D(2019, 12, 31, 23, 59, 59, 999999), 'datetime', 'number', L('number', I(1)), O(['number', I(1)])]
    return pool


def stream_key(ctx):
    st = ctx.stream('key', 'all ordered pairs of a pool of key values (scalars of every type incl. 1 / 1.0 / "1" / true, datetime vs ISO text, strings '
                           'with JSON punctuation, nested arrays/objects, objects in two insertion orders): _bucket_key(a) == _bucket_key(b) (and equal '
                           'hash) on the implementation vs typed value equality (oracle) vs the model key and value_compare; non-trivial = different specs')
    data = fw.impl()['data']
    pool = key_pool()
    vals = [build(s) for s in pool]
    pairs = [(i, j) for i in range(len(pool)) for j in range(len(pool))]
    resps = ctx.driver.batch([{'op': 'key', 'a': enc(vals[i]), 'b': enc(vals[j])} for i, j in pairs])
    for (i, j), resp in zip(pairs, resps):
        a, b = vals[i], vals[j]
        ka, kb = data._bucket_key(a), data._bucket_key(b)  # pylint: disable=protected-access
        impl_eq = ka == kb
        st.case([pool[i], pool[j]], nontrivial=i != j, tags=[tname(a), 'equal' if impl_eq else 'different'])
        ctx.compare('key', [pool[i], pool[j]], {'keyEq': impl_eq, 'cmp0': typed_equal(a, b)}, {'keyEq': resp.get('keyEq'), 'cmp0': resp.get('cmp') == 0})
        want = typed_equal(a, b)
        if impl_eq != want or (impl_eq and hash(ka) != hash(kb)):
            ctx.witness('bucket-key-is-typed-value-equality', [pool[i], pool[j]], want, impl_eq)
    st.exhaustive = True


# ---------------------------------------------------------------------------------------------------------------------
# Stream `csv`
# ---------------------------------------------------------------------------------------------------------------------

DATELIKE = ['2024-02-30', '2024-13-01', '2024-01-01T25:00:00Z', '2023-02-29', '2024-00-10', '2024-01-00', '0000-01-01', '2024-01-01T00:60:00Z',
            '2024-01-01T00:00:60Z', '2024-01-01T00:00:00+24:00', '2024-04-31', '2024-01-01T00:00:00', '2024-1-1', '2024-01-01 00:00:00Z',
            '2024-01-01T00:00:00.1234567Z', '2024-01-01T00:00:00+0530']
STRINGS = ['abc', 'a,b', 'say "hi"', '"', 'x y', ' lead', 'trail ', 'a\nb', 'a\r\nb', 'l1\nl2\n', '\n', 'né', '€', 'NULL', 'True', 'nul', '1a', 'e5', '-', '.', '1,5', '1 2',
           '0x10', 'tru', ',', '""', "it's", 'a.0,', ']', '#', 'nan', 'inf', '-inf', 'Infinity', '1_0'] + DATELIKE
NUMLIKE = ['1', '1.5', '-2', '1e3', ' 7', '7 ', '+3', '.5', '5.', '1_000', '0', '1E-2', '٣', '1e400', '00', '-0']
BOOLLIKE = ['true', 'false']
DATETIMELIKE = ['2024-02-29', '2024-01-01T00:00:00Z', '2024-01-01T12:30:45.123+05:30', '0001-01-01', '9999-12-31', '2024-01-01T00:00:00.5-03:00',
                '0001-01-01T00:00:00+05:00', '9999-12-31T23:59:59-05:00', '2024-01-01T00:00:00.999999Z', '2024-06-30T23:59:59+00:00']
NULLS = ['', 'null']
HEADERS = ['a', 'b', 'c', 'd e', 'x,y', 'n"q', 'a2', 'k']


# Characters str.splitlines treats as line ends besides CR and LF (VT, FF, FS, GS, RS, NEL, LS, PS).  RFC 4180 knows CR, LF and CRLF only: the
# harness writer leaves these characters unquoted and they must survive the round trip (F32: dataParseCSV used str.splitlines).
LINESEPS = ['\x0b', '\x0c', '\x1c', '\x1d', '\x1e', '\x85', '\u2028', '\u2029']
MUST_QUOTE = set(',"\n\r')


def ref_split_lines(text):
    """the physical lines of a CSV text, line ends kept: a line ends after LF, after CRLF, or after a CR that no LF follows (RFC 4180 record
    ends plus the lone CR of old Mac files); nothing else ends a line.  Written by hand: no str.splitlines, no regular expression."""
    lines, start, i, n = [], 0, 0, len(text)
    while i < n:
        ch = text[i]
        if ch == '\n' or (ch == '\r' and not (i + 1 < n and text[i + 1] == '\n')):
            lines.append(text[start:i + 1])
            start = i + 1
        i += 1
    if start < n:
        lines.append(text[start:])
    return lines


def csv_quote(text, style='minimal'):
    """RFC 4180 cell: quoted (quotes doubled) when it contains , " CR or LF - and when it starts with a blank, which dataParseCSV skips after a
    delimiter by design (skipinitialspace, pinned by the test suite); style 'all' quotes every cell"""
    if style != 'all' and (text == '' or not any(ch in MUST_QUOTE for ch in text) and text[0] != ' '):
        return text
    return '"' + text.replace('"', '""') + '"'


def write_csv(header, records, eol='\n', style='minimal', quote_lone_empty=False, verbatim=()):
    """quote_lone_empty: a record that is one empty cell is written "" (a bare empty line would be a blank line, which CSV readers skip);
    verbatim: column indices whose cells are written as they are (hand-written / malformed CSV); eol: a string or a function line index -> string"""
    lines = [','.join(csv_quote(h, style) for h in header)]
    for rec in records:
        if quote_lone_empty and len(rec) == 1 and rec[0] == '':
            lines.append('""')
        else:
            lines.append(','.join(c if i in verbatim else csv_quote(c, style) for i, c in enumerate(rec)))
    if isinstance(eol, str):
        return eol.join(lines)
    return ''.join(ln + (eol(i) if i + 1 < len(lines) else '') for i, ln in enumerate(lines))


# String values of every flavour a CSV reader option or a text clean-up step could be sensitive to: each ASCII punctuation character (any of
# them may be somebody's escape character, quote character or delimiter), blanks and tabs at either end, line ends of the three conventions
# (alone, doubled, after a backslash), the other str.splitlines separators, control characters, Latin-1 / BMP / astral text in composed and
# decomposed form, byte-order mark, no-break and zero-width spaces, text that looks like another dialect's quoting or escaping, spreadsheet
# formulas, spellings of null / booleans / numbers in other conventions.
TEXT_TEMPLATES = [
    'C:\\temp\\new folder\\readme.txt', '\\\\server\\share\\', '^\\d{4}-\\d{2}$', '\\', '\\\\', 'ends with a backslash\\', '\\"', 'a\\"b', '"\\"',
    '\\n', 'tab\\there', 'a\\,b', '\\,', '\\\n', 'x\\\ny', 'x\\\r\ny', 'x\\\ry', '\\ ', ' \\', '\\x41', '\\u0041', '%5C', '&quot;', '\\\\"', 'a\\\\',
    "'single'", "'a,b'", "'", "''", "it''s", "'a\nb'", '`a,b`', '"a"', '"a', 'a"', '""a""', '"""', 'a""b', '" "', '","', '"\n"',
    'a;b', 'a\tb', '\tlead tab', 'trail tab\t', '\t', 'a|b', 'a:b', 'a b', '  two lead', 'two trail  ', ' ', '  ', ' , ', ', ', ' ,', ' "q"', ' \'q\'',
    'a\rb', '\r', 'a\n\nb', '\n\n', '\r\n', 'a\r\n', '\na', 'a\n', 'a\r', '\ra', 'a\n\rb', 'l1\r\nl2\nl3\rl4', 'a,\nb', 'a\n,b', '"\n', '\n"', 'a\n"b"\nc',
    'a\x0bb', 'a\x0cb', 'a\x1cb', 'a\x1db', 'a\x1eb', 'a\x85b', 'a\u2028b', 'a\u2029b', '\x0c', 'a\x0c', '\u2028a', 'a\x0b,"b',
    'a\x00b', '\x00', 'a\x01b', 'a\x08b', 'a\x1bb', 'a\x1fb', '\x1fa', 'a\x1f', 'a\x7fb', '\x7f',
    '{"k": "v\\n"}', '["a", 1]', '{"a":1,"b":"x,y"}', '<a href="x">', 'a=b&c=d', 'a/b/c', '/*c*/', '//', '--', '#', '#x', '# c', 'a#b',
    '\u00e9', 'e\u0301', '\u00c5', 'A\u030a', '\u212b', '\ufb01', '\u00a0nbsp', 'nbsp\u00a0', '\u00a0', '\ufeffbom', 'bom\ufeff', '\ufeff', '\u200bzw', 'zw\u200b', '\u3000wide',
    '\u00df', 'SS', '\u0130', 'i\u0307', '\u01c5', '\u65e5\u672c\u8a9e', '\uff0c', '\uff02', '\u201cq\u201d', '\u2018q\u2019', '\u00ab', '\uff3c', '\u2216', '\u00ad', '\u0660\u0661', 'a\u0663',
    '\U0001f600', 'a\U0001f600"b', '\U0001f600,\U0001f600', '\U0001d7d8x', '\U00010000', '\U0010ffff', '\U0001f468\u200d\U0001f469', '\ud7ff', '\ue000', '\uffff', '\ufffd',
    '=1+1', '=SUM(A1,B1)', '@x', '-x', '+x', '%s', '%', '$1', '$', '#N/A', 'N/A', 'NaN', 'None', 'TRUE', 'False', 'FALSE', 'Null', 'nil', 'NA', '-', '\\N',
    '0x1p3', '1e', 'e', '--1', '1-1', '1,000', '1.000,5', '1 000', '1/2', '50%', '$5', '1e5x', '1.2.3', 'v1', '1st', '12:30', '2024-01', '24-01-01', '01/02/2024',
    'true ', ' true', 'True', 'yes', 'no', 'on', 'null ', ' null', 'nullx', 'undefined',
]
# cells of hand-written CSV that no RFC 4180 writer produces: stray and unbalanced quotes, text after a closing quote, blanks around quoted
# cells, an unterminated quoted cell (swallows the rest of the text).  Written verbatim; what the cells are is csv.reader's business (trusted
# base), the typing of the resulting cells is checked.
MALFORMED = ['a"b', '"a"b', '"a" ', '"a"  x', '"a""', '"abc', 'a""', '""a', '"', 'a"', ' "a"', '"a"\t', '"a\\"', '"a\\"b"', "'a", '"1"5', '"tr"ue', '"2024-02-30"x', '""', '" "']
TEXT_CLASSES = [
    (8, list('abzAZ')), (3, list('019')), (6, ['\\', '"', "'", ',']), (8, list('!#$%&()*+-./:;<=>?@[]^_`{|}~')), (4, [' ', '\t']),
    (3, ['\n', '\r', '\r\n']), (1, LINESEPS), (1, ['\x00', '\x01', '\x08', '\x1b', '\x1f', '\x7f']),
    (2, ['\u00e9', 'e\u0301', '\u00df', '\u00a0', '\u00ad', '\u00ff', '\u00d7']), (2, ['\u65e5', '\u0663', '\u200b', '\ufeff', '\u3000', '\uff0c', '\uff3c', '\u201c', '\u0301', '\ufffd']),
    (1, ['\U0001f600', '\U0001d7d8', '\U00010000', '\U0010ffff', '\U0001f1e6']),
]
_TEXT_WEIGHTS = [w for w, _ in TEXT_CLASSES]


def gen_text(rng):
    """a string value: a template, or 1..6 tokens drawn from weighted character classes (punctuation-heavy)"""
    r = rng.random()
    if r < 0.02:
        return ''
    if r < 0.3:
        return rng.choice(STRINGS)
    if r < 0.6:
        return rng.choice(TEXT_TEMPLATES)
    n = rng.choice([1, 1, 2, 2, 3, 3, 4, 5, 6])
    return ''.join(rng.choice(rng.choices(TEXT_CLASSES, _TEXT_WEIGHTS)[0][1]) for _ in range(n))


def cell_text(v, null_text, date_only=False):
    """canonical cell text of a typed value (what a writer produces)"""
    value, library = fw.impl()['value'], fw.impl()['library']
    if v is None:
        return null_text
    if isinstance(v, bool):
        return 'true' if v else 'false'
    if isinstance(v, (int, float)):
        return value.value_string(v)
    if isinstance(v, datetime.datetime):
        return library.SCRIPT_FUNCTIONS['datetimeISOFormat']([v, date_only], None)
    return v


def local_offset():
    """the fixed UTC offset (seconds) of the zone the stream runs in"""
    return -time.timezone


def ref_parse_datetime(text, off):
    """value_parse_datetime written from its documentation: ISO date (local midnight) or ISO datetime with Z/offset, converted to the local
    fixed-offset zone, cut to the millisecond; invalid calendar values are not datetimes"""
    m = re.fullmatch(r'(\d{4})-(\d{2})-(\d{2})', text, re.ASCII)
    if m:
        y, mo, d = (int(g) for g in m.groups())
        if 1 <= y <= 9999 and 1 <= mo <= 12 and 1 <= d <= calendar.monthrange(y, mo)[1]:
            return datetime.datetime(y, mo, d)
        return None
    m = re.fullmatch(r'(\d{4})-(\d{2})-(\d{2})T(\d{2}):(\d{2}):(\d{2})(?:\.(\d{1,6}))?(Z|[+-]\d{2}:\d{2})', text, re.ASCII)
    if not m:
        return None
    y, mo, d, h, mi, s = (int(g) for g in m.groups()[:6])
    us = int((m.group(7) or '0').ljust(6, '0'))
    z = m.group(8)
    if not (1 <= y <= 9999 and 1 <= mo <= 12 and 1 <= d <= calendar.monthrange(y, mo)[1] and h <= 23 and mi <= 59 and s <= 59):
        return None
    if z == 'Z':
        zoff = 0
    else:
        zh, zm = int(z[1:3]), int(z[4:6])
        if zh > 23 or zm > 59:
            return None
        zoff = (zh * 3600 + zm * 60) * (-1 if z[0] == '-' else 1)
    try:
        utc = datetime.datetime(y, mo, d, h, mi, s, us) - datetime.timedelta(seconds=zoff)
        loc = utc + datetime.timedelta(seconds=off)
    except OverflowError:
        return None
    return loc.replace(microsecond=loc.microsecond // 1000 * 1000)


def ref_parse_number(text):
    try:
        x = float(text)
    except ValueError:
        return None
    return None if x != x or x in (math.inf, -math.inf) else x


def ref_cell_type(text, off):
    if text in ('', 'null'):
        return None
    if ref_parse_datetime(text, off) is not None:
        return 'datetime'
    if text in ('true', 'false'):
        return 'boolean'
    if ref_parse_number(text) is not None:
        return 'number'
    return 'string'


def ref_parse_csv(header, records, off):
    """reference typing: a column has the type of its first determinable cell (string by default); every cell must convert. -> rows | None"""
    types = {}
    for h in header:
        types[h] = None
    seen = set()
    for rec in records:
        for h, c in zip(header, rec):
            seen.add(h)
            if types[h] is None and c is not None:
                types[h] = ref_cell_type(c, off)
    rows = []
    for rec in records:
        row = {}
        for ix, h in enumerate(header):
            c = rec[ix] if ix < len(rec) else None
            t = types[h] or 'string'
            if c is None or c == 'null':
                row[h] = None
            elif t == 'string':
                row[h] = c
            elif c == '':
                row[h] = None
            else:
                v = {'number': ref_parse_number, 'datetime': lambda s: ref_parse_datetime(s, off),
                     'boolean': lambda s: {'true': True, 'false': False}.get(s)}[t](c)
                if v is None:
                    return None
                row[h] = v
        rows.append(row)
    return rows


def round_model_nums(e):
    """model numbers of parsed CSV cells are the exact rationals the text denotes: round to the double float() returns"""
    if isinstance(e, dict) and e.get('t') == 'num':
        p, q = e['v']
        try:
            fr = Fraction(p / q)
        except OverflowError:
            return e
        return {'t': 'num', 'v': [fr.numerator, fr.denominator]}
    if isinstance(e, dict) and e.get('t') in ('obj',):
        return {'t': 'obj', 'v': [[k, round_model_nums(v)] for k, v in e['v']]}
    if isinstance(e, list):
        return [round_model_nums(x) for x in e]
    return e


def gen_typed_column(rng, kind, n):
    """-> (values, clean) : typed values of one type with nulls; clean = the round-trip side conditions hold by construction"""
    vals = []
    for _ in range(n):
        if rng.random() < 0.2:
            vals.append(None)
        elif kind == 'number':
            vals.append(rng.choice([0, 1, -1, 2, 17, 10 ** 6, 2 ** 53, -(2 ** 53), 10 ** 21, 0.5, -0.25, 1.5, 0.1, 1e16, 1e21, 1e-7, 1.25e-5, 123456.789,
                                    2.0, -0.0, 1e300, 5e-324, 3.0e5, float(rng.randint(-10 ** 6, 10 ** 6)) / 8, rng.randint(-10 ** 9, 10 ** 9)]))
        elif kind == 'boolean':
            vals.append(rng.random() < 0.5)
        elif kind == 'datetime':
            y = rng.choice([1970, 1999, 2000, 2024, 2038, 1900, 2100, 1000, 9000])
            mo = rng.randint(1, 12)
            d = rng.randint(1, calendar.monthrange(y, mo)[1])
            if rng.random() < 0.3:
                vals.append(datetime.datetime(y, mo, d))
            else:
                vals.append(datetime.datetime(y, mo, d, rng.randint(0, 23), rng.randint(0, 59), rng.randint(0, 59), rng.choice([0, 0, 1000, 123000, 999000])))
        else:
            vals.append(gen_text(rng))
    return vals


def gen_header(rng, ncols):
    """pairwise different non-empty column names: mostly the fixed pool, sometimes generated text (backslashes, quotes, line ends, non-ASCII)"""
    header = rng.sample(HEADERS, ncols)
    for i in range(ncols):
        if rng.random() < 0.12:
            h = gen_text(rng)
            if h != '' and h not in header:
                header[i] = h
    return header


def gen_csv_case(rng, off):
    ncols = rng.randint(1, 5)
    nrows = rng.choice([0, 1, 2, 3, 5, 8, 12])
    header = gen_header(rng, ncols)
    kinds = [rng.choice(['number', 'boolean', 'datetime', 'string', 'string', 'raw']) for _ in range(ncols)]
    cols, typed = [], []
    verbatim = set()
    for kind in kinds:
        if kind == 'raw' and rng.random() < 0.12:
            verbatim.add(len(cols))
            pool = MALFORMED + ['x', '1', 'null', '']
            cols.append([rng.choice(pool) for _ in range(nrows)])
            typed.append(None)
        elif kind == 'raw':
            # arbitrary cell texts: mixtures that may fail to convert (whole parse -> null)
            pool = rng.choice([NUMLIKE + NULLS, BOOLLIKE + NULLS + ['1'], DATETIMELIKE + DATELIKE + NULLS, STRINGS + NUMLIKE + NULLS, DATETIMELIKE + NULLS,
                               NUMLIKE + ['abc'], TEXT_TEMPLATES + NULLS, NUMLIKE + [n + w for n in ('1', '2.5') for w in LINESEPS + ['\x1f', '\u00a0', '\t', '\\']]])
            cols.append([rng.choice(pool) for _ in range(nrows)])
            typed.append(None)
        else:
            vals = gen_typed_column(rng, kind, nrows)
            # side conditions of the round trip: '' is the null text of typed (non-string) columns with at least one non-null cell only; a lone ''
            # cell is a blank line, which csv skips
            null_text = 'null' if ncols == 1 or kind == 'string' or all(v is None for v in vals) or rng.random() < 0.5 else ''
            date_only = kind == 'datetime' and rng.random() < 0.3
            texts = []
            for v in vals:
                if isinstance(v, datetime.datetime) and date_only and (v.hour, v.minute, v.second, v.microsecond) != (0, 0, 0, 0):
                    v = datetime.datetime(v.year, v.month, v.day)
                    vals[len(texts)] = v
                texts.append(cell_text(v, null_text, date_only))
            cols.append(texts)
            typed.append({'kind': kind, 'values': [spec_of(v) for v in vals]})
    records = [[cols[c][r] for c in range(ncols)] for r in range(nrows)]
    short = rng.random() < 0.1 and ncols > 1
    if short and records:
        r = rng.randrange(len(records))
        records[r] = records[r][:rng.randint(1, ncols - 1)]
    eol = rng.choice(['\n', '\n', '\n', '\r\n', '\r\n', '\r'])
    # the writer: minimal RFC 4180 quoting or every cell quoted; a lone empty *string* is written "" (a bare empty line is no record)
    style = 'all' if rng.random() < 0.2 else 'minimal'
    mixed = rng.random() < 0.05
    eols = [rng.choice(['\n', '\r\n', '\r']) for _ in range(nrows + 1)]
    text = write_csv(header, records, (lambda i: eols[i]) if mixed else eol, style, quote_lone_empty=kinds == ['string'], verbatim=verbatim)
    final_eol = rng.random() < 0.3
    text += eol if final_eol else ''
    simple = not mixed and not verbatim and not any(ch in ''.join(header) + ''.join(''.join(r) for r in records) for ch in '\r\n')
    lines = text.split(eol) if simple else None
    chunks = [text]
    if lines is not None and len(lines) > 1 and rng.random() < 0.5:
        cut = sorted(rng.sample(range(1, len(lines)), min(len(lines) - 1, rng.randint(1, 3))))
        chunks = [eol.join(lines[a:b]) for a, b in zip([0] + cut, cut + [len(lines)])]
        if rng.random() < 0.3:
            chunks.insert(rng.randint(0, len(chunks)), None)
        if rng.random() < 0.1:
            # an empty text adds nothing, wherever it stands (before the header chunk too: regression of the first F32 patch, fixed)
            chunks.insert(rng.randint(0, len(chunks)), '')
    linecut = False
    if len(chunks) == 1 and rng.random() < 0.25:
        # several chunk arguments cut at physical line ends (the line end stays with its line), also inside quoted multi-line cells and in
        # malformed text: exactly the same physical lines reach the reader as for the whole text
        phys = ref_split_lines(text)
        if len(phys) > 1:
            cut = sorted(rng.sample(range(1, len(phys)), min(len(phys) - 1, rng.randint(1, 3))))
            chunks = [''.join(phys[a:b]) for a, b in zip([0] + cut, cut + [len(phys)])]
            if rng.random() < 0.2:
                chunks.insert(rng.randint(0, len(chunks)), rng.choice([None, '']))
            linecut = True
    return {'header': header, 'records': records, 'typed': typed, 'chunks': chunks, 'off': off, 'short': short, 'malformed': bool(verbatim),
            'via': 'script' if rng.random() < 0.1 else 'direct', 'linecut': linecut, 'hstr': rng.random() < 0.05}


def split_cells(case):
    """the cells of the text: physical lines by ref_split_lines, cells and quoting by csv.reader (trusted base): header + records with None for
    missing cells"""
    lines = []
    for chunk in case['chunks']:
        if chunk is not None:
            lines.extend(ref_split_lines(chunk))     # CR / LF / CRLF only; line ends inside quoted cells are kept (F26)
    rd = csv.reader(lines, skipinitialspace=True)
    rows = [r for r in rd]
    if not rows:
        return None, []
    header = rows[0]
    recs = []
    for r in rows[1:]:
        if not r:
            continue
        recs.append([r[i] if i < len(r) else None for i in range(len(header))] + r[len(header):])
    return header, recs


def check_csv_case(ctx, st, case, resp, header, recs, stream='csv', tags=None):
    library = fw.impl()['library']
    off = case['off']
    try:
        res = library.SCRIPT_FUNCTIONS['dataParseCSV'](list(case['chunks']), None)
        impl = {'rows': enc_table(res)}
    except TypeError as exc:
        m = re.match(r'Invalid "(.*)" field value .*, expected type (\w+)$', str(exc), re.S)
        res = None
        impl = {'error': {'field': m.group(1), 'type': m.group(2)}} if m else {'exception': str(exc)}
    except Exception as exc:  # pylint: disable=broad-except
        res = None
        impl = {'exception': type(exc).__name__ + ': ' + str(exc)}
    tags = list(tags or []) + ['cols%d' % len(case['header']), 'parsed' if res is not None else 'failed'] + sorted({(t or {'kind': 'raw'})['kind'] for t in case['typed']})
    alltext = ''.join(c for c in case['chunks'] if c is not None)
    tags += [name for name, chars in (('backslash', '\\'), ('quote', '"'), ('apostrophe', "'"), ('tab', '\t'), ('linesep', LINESEPS), ('control', '\x00\x01\x08\x1b\x1f\x7f'))
             if any(ch in alltext for ch in chars)]
    if any(ord(ch) > 0xffff for ch in alltext):
        tags.append('astral')
    elif any(ord(ch) > 0x7f for ch in alltext):
        tags.append('non-ascii')
    if case.get('malformed'):
        tags.append('malformed')
    if case.get('via') == 'script':
        tags.append('via-script')
    if len(case['chunks']) > 1:
        tags.append('chunks')
    if case.get('hstr'):
        tags.append('str-subclass-chunks')
    if case.get('linecut'):
        tags.append('chunks-cut-in-multiline-text' if any(ch in ''.join(c or '' for r in case['records'] for c in r) for ch in '\r\n') else 'chunks-cut-at-line-ends')
    st.case({k: case[k] for k in ('header', 'records', 'chunks', 'off')}, nontrivial=len(case['records']) >= 1, tags=tags)
    if resp is not None:
        model = dict(resp)
        if 'rows' in model:
            model['rows'] = round_model_nums(model['rows'])
        ctx.compare(stream, case['chunks'], impl, model)
    # oracle 1: nothing but the documented TypeError escapes, and a date-like invalid cell never aborts the parse
    if 'exception' in impl:
        ctx.witness('csv-parse-does-not-abort', case['chunks'], 'table or field TypeError', impl['exception'])
        return
    # oracle 1a: text handed over by the embedding application as str-subclass instances parses like the plain strings
    if case.get('hstr'):
        try:
            sub = enc_table(library.SCRIPT_FUNCTIONS['dataParseCSV']([c if c is None else HStr(c) for c in case['chunks']], None))
        except Exception as exc:  # pylint: disable=broad-except
            sub = type(exc).__name__
        if sub != (impl.get('rows') if 'rows' in impl else 'TypeError'):
            ctx.witness('csv-str-subclass-chunks-equal-plain', case['chunks'], impl, sub)
            return
    # oracle 1b: chunk arguments cut at physical line ends parse like the whole text
    if case.get('linecut'):
        try:
            whole = enc_table(library.SCRIPT_FUNCTIONS['dataParseCSV'](['' .join(c for c in case['chunks'] if c is not None)], None))
        except Exception as exc:  # pylint: disable=broad-except
            whole = type(exc).__name__
        if whole != (impl.get('rows') if 'rows' in impl else 'TypeError'):
            ctx.witness('csv-chunks-cut-at-line-ends-equal-whole-text', case['chunks'], whole, impl)
            return
    # oracle 2: reference typing (records with surplus cells get a None key from csv.DictReader: outside the property)
    if header is not None and (len(set(header)) != len(header) or any(len(r) != len(header) for r in recs)):
        return
    want = ref_parse_csv(header, recs, off) if header is not None else []
    if (want is None) != (res is None) or (want is not None and enc_table(want) != enc_table(res)):
        ctx.witness('csv-reference-typing', case['chunks'], None if want is None else enc_table(want), impl)
        return
    # oracle 3: round trip of typed columns under the side conditions; date-like text stays a string
    if res is None or case['short'] or case.get('malformed'):
        return
    if case.get('via') == 'script':
        # the script function called from a script gives what the library function object gives
        status, val = call_lib('dataParseCSV', list(case['chunks']), 'script')
        if status != 'ok' or enc_table(val) != enc_table(res):
            ctx.witness('csv-script-call-equals-direct', case['chunks'], enc_table(res), [status, enc_table(val) if status == 'ok' else val])
            return
    if case['typed'] and all(t is not None for t in case['typed']):
        # a table written by the harness writer: one row per record written, the written column names in order (independent of the csv module)
        if len(res) != len(case['records']) or any(list(row.keys()) != list(case['header']) for row in res):
            ctx.witness('csv-roundtrip-shape', case['chunks'], {'header': list(case['header']), 'rows': len(case['records'])},
                        {'header': [list(row.keys()) for row in res[:1]], 'rows': len(res)})
            return
    if list(header) != list(case['header']) or len(res) != len(case['records']):
        return
    for h, t, col in zip(case['header'], case['typed'], range(len(case['header']))):
        if t is None:
            continue
        vals = [build(v) for v in t['values']]
        texts = [case['records'][r][col] for r in range(len(vals))]
        if t['kind'] == 'string':
            first = next((x for x in texts if x not in ('', 'null')), None)
            if first is not None and ref_cell_type(first, off) != 'string':
                continue                      # side condition: the first determinable string is not parseable as another type
            vals = [None if v == 'null' else v for v in vals]          # side condition: the string 'null' is the null text
        got = [row.get(h) for row in res]
        if len(got) != len(vals) or not all(typed_equal(g, v) for g, v in zip(got, vals)):
            ctx.witness('csv-typed-roundtrip', case['chunks'], [spec_of(v) for v in vals], [spec_of(g) for g in got])
            return
        for g, x in zip(got, texts):
            if x in DATELIKE and t['kind'] == 'string' and g != x:
                ctx.witness('datelike-kept-string', case['chunks'], x, spec_of(g))
                return


def with_zone(tzname, fn):
    old = os.environ.get('TZ')
    os.environ['TZ'] = tzname
    time.tzset()
    try:
        return fn()
    finally:
        if old is None:
            os.environ.pop('TZ', None)
        else:
            os.environ['TZ'] = old
        time.tzset()


def csv_fixed_cases(off):
    """the property's own examples"""
    out = []
    for text in DATELIKE:
        out.append({'header': ['a', 'b'], 'records': [[text, '1']], 'typed': [{'kind': 'string', 'values': [text]}, {'kind': 'number', 'values': [I(1)]}],
                    'chunks': ['a,b', f'{text},1'], 'off': off, 'short': False})
    out.append({'header': ['a'], 'records': [['2024-02-29'], ['2024-02-30']], 'typed': [None], 'chunks': ['a\n2024-02-29\n2024-02-30'], 'off': off, 'short': False})
    out.append({'header': ['a', 'b'], 'records': [['x,y', 'say "hi"']], 'typed': [{'kind': 'string', 'values': ['x,y']}, {'kind': 'string', 'values': ['say "hi"']}],
                'chunks': ['a,b\n"x,y","say ""hi"""'], 'off': off, 'short': False})
    return out


def stream_csv(ctx):
    st = ctx.stream('csv', 'typed tables (<= 12 rows x 5 columns of numbers incl. exponent forms / booleans / datetimes and dates / strings with quoted commas, '
                           'quotes, newlines, leading spaces and date-like invalid text, strings generated from all ASCII punctuation (backslash, apostrophe, '
                           'semicolon, tab, ...), lone CR / CRLF / LF, the Unicode line separators VT FF FS GS RS NEL LS PS (unquoted: not record ends), control characters, composed and decomposed '
                           'Latin-1/BMP/astral text, BOM/NBSP, other-dialect quoting and escaping look-alikes, the empty string / nulls as "" or "null"; '
                           'generated column names too) written as CSV by the harness writer (minimal or all-cells quoting; LF, CRLF, CR or mixed record '
                           'ends), 10% also called from a script; malformed hand-written cells (stray / unbalanced quotes) written verbatim; also '
                           'raw columns of number-like / boolean-like / datetime-like / invalid cells that may fail, short records, several chunk arguments '
                           'and null chunks; dataParseCSV vs model (split cells) vs reference typing + round-trip and date-like oracles; per fixed-offset '
                           'zone + written-shape oracle (one row per record, the written column names); non-trivial = at least one record')
    zones = [('UTC', 1.0)] if ctx.quick else [('UTC', 0.6), ('Etc/GMT+5', 0.2), ('Etc/GMT-3', 0.2)]
    total = ctx.scale(15000, 90000)
    for tzname, share in zones:
        def body(tzname=tzname, share=share):
            off = local_offset()
            rng = ctx.rng('csv', tzname)
            cases = csv_fixed_cases(off) + [c for c in load_corpus() if c.get('op') == 'csv' and c.setdefault('off', off) is not None]
            for _ in range(int(total * share)):
                cases.append(gen_csv_case(rng, off))
            split = [split_cells(c) for c in cases]
            reqs, idx = [], []
            for i, (c, (header, recs)) in enumerate(zip(cases, split)):
                if header is not None and len(set(header)) == len(header) and all(len(r) == len(header) for r in recs):
                    reqs.append({'op': 'csv', 'header': header, 'records': recs, 'off': off})
                    idx.append(i)
            resps = dict(zip(idx, ctx.driver.batch(reqs)))
            for i, (c, (header, recs)) in enumerate(zip(cases, split)):
                check_csv_case(ctx, st, c, resps.get(i), header, recs)
        with_zone(tzname, body)


def stream_cell(ctx):
    st = ctx.stream('csvcell', 'single cells: every text of the number-like / boolean-like / datetime-like / date-like-invalid / string pools as a one-cell '
                               'column: inferred type and converted value, implementation vs model vs reference typing; non-trivial = non-empty text')
    library = fw.impl()['library']
    texts = []
    for t in NUMLIKE + BOOLLIKE + DATETIMELIKE + DATELIKE + STRINGS + NULLS + TEXT_TEMPLATES + [n + w for n in ('1', '2.5', 'true', '2024-02-29') for w in
                                                                                                LINESEPS + ['\x1f', '\u00a0', '\t', '\\', '\n', '\r']]:
        if t not in texts:
            texts.append(t)
    off = local_offset()
    resps = ctx.driver.batch([{'op': 'csvCell', 'text': t, 'off': off} for t in texts])
    for t, resp in zip(texts, resps):
        chunks = ['c', csv_quote(t) if t != '' else '""']
        st.case(t, nontrivial=t != '', tags=[ref_cell_type(t, off) or 'null'])
        try:
            res = library.SCRIPT_FUNCTIONS['dataParseCSV'](list(chunks), None)
        except Exception as exc:  # pylint: disable=broad-except
            ctx.witness('csv-parse-does-not-abort', chunks, 'table', type(exc).__name__ + ': ' + str(exc))
            continue
        got = res[0]['c'] if res else None
        model = round_model_nums(resp.get('value'))
        ctx.compare('csvcell', t, {'type': ref_cell_type(t, off), 'value': enc(got)}, {'type': resp.get('type'), 'value': model})
        kind = ref_cell_type(t, off)
        want = {'datetime': lambda: ref_parse_datetime(t, off), 'number': lambda: ref_parse_number(t), 'boolean': lambda: t == 'true',
                'string': lambda: t, None: lambda: (None if t == 'null' else t)}[kind]()
        if not typed_equal(got, want):
            ctx.witness('csv-reference-typing', chunks, spec_of(want), spec_of(got))
        if t in DATELIKE and got != t:
            ctx.witness('datelike-kept-string', chunks, t, spec_of(got))
    st.exhaustive = True


# ---------------------------------------------------------------------------------------------------------------------
# Stream `host` / `hostkey`: tables that come from the embedding application (host-boundary values), host globals and variables whose names
# collide with field names, host callables in expressions, unusual but legal arguments
# ---------------------------------------------------------------------------------------------------------------------

HOST_ZONES = ['UTC', 'Etc/GMT-3', 'Etc/GMT+5']        # fixed-offset zones (POSIX sign: Etc/GMT-3 is UTC+3)
HOST_FILTER_EXPRS = ['a', 'b', 'a == b', 'a == vv', 'vv == a', '!a', 'a && b', 'a || b', 'a != null', 'a < b', 'a <= vv', 'if(a, b, c)', 'hostId(a)',
                     'hostBoom(a)', 'hostOdd(a)', 'hostKw(a)', 'k', 'a2', 'a || vv', '(a)', 'a != b', 'c', 'vv']
HOST_CALC_EXPRS = ['a', 'vv', 'a == b', 'if(a, a, b)', 'hostId(b)', 'arrayNew(a, b)', "objectNew('k', a)", 'null', 'a || vv', 'b', 'k', 'hostBoom(a)',
                   'a < vv', 'c', 'hostKw(a)']
HOST_JOIN_EXPRS = ['a', 'a', 'a', 'k', 'k', 'b', 'vv', 'if(a, a, b)', 'hostId(a)', 'a || vv', '(a)', 'a2', 'hostKw(k)', 'c']
HOST_VAR_NAMES = ['vv', 'a', 'b', 'k', 'a2', 'c']
HOST_DESC_FLAGS = DESC_FLAGS + [H('int', I(0)), H('int', I(1)), H('ienum', I(0)), H('ienum', I(1)), H('str', ''), H('senum', ''), H('senum', 'x'),
                                H('list', L()), H('float', F(0.0)), DD(2020, 1, 1)]
HOST_LEFT_FLAGS = [True, False, True, False, I(1), I(0), H('ienum', I(0)), H('ienum', I(2)), H('str', ''), 'x', '', H('list', L()), L(I(0)), DD(2020, 1, 1), None,
                   O(), H('senum', ''), F(0.0)]
HOST_MEASURE_NUM = [I(0), I(1), I(2), I(3), I(-3), F(0.5), F(2.0), F(-1.25), None, None, H('int', I(2)), H('int', I(-3)), H('int', I(6)), H('float', F(0.5)),
                    H('float', F(4.75)), H('float', F(2.0)), H('ienum', I(1)), H('ienum', I(3)), H('ienum', I(10))]
HOST_MEASURE_STR = ['b', H('str', 'a'), H('senum', 'ab'), '', 'B', None, H('senum', 'b'), H('str', 'b'), 'ab']


def _aware(fields, offmin, off):
    """the aware datetime (spec) with UTC offset `offmin` minutes of the instant that the naive local datetime `fields` stands for"""
    wall = datetime.datetime(*fields) - datetime.timedelta(seconds=off) + datetime.timedelta(minutes=offmin)
    return DZ(wall.year, wall.month, wall.day, wall.hour, wall.minute, wall.second, wall.microsecond, offmin)


def host_key_groups(off):
    """pools of key values: every pool mixes the host representations of one language value with its plain form and with near misses"""
    b0 = (2020, 1, 1, 0, 0, 0, 0)
    b1 = (2021, 5, 6, 7, 8, 9, 0)
    other = 330 if off != 330 * 60 else 60

    def aw(fields, offmin):
        return _aware(fields, offmin, off)

    return [
        [D(*b0), aw(b0, 330), aw(b0, 0), aw(b0, -480), DD(2020, 1, 1), H('dt', D(*b0)), H('dt', aw(b0, 60)), H('date', DD(2020, 1, 1)),
         DZ(*b0, other),                     # the same wall clock in another zone: another instant
         D(2020, 1, 1, 0, 0, 0, 1000), aw((2020, 1, 1, 0, 0, 0, 1000), -210), '2020-01-01T00:00:00+00:00', None],
        [D(*b1), D(*b1[:6], 1), aw(b1[:6] + (1,), 60), aw(b1, 840), D(*b1[:6], 999), D(*b1[:6], 1000), H('dt', D(*b1[:6], 1)), aw(b1[:6] + (999,), 0),
         aw(b1[:6] + (1000,), -480)],
        [I(1), H('int', I(1)), H('ienum', I(1)), F(1.0), H('float', F(1.0)), True, '1', H('str', '1'), H('senum', '1'), I(2), H('ienum', I(2)), None],
        ['a', H('str', 'a'), H('senum', 'a'), 'x', H('senum', 'x'), '', H('str', ''), H('senum', ''), None, 'A', H('senum', 'A')],
        [I(0), H('int', I(0)), H('ienum', I(0)), F(0.0), H('float', F(-0.0)), False, '', None, L(), H('list', L()), O(), H('dict', O()), H('odict', O())],
        [L(I(1)), H('list', L(I(1))), L(H('int', I(1))), L(F(1.0)), L(H('ienum', I(1))), O(['k', I(1)]), H('dict', O(['k', I(1)])),
         H('odict', O(['k', H('ienum', I(1))])), O(['k', '1']), L(D(*b0)), L(aw(b0, 330)), L(DD(2020, 1, 1)), O(['k', aw(b0, -480)]), O(['k', D(*b0)]),
         O(['k', H('senum', '1')])],
        [DD(2020, 1, 1), DD(2020, 1, 2), H('date', DD(2020, 1, 2)), D(2020, 1, 2), aw((2020, 1, 2, 0, 0, 0, 0), 330), D(2020, 1, 1, 12), aw((2020, 1, 1, 12, 0, 0, 0), -480),
         DD(2019, 12, 31), aw((2019, 12, 31, 0, 0, 0, 0), 840)],
    ]


def host_measure_pools(off):
    insts = [(2021, 5, 6, 0, 0, 0, 0), (2020, 1, 1, 0, 0, 0, 0), (2020, 1, 1, 0, 0, 1, 0), (2020, 1, 1, 23, 30, 0, 0), (2020, 1, 2, 0, 0, 0, 1000)]
    offs = [0, 330, -480, 840, -210]
    naive = [D(*f) for f in insts] + [None, H('dt', D(*insts[1]))]
    # aware values of different zones: the order of the instants is not the order of the wall clocks
    aware = [_aware(f, o, off) for f in insts for o in offs[:3]] + [None]
    dates = [DD(2020, 1, 1), DD(2021, 5, 6), DD(2020, 1, 2), H('date', DD(2019, 12, 31)), None]
    return {'num': HOST_MEASURE_NUM, 'str': HOST_MEASURE_STR, 'naive': naive, 'aware': aware, 'date': dates, 'dtmix': naive + aware + dates}


def gen_host_env(rng, case, keypool, exprs):
    """variables argument and host globals: names that collide with the field names (a row that lacks the field sees them), host callables"""
    used = ' '.join(e for e in exprs if e)
    names = [n for n in HOST_VAR_NAMES if re.search(r'\b%s\b' % n, used)]
    vnames = [n for n in names if rng.random() < 0.55]
    if rng.random() < 0.2:
        vnames.append(rng.choice(HOST_VAR_NAMES))
    gnames = [n for n in names if rng.random() < 0.3]
    if vnames or rng.random() < 0.1:
        spec = O(*[[n, rng.choice(keypool)] for n in dict.fromkeys(vnames)])
        case['vars'] = spec if rng.random() < 0.7 else H(rng.choice(['dict', 'odict']), spec)
    if gnames:
        case['globals'] = O(*[[n, rng.choice(keypool)] for n in dict.fromkeys(gnames)])
    case['hostfns'] = True


def gen_host_case(rng, off, tzname):
    op = rng.choice(['filter', 'calc', 'sort', 'sort', 'top', 'top', 'aggregate', 'aggregate', 'aggregate', 'join', 'join', 'join', 'join'])
    fields = list(rng.choice(FIELD_POOLS))
    rng.shuffle(fields)
    fields = fields[:rng.randint(1, 4)]
    groups = host_key_groups(off)
    pool = list(rng.choice(groups))
    if rng.random() < 0.25:
        pool = pool + list(rng.choice(groups))
    keypool = rng.sample(pool, min(len(pool), rng.randint(2, 6)))
    case = {'op': op, 'via': rng.choice(['direct', 'script', 'expr']), 'tz': tzname}
    if rng.random() < 0.3:
        case['rowkind'] = rng.choice(['hdict', 'odict', 'hkeys'])
    if rng.random() < 0.15:
        case['tablekind'] = 'hlist'
    if op in ('filter', 'calc', 'join') and case['via'] == 'direct' and rng.random() < 0.15:
        case['opt'] = rng.choice(['bare', 'bare', 'none'])
    if op == 'filter':
        case['rows'] = gen_rows(rng, fields, keypool, nmax=8)
        case['expr'] = rng.choice(HOST_FILTER_EXPRS) if rng.random() < 0.95 else rng.choice(RAISING_EXPRS)
        gen_host_env(rng, case, keypool, [case['expr']])
    elif op == 'calc':
        case['rows'] = gen_rows(rng, fields, keypool, nmax=8)
        case['expr'] = rng.choice(HOST_CALC_EXPRS) if rng.random() < 0.95 else rng.choice(RAISING_EXPRS)
        case['field'] = rng.choice(fields + ['z', 'a', 'a2', 'new field'])
        gen_host_env(rng, case, keypool, [case['expr']])
    elif op == 'sort':
        case['rows'] = gen_rows(rng, fields, keypool, nmax=10)
        sorts = []
        for _ in range(rng.choice([1, 1, 2, 2, 3])):
            f = rng.choice(fields + ['missing'])
            flag = rng.choice(HOST_DESC_FLAGS)
            entry = L(f) if flag is None and rng.random() < 0.7 else L(f, flag)
            if rng.random() < 0.2:
                entry = L(H('str', f), *entry['l'][1:])
            sorts.append(H('list', entry) if rng.random() < 0.2 else entry)
        case['sorts'] = sorts
    elif op == 'top':
        case['rows'] = gen_rows(rng, fields, keypool, nmax=10)
        n = rng.choice([1, 1, 2, 2, 3, 5])
        r = rng.random()
        if r < 0.85:
            case['count'] = rng.choice([F(n), I(n), H('int', I(n)), H('ienum', I(n)), H('float', F(n))])
        else:
            case['count'] = rng.choice([H('int', I(0)), H('float', F(1.5)), H('ienum', I(0)), H('int', I(-1)), H('float', F(0.0))])
        case['fields'] = None if rng.random() < 0.2 else [rng.choice(fields + ['missing']) for _ in range(rng.choice([1, 1, 2, 3]))]
    elif op == 'aggregate':
        nkeys = rng.randint(0, max(0, len(fields) - 1))
        key_fields = fields[:nkeys]
        measure_fields = fields[nkeys:] or ['m']
        pools = host_measure_pools(off)
        mkind = rng.choice(['num', 'num', 'num', 'num', 'str', 'naive', 'aware', 'aware', 'date', 'dtmix'])
        case['rows'] = gen_rows(rng, fields, keypool, nmax=10, measure_pool=pools[mkind], key_fields=key_fields)
        case['categories'] = None if not key_fields or rng.random() < 0.15 else [rng.choice(key_fields + ['missing']) for _ in range(rng.choice([1, 1, 2]))]
        fns = FUNCTIONS if mkind == 'num' else ['count', 'max', 'min', 'max', 'min']
        measures, used = [], set()
        for _ in range(rng.choice([1, 2, 2, 3])):
            m = {'field': rng.choice(measure_fields + ['missing']), 'function': rng.choice(fns)}
            if rng.random() < 0.45 or m['field'] in used:
                m['name'] = rng.choice(['n1', 'n2', 'n3', 'total', 'a9'])
            if m.get('name', m['field']) in used or m.get('name', m['field']) in (case['categories'] or []):
                continue
            used.add(m.get('name', m['field']))
            measures.append(m)
        case['measures'] = measures or [{'field': measure_fields[0], 'function': 'count', 'name': 'n0'}]
        if rng.random() < 0.15:
            case['aggkind'] = 'host'
    else:
        rfields = list(rng.choice(FIELD_POOLS))
        rng.shuffle(rfields)
        rfields = rfields[:rng.randint(1, 4)]
        if rng.random() < 0.7 and 'a' not in rfields:
            rfields[0] = 'a'
        if 'a' not in fields and rng.random() < 0.7:
            fields[0] = 'a'
        case['rows'] = gen_rows(rng, fields, keypool, nmax=6, key_fields=fields)
        case['right'] = gen_rows(rng, rfields, keypool, nmax=6, key_fields=rfields)
        case['expr'] = rng.choice(HOST_JOIN_EXPRS) if rng.random() < 0.96 else rng.choice(RAISING_EXPRS)
        case['rexpr'] = None if rng.random() < 0.6 else rng.choice(HOST_JOIN_EXPRS)
        case['isLeftJoin'] = rng.choice(HOST_LEFT_FLAGS)
        gen_host_env(rng, case, keypool, [case['expr'], case['rexpr']])
    return case


def twin_spec(s):
    return spec_of(plain(build(s)))


def twin_case(case):
    """the same case with every host value replaced by the plain value it stands for (plain dict rows in a plain list, plain arguments)"""
    t = {k: v for k, v in case.items() if k not in ('rowkind', 'tablekind', 'aggkind')}
    for key in ('rows', 'right'):
        if key in t:
            t[key] = [[[k, twin_spec(v)] for k, v in row] for row in t[key]]
    for key in ('vars', 'globals', 'count'):
        if t.get(key) is not None:
            t[key] = twin_spec(t[key])
    if 'sorts' in t:
        t['sorts'] = [twin_spec(s) for s in t['sorts']]
    if 'isLeftJoin' in t:
        t['isLeftJoin'] = left_flag(case)
    return t


def has_enum(v):
    if isinstance(v, enum.Enum):
        return True
    if isinstance(v, dict):
        return any(has_enum(x) for x in v.values())
    if isinstance(v, list):
        return any(has_enum(x) for x in v)
    return False


def host_outside(case, run):
    """host cases whose answer the property does not fix (kept out of the twin oracle; the reference oracles decide for themselves)"""
    if case['op'] == 'aggregate':
        for m in case['measures']:
            vals = [r.get(m['field']) for r in run['orig']]
            vals = [v for v in vals if v is not None]
            # min / max over datetimes of more than one representation: finding C19-H1
            if m['function'] in ('min', 'max') and len({dt_repr(v) for v in vals if isinstance(v, datetime.date)}) > 1:
                return True
            # min / max over arrays / objects: outside the property's meaning (ASSUMPTIONS), Python orders their members its own way
            if m['function'] in ('min', 'max') and any(isinstance(v, (list, dict)) for v in vals):
                return True
            # average over IntEnum members: finding C19-H2
            if m['function'] == 'average' and any(isinstance(v, enum.Enum) for v in vals):
                return True
    return False


def outcome_view(case, run):
    """the outcome of a run with host values read as the plain values they stand for"""
    op = case['op']
    if run['status'] == 'raised':
        return {'raised': run['result']}
    res = run['result']
    if op == 'calc':
        return {'rows': enc_table(run['data']), 'same-array': res is run['data']}
    if op == 'sort':
        before = run['before_ids']
        return {'order': [before.index(id(r)) if id(r) in before else -1 for r in res] if isinstance(res, list) else str(res)}
    if op in ('filter', 'top') and isinstance(res, list):
        ids = [id(r) for r in run['data']]
        return {'kept': [ids.index(id(r)) if id(r) in ids else -1 for r in res]}
    return {'result': enc_table(res) if isinstance(res, list) else enc(res)}


def host_oracles(case, run):
    """reference oracles + the plain-twin relation.  -> [(oracle, expected, actual)]"""
    bad = list(oracles(case, run))
    if not host_outside(case, run):
        twin = twin_case(case)
        trun = run_case(twin)
        want, got = outcome_view(twin, trun), outcome_view(case, run)
        if want != got:
            bad.append(('host-table-equals-plain-twin', want, got))
    return bad


def check_host_case(ctx, st, case, resp):
    run = run_case(case)
    model = model_view(case, resp) if resp is not None else None
    tags = case_tags(case, run, model) + [case['tz']] + ['rows-' + case.get('rowkind', 'dict')] + (['opt-' + case['opt']] if case.get('opt') else [])
    tags += sorted({'val-' + k for k in host_value_kinds(case)})
    if case.get('vars') or case.get('globals'):
        tags.append('colliding-names' if set(name for name, _ in (build_pairs(case.get('vars')) + build_pairs(case.get('globals')))) & set(all_field_names(case)) else 'variables')
    st.case(case, nontrivial=nontrivial(case, run), tags=tags)
    if model is not None and 'bad' in model:
        ctx.disagree('host', case, 'request', model, 'driver rejected the request')
    elif model is not None and not model.get('unmodelled') and not host_outside(case, run):
        ctx.compare('host', case, impl_view(case, run, model), model)
    for oracle, want, got in host_oracles(case, run):
        ctx.witness(oracle, case, want, got)


def build_pairs(spec):
    """[(name, value spec)] of an object spec (possibly a host mapping)"""
    if not spec:
        return []
    while 'h' in spec:
        spec = spec['h'][1]
    return [(k, v) for k, v in spec.get('o', [])]


def all_field_names(case):
    return {k for key in ('rows', 'right') for row in case.get(key, []) for k, _ in row}


def host_value_kinds(case):
    kinds = set()

    def walk(s):
        if isinstance(s, dict):
            (k, v), = s.items()
            if k == 'h':
                kinds.add(v[0])
                walk(v[1])
            elif k == 'dz':
                kinds.add('aware')
            elif k == 'dd':
                kinds.add('date')
            elif k == 'd' and v[6] % 1000:
                kinds.add('submilli')
            elif k == 'l':
                for x in v:
                    walk(x)
            elif k == 'o':
                for _, x in v:
                    walk(x)
    for key in ('rows', 'right'):
        for row in case.get(key, []):
            for _, v in row:
                walk(v)
    return kinds


def host_request(case):
    """the model sees the plain twin: the table after every host value was replaced by the plain value it stands for"""
    return case_request(twin_case(case))


def host_zones(ctx):
    return HOST_ZONES[:2] if ctx.quick else HOST_ZONES


def stream_host(ctx):
    st = ctx.stream('host', 'tables handed over by the embedding application, <= 10 rows x 4 fields, through all six data functions via the library '
                            'function, execute_script or evaluate_expression: key / category / measure / sort columns mixing the plain form of a value '
                            'with its host representations - timezone-aware datetimes of several UTC offsets and plain dates of the same instant as a '
                            'naive local datetime (and the same wall clock in another zone: a different instant), sub-millisecond datetimes, subclasses of '
                            'int / float / str / dict / list / datetime / date, IntEnum and str-Enum members, also nested in arrays / objects; rows that are dict '
                            'subclasses / OrderedDicts / have str-subclass field names, the table a list subclass; the variables argument and host '
                            "globals (options['globals']) define names that collide with field names while some rows lack the field; host callables in the "
                            'expressions (identity, raising, without the options parameter, keyword-only extras); options without globals / options None; '
                            'host values as count, descending flag, isLeftJoin, aggregation model; run under TZ=UTC and a non-UTC fixed-offset zone. Oracles: the '
                            'reference relational semantics on the plain values (written from the documentation, not value.py) and "the host table gives '
                            'what its plain twin gives"; the Lean model is compared on the plain twin (it has no host representations: the '
                            'normalisation itself is checked by the implementation-side oracles only); non-trivial = at least 2 rows (join: and a right row)')
    total = ctx.scale(5000, 60000)
    zones = host_zones(ctx)
    for tzname in zones:
        def body(tzname=tzname):
            off = local_offset()
            rng = ctx.rng('host', tzname)
            cases = [c for c in load_corpus() if c.get('op') in ('filter', 'calc', 'sort', 'top', 'aggregate', 'join') and c.get('stream') == 'host'
                     and c.get('tz', 'UTC') == tzname]
            for c in cases:
                c.setdefault('tz', tzname)
            for _ in range(total // len(zones)):
                cases.append(gen_host_case(rng, off, tzname))
            resps = ctx.driver.batch([host_request(c) for c in cases])
            for case, resp in zip(cases, resps):
                check_host_case(ctx, st, case, resp)
        with_zone(tzname, body)


def host_key_pool(off):
    pool = []
    for g in host_key_groups(off):
        for s in g:
            if s not in pool:
                pool.append(s)
    return pool


def key_pair_fails(a, b):
    """-> (expected, actual) of the bucket-key oracle if it fails on the pair, else None"""
    data = fw.impl()['data']
    ka, kb = data._bucket_key(a), data._bucket_key(b)  # pylint: disable=protected-access
    impl_eq = ka == kb
    want = typed_equal(a, b)
    if impl_eq != want or (impl_eq and hash(ka) != hash(kb)):
        return want, impl_eq if impl_eq != want else 'equal keys with different hashes'
    return None


def stream_hostkey(ctx):
    st = ctx.stream('hostkey', 'all ordered pairs of the host key pool (every host representation of a value next to its plain form and near misses: aware / naive / '
                               'date / subclass datetimes of equal and of different instants, sub-millisecond steps, int / float / str subclasses and enum '
                               'members, nested), per fixed-offset zone: _bucket_key(a) == _bucket_key(b) with equal hash vs typed equality of the plain '
                               'values (oracle) vs the model key of the plain values; non-trivial = different specs')
    data = fw.impl()['data']
    for tzname in host_zones(ctx):
        def body(tzname=tzname):
            pool = host_key_pool(local_offset())
            vals = [build(s) for s in pool]
            pairs = [(i, j) for i in range(len(pool)) for j in range(len(pool))]
            resps = ctx.driver.batch([{'op': 'key', 'a': enc(vals[i]), 'b': enc(vals[j])} for i, j in pairs])
            for (i, j), resp in zip(pairs, resps):
                a, b = vals[i], vals[j]
                impl_eq = data._bucket_key(a) == data._bucket_key(b)  # pylint: disable=protected-access
                inp = {'pair': [pool[i], pool[j]], 'tz': tzname}
                st.case(inp, nontrivial=i != j, tags=[tname(a), tzname, 'equal' if impl_eq else 'different'])
                ctx.compare('hostkey', inp, {'keyEq': impl_eq, 'cmp0': typed_equal(a, b)}, {'keyEq': resp.get('keyEq'), 'cmp0': resp.get('cmp') == 0})
                fails = key_pair_fails(a, b)
                if fails:
                    ctx.witness('bucket-key-is-typed-value-equality', inp, fails[0], fails[1])
        with_zone(tzname, body)
    st.exhaustive = True


# ---------------------------------------------------------------------------------------------------------------------
# Stream `reuse`: histories of data calls on ONE options object (and its one globals dict), with failing calls in between
# ---------------------------------------------------------------------------------------------------------------------

def gen_history(rng, off, tzname):
    steps = []
    for _ in range(rng.randint(2, 5)):
        case = gen_host_case(rng, off, tzname) if rng.random() < 0.5 else gen_case(rng)
        case.pop('opt', None)
        case.pop('globals', None)
        case.pop('tz', None)
        case['via'] = rng.choice(['direct', 'script', 'expr'])
        if case['op'] in ('filter', 'calc', 'join') and rng.random() < 0.3:
            case['expr'] = rng.choice(RAISING_EXPRS)                    # a call that fails in the middle of the table
            if 'vars' not in case and rng.random() < 0.5:
                case['vars'] = O(['vv', I(1)], ['a', 'from-variables'])
        if case['op'] == 'top' and rng.random() < 0.2:
            case['count'] = rng.choice([F(0), F(1.5), I(-1)])           # an argument error
        if case['op'] == 'aggregate' and rng.random() < 0.15:
            case['measures'] = case['measures'] + [{'field': 'a', 'function': 'median'}]      # an invalid aggregation model
        steps.append(case)
    names = [n for n in HOST_VAR_NAMES if rng.random() < 0.35]
    pool = rng.choice(host_key_groups(off))
    hist = {'history': steps, 'globals': O(*[[n, rng.choice(pool)] for n in names]), 'tz': tzname}
    if rng.random() < 0.45:
        hist['pipe'] = True         # a pipeline: every call works on the table object the previous call left behind
    return hist


def history_step_case(hist, i):
    case = dict(hist['history'][i])
    case['globals'] = hist['globals']
    case['hostfns'] = True
    return case


def run_history(hist):
    """-> (step index, oracle, expected, actual) of the first failing step, or None"""
    g = dict(HOST_FUNCTIONS)
    g.update(build(hist['globals']))
    opts = base_options(g)
    table = None
    for i in range(len(hist['history'])):
        case = history_step_case(hist, i)
        if table is not None:
            case['rows'] = [[[str.__str__(k), spec_of(v)] for k, v in row.items()] for row in table]
            for key in ('rowkind', 'tablekind'):
                case.pop(key, None)
        before = dict(opts['globals'])
        run = run_case(case, options=opts, table=table)
        if hist.get('pipe'):
            # the next call gets the outcome: the result table, or - after a failure - the input table as the failed call left it (a
            # dataCalculatedField that failed in the middle has updated the rows before the failure)
            nxt = run['result'] if run['status'] == 'ok' and isinstance(run['result'], list) else run['data']
            table = nxt if all(isinstance(r, dict) and all(isinstance(k, str) for k in r) for r in nxt) else None
        if case['op'] == 'aggregate' and any(m['function'] not in FUNCTIONS for m in case['measures']):
            if not (run['status'] == 'raised' or run['result'] is None):
                return i, 'reuse:aggregate-invalid-model-fails', 'an error / null', enc_table(run['result'])
            bad = []
        else:
            bad = host_oracles(case, run)
        if bad:
            return (i, 'reuse:' + bad[0][0]) + tuple(bad[0][1:])
        after = opts['globals']
        changed = sorted(k for k in before if not re.fullmatch(r'arg\d+', k) and (k not in after or after[k] is not before[k]))
        added = sorted(k for k in after if k not in before and not re.fullmatch(r'arg\d+', k))
        if changed or added:
            return i, 'reuse:options-globals-unchanged', [], {'changed': changed, 'added': added}
        if set(opts) - {'globals', 'maxStatements', 'statementCount'}:
            return i, 'reuse:options-globals-unchanged', [], {'options-keys': sorted(opts)}
    return None


def history_witness(ctx, hist, bad, tzname):
    """report a failing history: cut after the failing call, then drop every earlier call the failure does not need"""
    i, oracle, want, got = bad
    steps = list(hist['history'][:i + 1])
    if len(ctx.witnesses) < 10:
        j = 0
        while j < len(steps) - 1:
            shorter = steps[:j] + steps[j + 1:]
            again = run_history({'history': shorter, 'globals': hist['globals'], 'tz': tzname, 'pipe': hist.get('pipe')})
            if again is not None and again[1] == oracle and again[0] == len(shorter) - 1:
                steps, want, got = shorter, again[2], again[3]
            else:
                j += 1
    inp = {'history': steps, 'globals': hist['globals'], 'tz': tzname}
    if hist.get('pipe'):
        inp['pipe'] = True
    ctx.witness(oracle, inp, fw.shorten(want, 3000), fw.shorten(got, 3000), step=len(steps) - 1)


def stream_reuse(ctx):
    st = ctx.stream('reuse', "histories of 2-5 data calls (cases of the data and host streams) that share ONE options object and its one globals dict (host "
                             'globals colliding with field names, host callables), 30% of the filter / calc / join calls fail in the middle of the table '
                             '(undefined function), some dataTop / dataAggregate calls get invalid arguments; 45% of the histories are PIPELINES: every call works on the table '
                             'object the previous call left behind (result table; after a failure the half-updated input table); after every call: the reference oracles and the '
                             "plain-twin relation of that call (computed with fresh options), and the caller's globals are untouched (no variables "
                             'argument leaks into them, nothing is replaced). The Lean model has no options object: implementation-side oracles only; '
                             'non-trivial = a failing call is followed by another call')
    total = ctx.scale(1500, 15000)
    zones = host_zones(ctx)
    for tzname in zones:
        def body(tzname=tzname):
            off = local_offset()
            rng = ctx.rng('reuse', tzname)
            for _ in range(total // len(zones)):
                hist = gen_history(rng, off, tzname)
                bad = run_history(hist)
                raising = [i for i, c in enumerate(hist['history']) if c.get('expr') in RAISING_EXPRS]
                st.case(hist, nontrivial=bool(raising) and raising[0] + 1 < len(hist['history']),
                        tags=['steps%d' % len(hist['history']), tzname, 'pipeline' if hist.get('pipe') else 'separate-tables'] + ['op-' + c['op'] for c in hist['history']]
                        + (['with-failing-call'] if raising else []))
                if bad:
                    history_witness(ctx, hist, bad, tzname)
        with_zone(tzname, body)


# ---------------------------------------------------------------------------------------------------------------------
# Stream `scale`: the row-count axis.  Every data function family (filter, calculated field, sort, top, aggregate, join) and the CSV round
# trip on tables of 0, 1, 2, 9, 10, 11, 12, 16, 17, 64, 100, 128, 129, 300 rows (geometric, both sides of the usual thresholds 10 / 16 / 64 /
# 100 / 128): whatever an implementation does "for the first N rows" / "from N rows on" (sampling, chunking, another algorithm, an index built
# for large inputs only, a cap) lies on that axis.  The other sizes follow it: number of distinct keys / categories, dataTop counts, group
# sizes, right-table sizes, the position of the first non-null cell of a CSV column, the number of colliding field names of a join, the number
# of sort keys and of measures.
# ---------------------------------------------------------------------------------------------------------------------

SCALE = [0, 1, 2, 9, 10, 11, 12, 16, 17, 64, 100, 128, 129, 300]
SCALE_OPS = ['filter', 'calc', 'sort', 'top', 'aggregate', 'join']
SCALE_FILTER_EXPRS = ['a', 'a == 1', 'a != null', 'a % 2', 'a < 10', 'a >= 100', 'a == b', '!a', 'b', 'a || b', 'true', 'null', 'a < vv', 'b > 1',
                      "a != 'k1'", 'a == vv']
SCALE_CALC_EXPRS = ['a', 'a + b', 'a * 2', 'if(a, 1, 0)', 'vv', 'null', "'' + a", 'a == b', 'arrayNew(a, b)', 'b - 1', '1', 'a % 3']
SCALE_JOIN_EXPRS = ['a', 'a', 'a', 'k', 'b', 'a + 0', "'' + a", 'if(a, a, b)', 'vv']


def scale_keypool(rng, n, min_card=1, groups='uniform'):
    """key values for a table of n rows: a few values of one KEY_GROUP (1 / 1.0 / '1' / true near misses, nulls, JSON punctuation) plus a range
    of `card` distinct keys - ints, quarter floats, strings, or ints mixed with their float twins (the same key) and their decimal strings
    (another key); card is drawn from the scale axis (1 .. n distinct keys: one big group ... every row its own group).  groups: 'uniform',
    'skew' (one key takes about two thirds of the rows: the size of the largest group follows the row count) or 'one' (a single key value)"""
    group = rng.choice(KEY_GROUPS)
    base = rng.sample(group, min(len(group), rng.randint(2, 4)))
    if groups == 'one':
        return [rng.choice([I(1), 'k1', F(0.5), rng.choice(base)])]
    cards = [c for c in SCALE if min_card <= c <= max(1, n, min_card)] or [min_card]
    card = rng.choice(cards)
    style = rng.choice(['int', 'int', 'mixed', 'str', 'float'])
    wide = []
    for i in range(card):
        if style == 'int':
            wide.append(I(i))
        elif style == 'float':
            wide.append(F(i / 4))
        elif style == 'str':
            wide.append('k%d' % i)
        else:
            wide.append(rng.choice([I(i), I(i), F(float(i)), str(i), 'k%d' % i]))
    pool = base + wide
    if groups == 'skew':
        pool = pool + [wide[0]] * (2 * len(pool))
    return pool


def gen_scale_case(rng, op, n, n_right=None):
    """one case of the data stream's shape with exactly n rows (join: n left rows, n_right right rows)"""
    fields = list(rng.choice(FIELD_POOLS))
    rng.shuffle(fields)
    fields = fields[:rng.randint(1, 5)]
    if 'a' not in fields and op in ('filter', 'calc', 'join') and rng.random() < 0.8:
        fields[0] = 'a'
    case = {'op': op, 'via': rng.choice(['direct', 'script'])}
    if op == 'join':
        # bound the joined table: about left x right / distinct keys rows
        keypool = scale_keypool(rng, max(n, n_right), min_card=max(1, -(-n * n_right // 1500)))
    else:
        # dataTop / dataAggregate: the size of the largest group is on the axis too (one group of all rows, one dominant key, or uniform keys)
        groups = rng.choice(['one', 'skew', 'uniform']) if op in ('top', 'aggregate') else 'uniform'
        keypool = scale_keypool(rng, n, groups=groups)
    if op == 'filter':
        case['rows'] = gen_rows(rng, fields, keypool, n=n)
        case['expr'] = rng.choice(SCALE_FILTER_EXPRS) if rng.random() < 0.95 else rng.choice(RAISING_EXPRS)
        if 'vv' in case['expr'] or rng.random() < 0.1:
            case['vars'] = O(['vv', rng.choice(keypool)])
    elif op == 'calc':
        case['rows'] = gen_rows(rng, fields, keypool, n=n)
        case['expr'] = rng.choice(SCALE_CALC_EXPRS) if rng.random() < 0.95 else rng.choice(RAISING_EXPRS)
        case['field'] = rng.choice(fields + ['z', 'a', 'a2', 'new field'])
        if 'vv' in case['expr'] or rng.random() < 0.1:
            case['vars'] = O(['vv', rng.choice(keypool)])
    elif op == 'sort':
        case['rows'] = gen_rows(rng, fields, keypool, n=n)
        sorts = []
        for _ in range(rng.choice([1, 1, 2, 2, 3, 3, 9, 10, 11, 16, 17])):
            f = rng.choice(fields + ['missing'])
            flag = rng.choice(DESC_FLAGS)
            sorts.append(L(f) if flag is None and rng.random() < 0.7 else L(f, flag))
        case['sorts'] = sorts
    elif op == 'top':
        case['rows'] = gen_rows(rng, fields, keypool, n=n)
        # the count: from the axis, or next to the row count / half of it (cuts the largest group just below its size)
        count = rng.choice([c for c in SCALE if c >= 1]) if rng.random() < 0.5 else max(1, rng.choice([n - 1, n, n + 1, n // 2 + 1, (2 * n) // 3]))
        r = rng.random()
        case['count'] = F(count) if r < 0.7 else (I(count) if r < 0.95 else rng.choice([F(0), F(1.5), I(0), F(-1)]))
        case['fields'] = None if rng.random() < (0.6 if groups == 'one' else 0.2) else [rng.choice(fields + ['missing']) for _ in range(rng.choice([1, 1, 2, 3]))]
    elif op == 'aggregate':
        nkeys = rng.randint(0, max(0, len(fields) - 1))
        key_fields = fields[:nkeys]
        measure_fields = fields[nkeys:] or ['m']
        kind = rng.random()
        mpool = MEASURE_CLEAN if kind < 0.65 else (MEASURE_STR if kind < 0.75 else (MEASURE_DT if kind < 0.85 else MEASURE_CLEAN + rng.sample(MEASURE_DIRTY, 2)))
        case['rows'] = gen_rows(rng, fields, keypool, n=n, measure_pool=mpool, key_fields=key_fields)
        case['categories'] = (None if not key_fields or rng.random() < (0.6 if groups == 'one' else 0.15)
                              else [rng.choice(key_fields + ['missing']) for _ in range(rng.choice([1, 1, 2]))])
        measures = []
        # the number of measures is on the axis too (distinct output names m1, m2, ...)
        for i in range(rng.choice([1, 1, 2, 3, 3, 9, 10, 11, 16, 17])):
            measures.append({'field': rng.choice(measure_fields + ['missing']), 'function': rng.choice(FUNCTIONS), 'name': 'm%d' % (i + 1)})
        if rng.random() < 0.3:
            del measures[0]['name']
        case['measures'] = measures
    else:
        rfields = list(rng.choice(FIELD_POOLS))
        rng.shuffle(rfields)
        rfields = rfields[:rng.randint(1, 5)]
        if rng.random() < 0.8 and 'a' not in rfields:
            rfields[0] = 'a'
        case['rows'] = gen_rows(rng, fields, keypool, n=n, key_fields=fields)
        case['right'] = gen_rows(rng, rfields, keypool, n=n_right, key_fields=rfields)
        case['expr'] = rng.choice(SCALE_JOIN_EXPRS) if rng.random() < 0.97 else rng.choice(RAISING_EXPRS)
        case['rexpr'] = None if rng.random() < 0.7 else rng.choice(SCALE_JOIN_EXPRS)
        case['isLeftJoin'] = rng.random() < 0.5
        if 'vv' in case['expr'] or 'vv' in (case['rexpr'] or '') or rng.random() < 0.1:
            case['vars'] = O(['vv', rng.choice(keypool)])
    return case


def gen_wide_join_case(rng, k):
    """the field-count axis of dataJoin's renaming: the left table has a, a2, ..., a<k> (sometimes with one gap, sometimes continued on the right
    side), the right table has a (and a2, b): the right a must become the first name a<j> that neither side uses"""
    lnames = ['a'] + ['a%d' % i for i in range(2, k + 1)]
    if k > 2 and rng.random() < 0.4:
        lnames.remove('a%d' % rng.randint(2, k))
    rnames = ['a'] + rng.sample(['a2', 'b', 'a%d' % (k + 1), 'a%d' % (k + 2), 'a%d' % max(2, k // 2)], rng.randint(0, 3))
    rnames = list(dict.fromkeys(rnames))
    keys = [I(1), I(2), F(1.0), '1', None]

    def table(names, m):
        rows = []
        for _ in range(m):
            rows.append([[f, rng.choice(keys)] for f in names if f == 'a' or rng.random() < 0.9])
        return rows
    return {'op': 'join', 'via': rng.choice(['direct', 'script']), 'rows': table(lnames, rng.randint(1, 3)), 'right': table(rnames, rng.randint(1, 3)),
            'expr': 'a', 'rexpr': None, 'isLeftJoin': rng.random() < 0.5}


def scale_sizes(case):
    return (len(case['rows']), len(case['right'])) if case['op'] == 'join' else (len(case['rows']),)


def shrink_scale_case(case, oracle, runner=None):
    """the failing case cut to the shortest prefix of its rows (join: of either table) on which the same oracle still fails: shows the threshold"""
    runner = runner or (lambda c: [name for name, _, _ in oracles(c, run_case(c))])
    for key in ('rows', 'right'):
        if key not in case:
            continue
        full = case[key]
        for m in sorted(set(list(range(0, min(len(full), 20))) + [s for s in SCALE + [65, 101, 256] if s < len(full)])):
            cut = dict(case)
            cut[key] = full[:m]
            try:
                if oracle in runner(cut):
                    case = cut
                    break
            except Exception:  # pylint: disable=broad-except
                break
    return case


def scale_cases(ctx, rng):
    """[(family tag, case)]: per family and per size of the axis `reps` cases (joins: the size on the left with a small right table, on the
    right with a small left table, and on both sides)"""
    reps = ctx.scale(4, 24)
    out = []
    small = [0, 1, 2, 5, 12]
    for n in SCALE:
        for op in SCALE_OPS:
            for r in range(reps * 3 if n <= 17 else reps):
                if op != 'join':
                    out.append((op, gen_scale_case(rng, op, n)))
                    continue
                shape = r % 3
                if shape == 0:
                    out.append((op, gen_scale_case(rng, op, n, rng.choice(small))))
                elif shape == 1:
                    out.append((op, gen_scale_case(rng, op, rng.choice(small), n)))
                else:
                    out.append((op, gen_scale_case(rng, op, n, rng.choice([m for m in SCALE if m <= n] if n <= 129 else [n]))))
        if n >= 64:
            out.append(('join', gen_scale_case(rng, 'join', n, n)))
    for k in [2, 3, 9, 10, 11, 16, 17, 64, 100, 128]:
        for _ in range(ctx.scale(2, 10)):
            out.append(('join-wide', gen_wide_join_case(rng, k)))
    return out


def stream_scale(ctx):
    st = ctx.stream('scale', 'the ROW-COUNT axis: tables of exactly 0, 1, 2, 9, 10, 11, 12, 16, 17, 64, 100, 128, 129 and 300 rows (x <= 5 fields) through dataFilter / '
                             'dataCalculatedField / dataSort (1-17 sort keys) / dataTop (counts 1 ... 300 from the same axis, float and int) / dataAggregate '
                             '(all six functions, 1-17 measures) / dataJoin (the size on the left, on the right, on both sides), via the library function or a '
                             'script; the number of distinct key values is drawn from the same axis (one big group ... every row its own key; ints, their float '
                             "twins = the same key, their decimal strings = another key, plus the data stream's mixed-type key groups); joins of tables whose left "
                             'side already has a, a2, ..., a<k> for k = 2 ... 128 (first free name). Implementation vs mirror vs spec layer + the reference oracles '
                             'of the data stream (written from the statement: no size bound in them); a failing case is cut to the shortest failing prefix; '
                             'non-trivial = at least 2 rows (join: and a right row)')
    rng = ctx.rng('scale')
    tagged = scale_cases(ctx, rng)
    cases = [c for _, c in tagged]
    resps = ctx.driver.batch([case_request(c) for c in cases])
    for (family, case), resp in zip(tagged, resps):
        before = len(ctx.witnesses)
        check_data_case(ctx, st, case, resp, stream='scale', tags=[family] + ['n%d' % m for m in scale_sizes(case)])
        if before < len(ctx.witnesses) <= 12:
            # report the threshold: the shortest prefix of the table on which the oracle still fails
            w = ctx.witnesses[before]
            small = shrink_scale_case(case, w['oracle'])
            if small is not case:
                bad = [b for b in oracles(small, run_case(small)) if b[0] == w['oracle']]
                if bad:
                    w.update({'input': small, 'expected': bad[0][1], 'actual': bad[0][2], 'cut_from_rows': list(scale_sizes(case))})


# ---------------------------------------------------------------------------------------------------------------------
# Stream `csvscale`: the CSV round trip on the row-count axis, with the POSITION OF THE FIRST NON-NULL CELL of a column on the same axis
# ---------------------------------------------------------------------------------------------------------------------

def gen_csv_scale_case(rng, off, n, dense=False):
    """a typed table of n rows x 1-4 columns written by the harness writer.  Column shapes: dense (20% nulls), late (null - empty cell, the text
    null or, for the last column, a missing cell of a short record - in every row before row `start`, start drawn from the axis: the type of the
    column shows in row start+1 only), sparse (90% nulls), early (values in the leading rows only)"""
    ncols = rng.randint(1, 4)
    header = rng.sample(HEADERS, ncols)
    kinds = [rng.choice(['number', 'boolean', 'datetime', 'string', 'number', 'datetime']) for _ in range(ncols)]
    starts = sorted({s for s in SCALE if s < n} | ({n - 1} if n else set()))
    cols, typed, shapes = [], [], []
    short_before = 0
    for c, kind in enumerate(kinds):
        vals = gen_typed_column(rng, kind, n)
        shape = 'dense' if dense or not n else rng.choice(['dense', 'dense', 'late', 'late', 'late', 'sparse', 'early'])
        start = 0
        if shape == 'late':
            start = rng.choice(starts if rng.random() < 0.5 else starts[-4:])         # half of them near the end of the table
            vals[:start] = [None] * start
            while vals[start] is None:
                vals[start] = gen_typed_column(rng, kind, 1)[0]
        elif shape == 'sparse':
            vals = [v if rng.random() < 0.12 else None for v in vals]
        elif shape == 'early':
            stop = rng.choice(starts)
            vals[stop + 1:] = [None] * (n - stop - 1)
        null_text = 'null' if ncols == 1 or kind == 'string' or all(v is None for v in vals) or rng.random() < 0.5 else ''
        date_only = kind == 'datetime' and rng.random() < 0.3
        texts = []
        for v in vals:
            if isinstance(v, datetime.datetime) and date_only and (v.hour, v.minute, v.second, v.microsecond) != (0, 0, 0, 0):
                v = datetime.datetime(v.year, v.month, v.day)
                vals[len(texts)] = v
            texts.append(cell_text(v, null_text, date_only))
        if shape == 'late' and c == ncols - 1 and ncols > 1 and start and rng.random() < 0.3:
            short_before = start            # the leading records lack their last cell
        cols.append(texts)
        typed.append({'kind': kind, 'values': [spec_of(v) for v in vals]})
        shapes.append(shape if shape != 'late' else 'late%d' % start)
    records = [[cols[c][r] for c in range(ncols)] for r in range(n)]
    for r in range(short_before):
        records[r] = records[r][:-1]
    eol = rng.choice(['\n', '\n', '\r\n', '\r'])
    style = 'all' if rng.random() < 0.15 else 'minimal'
    text = write_csv(header, records, eol, style, quote_lone_empty=kinds == ['string'])
    text += eol if rng.random() < 0.5 else ''
    chunks = [text]
    if rng.random() < 0.3:
        phys = ref_split_lines(text)            # a chunk argument per physical line, as a script that builds the text line by line does
        if len(phys) > 1:
            chunks = phys if rng.random() < 0.5 else [phys[0], ''.join(phys[1:])]
    return {'header': header, 'records': records, 'typed': typed, 'chunks': chunks, 'off': off, 'short': bool(short_before), 'malformed': False,
            'via': 'script' if rng.random() < 0.1 else 'direct', 'linecut': len(chunks) > 1, 'hstr': False, 'shapes': shapes}


def stream_csvscale(ctx):
    st = ctx.stream('csvscale', 'the CSV round trip on the ROW-COUNT axis: typed tables of exactly 0, 1, 2, 9, 10, 11, 12, 16, 17, 64, 100, 128, 129 and 300 records x 1-4 '
                                'columns (numbers, booleans, datetimes / dates, generated strings) written by the harness writer; per column the position of the '
                                'first non-null cell is drawn from the same axis (null = empty cell, the text null, or a missing last cell of a short record, in '
                                'every row before it: the column shows its type late), or the column is sparse (90% nulls) or has values in the leading rows '
                                'only; LF / CRLF / CR, one text or a chunk per line; dataParseCSV vs model (split cells) vs reference typing + round-trip '
                                'oracles of the csv stream; non-trivial = at least 2 records')
    reps = ctx.scale(12, 80)

    def body():
        off = local_offset()
        rng = ctx.rng('csvscale')
        cases = [gen_csv_scale_case(rng, off, n) for n in SCALE for _ in range(reps)]
        split = [split_cells(c) for c in cases]
        reqs, idx = [], []
        for i, (c, (header, recs)) in enumerate(zip(cases, split)):
            if header is not None and len(set(header)) == len(header) and all(len(r) == len(header) for r in recs):
                reqs.append({'op': 'csv', 'header': header, 'records': recs, 'off': off})
                idx.append(i)
        resps = dict(zip(idx, ctx.driver.batch(reqs)))
        for i, (c, (header, recs)) in enumerate(zip(cases, split)):
            check_csv_case(ctx, st, c, resps.get(i), header, recs, stream='csvscale',
                           tags=['n%d' % len(c['records'])] + sorted({'col-' + re.sub(r'\d+', '', s) for s in c['shapes']})
                           + sorted({'first-value-row-%s' % s[4:] for s in c['shapes'] if s.startswith('late')}))
    with_zone('UTC', body)


# ---------------------------------------------------------------------------------------------------------------------
# Stream `csvhist`: histories around dataParseCSV.  The same text (the same str objects, equal copies, the same lines cut into other chunks,
# str-subclass copies, via a script) is read several times in one process; in between the rows / the array of an earlier result are updated in
# place (dataCalculatedField, objectSet, objectDelete, arrayPush / arrayPop / arraySet, dataSort), other texts with the same header are read.
# Reading a written table gives the written typed values EVERY time: every result that was not itself updated must equal the reference typing
# of its text - when it is returned and after every later step (results of separate reads share neither rows nor the array).
# ---------------------------------------------------------------------------------------------------------------------

HIST_SET_VALUES = [I(7), 'changed', None, True, F(0.5), D(2001, 2, 3), L(I(1))]
HIST_CALC = [('z', '1'), ('z', 'a'), (None, "'x'"), (None, 'null'), (None, '1 + 1'), ('new field', 'true')]


def chunks_variant(chunks, how):
    """another way to hand over the same physical lines"""
    if how == 'copy':
        return [c if c is None else ''.join(list(c)) for c in chunks]
    if how == 'lines':
        return [ln for c in chunks if c is not None for ln in ref_split_lines(c)] or list(chunks)
    if how == 'whole':
        parts = [c for c in chunks if c]
        return [''.join(c if c[-1] in '\r\n' or i + 1 == len(parts) else c + '\n' for i, c in enumerate(parts))] if parts else list(chunks)
    return list(chunks)


def gen_csv_history(rng, off):
    n = rng.choice([1, 2, 3, 3, 5, 12, 17]) if rng.random() < 0.96 else rng.choice([64, 100, 129])        # mostly small: the history is the axis here
    base = gen_csv_scale_case(rng, off, n, dense=rng.random() < 0.7)
    other = gen_csv_scale_case(rng, off, rng.choice([1, 2, n]), dense=True)
    texts = [base['chunks'], chunks_variant(base['chunks'], 'whole')[:1] if rng.random() < 0.5 else other['chunks']]
    # a text with the same header and other values: the first text with its data lines rotated
    lines = chunks_variant(base['chunks'], 'lines')
    if len(lines) > 2 and all('"' not in ln for ln in lines):
        if lines[-1][-1] not in '\r\n':
            lines[-1] += '\n'
        texts.append([lines[0]] + lines[2:] + lines[1:2])
    fields = list(base['header'])
    steps = [{'do': 'parse', 'text': 0, 'how': 'same', 'via': 'direct'}]
    nparse = 1
    for _ in range(rng.randint(2, 6)):
        r = rng.random()
        on = rng.randrange(nparse)
        via = rng.choice(['direct', 'direct', 'script'])
        if r < 0.4:
            steps.append({'do': 'parse', 'text': 0 if rng.random() < 0.75 else rng.randrange(len(texts)),
                          'how': rng.choice(['same', 'same', 'copy', 'lines', 'whole', 'hstr']), 'via': rng.choice(['direct', 'direct', 'script', 'expr'])})
            nparse += 1
        elif r < 0.6:
            f, e = rng.choice(HIST_CALC)
            steps.append({'do': 'calc', 'on': on, 'field': f if f is not None else rng.choice(fields), 'expr': e, 'via': via})
        elif r < 0.72:
            steps.append({'do': 'set', 'on': on, 'row': rng.randrange(20), 'field': rng.choice(fields + ['z']), 'value': rng.choice(HIST_SET_VALUES), 'via': via})
        elif r < 0.8:
            steps.append({'do': 'delete', 'on': on, 'row': rng.randrange(20), 'field': rng.choice(fields), 'via': via})
        elif r < 0.9:
            steps.append({'do': rng.choice(['push', 'pop', 'setrow']), 'on': on, 'row': rng.randrange(20), 'via': via})
        else:
            steps.append({'do': 'sort', 'on': on, 'field': rng.choice(fields), 'via': via})
    # every history ends with another read of the first text
    steps.append({'do': 'parse', 'text': 0, 'how': rng.choice(['same', 'same', 'copy', 'lines', 'whole']), 'via': rng.choice(['direct', 'script'])})
    return {'csvhistory': steps, 'texts': texts, 'off': off}


def csv_reference(chunks, off):
    """the typed table the reference reading gives for the chunk arguments (enc form), 'TypeError' when a cell does not convert, None when the
    text is outside the reference (duplicate column names, surplus cells)"""
    header, recs = split_cells({'chunks': chunks})
    if header is None:
        return []
    if len(set(header)) != len(header) or any(len(r) != len(header) for r in recs):
        return None
    want = ref_parse_csv(header, recs, off)
    return 'TypeError' if want is None else enc_table(want)


def run_csv_history(hist):
    """-> (step index, oracle, expected, actual) of the first failing step, or None"""
    off = hist['off']
    live = []               # [result, expected enc, updated in place?, index of the parse step]
    for i, step in enumerate(hist['csvhistory']):
        if step['do'] == 'parse':
            chunks = chunks_variant(hist['texts'][step['text']], step['how'])
            if step['how'] == 'hstr':
                chunks = [c if c is None else HStr(c) for c in chunks]
            want = csv_reference([c if c is None else str.__str__(c) for c in chunks], off)
            status, res = call_lib('dataParseCSV', chunks, step['via'])
            if want is None:
                continue
            got = enc_table(res) if status == 'ok' and isinstance(res, list) else (res if status == 'raised' else enc(res))
            if want == 'TypeError' and step['via'] != 'direct' and status == 'ok' and res is None:
                got = 'TypeError'               # a failing library function called from a script / an expression gives null
            if got != want:
                return i, 'csv-history-read-gives-written-values', want, got
            if isinstance(res, list):
                live.append([res, want, False, i])
        elif live:
            entry = live[step['on'] % len(live)]
            table = entry[0]
            entry[2] = True
            row = table[step['row'] % len(table)] if table and 'row' in step else None
            if step['do'] == 'calc':
                call_lib('dataCalculatedField', [table, step['field'], step['expr']], step['via'])
            elif step['do'] == 'set' and row is not None:
                call_lib('objectSet', [row, step['field'], build(step['value'])], step['via'])
            elif step['do'] == 'delete' and row is not None:
                call_lib('objectDelete', [row, step['field']], step['via'])
            elif step['do'] == 'push':
                call_lib('arrayPush', [table, {'pushed': 1}], step['via'])
            elif step['do'] == 'pop' and table:
                call_lib('arrayPop', [table], step['via'])
            elif step['do'] == 'setrow' and table:
                call_lib('arraySet', [table, step['row'] % len(table), {'replaced': True}], step['via'])
            elif step['do'] == 'sort':
                call_lib('dataSort', [table, [[step['field'], True]]], step['via'])
        # every result that was not itself updated still holds the written values
        for res, want, updated, at in live:
            if not updated and enc_table(res) != want:
                return i, 'csv-history-results-are-independent', {'result of step': at, 'rows': want}, enc_table(res)
    return None


def csv_history_witness(ctx, hist, bad):
    """report a failing history: cut after the failing step, then drop every earlier step the failure does not need"""
    i, oracle, want, got = bad
    steps = list(hist['csvhistory'][:i + 1])
    if len(ctx.witnesses) < 10:
        j = 1
        while j < len(steps) - 1:
            shorter = steps[:j] + steps[j + 1:]
            again = run_csv_history(dict(hist, csvhistory=shorter))
            if again is not None and again[1] == oracle and again[0] == len(shorter) - 1:
                steps, want, got = shorter, again[2], again[3]
            else:
                j += 1
    ctx.witness(oracle, dict(hist, csvhistory=steps), fw.shorten(want, 3000), fw.shorten(got, 3000), step=len(steps) - 1)


def stream_csvhist(ctx):
    st = ctx.stream('csvhist', 'histories of 4-8 steps around dataParseCSV in ONE process: the same CSV text (typed tables of 1-17, 4% of 64-129 records from the csvscale '
                               'generator) is read 2-6 times - the very same str objects, equal copies, the same lines cut into a chunk per line / joined into '
                               'one text, str-subclass copies, via the library function, a script or an expression - and between the reads the rows / the '
                               'array of an earlier result are updated IN PLACE (dataCalculatedField, objectSet, objectDelete, arrayPush / arrayPop / arraySet, '
                               'dataSort) and other texts with the same header (the data lines rotated) are read; every history ends with another read of the '
                               'first text. Oracles (implementation side; the Lean model is a function of the text and has no history): every read gives the '
                               'reference typing of its text, and every result that was not itself updated still does after every later step (results of '
                               'separate reads share neither rows nor the array); non-trivial = an in-place update lies between two reads of one text')

    def body():
        off = local_offset()
        rng = ctx.rng('csvhist')
        for _ in range(ctx.scale(1500, 15000)):
            hist = gen_csv_history(rng, off)
            steps = hist['csvhistory']
            kinds = [s['do'] for s in steps]
            first_update = next((k for k, d in enumerate(kinds) if d != 'parse'), None)
            st.case(hist, nontrivial=first_update is not None,
                    tags=['steps%d' % len(steps), 'reads%d' % kinds.count('parse')] + sorted({'do-' + d for d in kinds})
                    + sorted({'read-' + s['how'] for s in steps if s['do'] == 'parse'}) + sorted({'via-' + s['via'] for s in steps}))
            bad = run_csv_history(hist)
            if bad:
                csv_history_witness(ctx, hist, bad)
    with_zone('UTC', body)


def streams(ctx):
    with_zone('UTC', lambda: stream_csvhist(ctx))  # first: a history-dependent dataParseCSV (bounded cache, warm-up) must meet it in a fresh process
    stream_key(ctx)
    stream_hostkey(ctx)
    stream_scale(ctx)
    stream_csvscale(ctx)
    stream_data(ctx)
    stream_host(ctx)
    stream_reuse(ctx)
    with_zone('UTC', lambda: stream_cell(ctx))
    stream_csv(ctx)


# ---------------------------------------------------------------------------------------------------------------------
# Search and replay
# ---------------------------------------------------------------------------------------------------------------------

def search(ctx):
    """Directed search on the implementation alone: the corpus, the key pool, then a larger budget of generated cases through all oracles."""
    data = fw.impl()['data']
    vals = [build(s) for s in key_pool()]
    for a in vals:
        for b in vals:
            eq = data._bucket_key(a) == data._bucket_key(b)  # pylint: disable=protected-access
            if eq != typed_equal(a, b):
                ctx.witness('bucket-key-is-typed-value-equality', [spec_of(a), spec_of(b)], typed_equal(a, b), eq)
                return
    for tzname in HOST_ZONES:
        def host_search(tzname=tzname):
            off = local_offset()
            vals2 = [(s, build(s)) for s in host_key_pool(off)]
            for sa, a in vals2:
                for sb, b in vals2:
                    fails = key_pair_fails(a, b)
                    if fails:
                        ctx.witness('bucket-key-is-typed-value-equality', {'pair': [sa, sb], 'tz': tzname}, fails[0], fails[1])
                        return
            rng3 = ctx.rng('search-host', tzname)
            for _ in range(ctx.scale(3000, 40000)):
                case = gen_host_case(rng3, off, tzname)
                bad = host_oracles(case, run_case(case))
                if bad:
                    ctx.witness(bad[0][0], case, bad[0][1], bad[0][2])
                    return
            for _ in range(ctx.scale(1500, 20000)):
                hist = gen_history(rng3, off, tzname)
                bad = run_history(hist)
                if bad:
                    history_witness(ctx, hist, bad, tzname)
                    return
        with_zone(tzname, host_search)
        if ctx.witnesses:
            return
    rng = ctx.rng('search')
    cases = [c for c in load_corpus() if c.get('op') != 'csv' and c.get('stream') != 'host']
    for _ in range(ctx.scale(6000, 80000)):
        cases.append(gen_case(rng))
    for _ in range(ctx.scale(1, 4)):
        cases.extend(c for _, c in scale_cases(ctx, rng))           # the row-count axis
    for case in cases:
        run = run_case_with_ids(case)
        bad = oracles(case, run)
        if bad:
            for oracle, want, got in bad:
                ctx.witness(oracle, case, want, got)
            return

    def csv_search():
        off = local_offset()
        rng2 = ctx.rng('search-csv')
        st = fw.StreamStats('search-csv', '')
        for _ in range(ctx.scale(1500, 15000)):                     # histories first (they want a process that has read little)
            hist = gen_csv_history(rng2, off)
            bad = run_csv_history(hist)
            if bad:
                csv_history_witness(ctx, hist, bad)
                return
        scale = [gen_csv_scale_case(rng2, off, n) for n in SCALE for _ in range(ctx.scale(12, 80))]
        for c in csv_fixed_cases(off) + scale + [gen_csv_case(rng2, off) for _ in range(ctx.scale(3000, 40000))]:
            header, recs = split_cells(c)
            check_csv_case(ctx, st, c, None, header, recs)
            if ctx.witnesses:
                return
    with_zone('UTC', csv_search)


def replay(witness):
    oracle, inp = witness.get('oracle'), witness['input']
    if oracle == 'bucket-key-is-typed-value-equality':
        if isinstance(inp, dict):       # host key pool: a pair of specs and the zone it was found in
            return with_zone(inp.get('tz', 'UTC'), lambda: key_pair_fails(build(inp['pair'][0]), build(inp['pair'][1])) is not None)
        return key_pair_fails(build(inp[0]), build(inp[1])) is not None
    if isinstance(inp, dict) and 'csvhistory' in inp:
        def csv_history_body():
            # either oracle says the same thing (a read does not give the written values); which one fires first depends on what the process
            # has read before
            return run_csv_history(inp) is not None
        return with_zone('UTC', csv_history_body)
    if isinstance(inp, dict) and 'history' in inp:
        def history_body():
            bad = run_history(inp)
            return bad is not None and bad[1] == oracle
        return with_zone(inp.get('tz', 'UTC'), history_body)
    if isinstance(inp, dict) and 'op' in inp:
        if 'tz' in inp or oracle == 'host-table-equals-plain-twin':
            return with_zone(inp.get('tz', 'UTC'), lambda: any(name == oracle for name, _, _ in host_oracles(inp, run_case(inp))))
        run = run_case_with_ids(inp)
        return any(name == oracle for name, _, _ in oracles(inp, run))
    # csv witnesses: input = the chunk arguments

    class _Ctx:
        def __init__(self):
            self.witnesses = []

        def witness(self, o, *_a, **_k):
            self.witnesses.append(o)

        def compare(self, *_a):
            return True

    def body():
        off = local_offset()
        c = {'header': [], 'records': [], 'typed': [], 'chunks': inp, 'off': off, 'short': oracle != 'csv-script-call-equals-direct',
             'via': 'script' if oracle == 'csv-script-call-equals-direct' else 'direct',
             'linecut': oracle == 'csv-chunks-cut-at-line-ends-equal-whole-text', 'hstr': oracle == 'csv-str-subclass-chunks-equal-plain'}
        header, recs = split_cells(c)
        c['header'] = header or []
        c['records'] = recs
        c['typed'] = [None] * len(c['header'])
        cx = _Ctx()
        check_csv_case(cx, fw.StreamStats('replay', ''), c, None, header, recs)
        if oracle == 'csv-roundtrip-shape':
            try:
                res = fw.impl()['library'].SCRIPT_FUNCTIONS['dataParseCSV'](list(inp), None)
            except Exception:  # pylint: disable=broad-except
                return True
            want = witness.get('expected') or {}
            return res is None or len(res) != want.get('rows') or any(list(row.keys()) != want.get('header') for row in res)
        if oracle in ('datelike-kept-string', 'csv-typed-roundtrip'):
            # re-derive the typed expectation from the witness itself
            library = fw.impl()['library']
            try:
                res = library.SCRIPT_FUNCTIONS['dataParseCSV'](list(inp), None)
            except Exception:  # pylint: disable=broad-except
                return True
            want = witness.get('expected')
            if oracle == 'datelike-kept-string':
                return not any(want in (row or {}).values() for row in (res or []))
            cols = [[spec_of(row.get(h)) for row in res] for h in (header or [])] if res else []
            return want not in cols
        return oracle in cx.witnesses
    return with_zone('UTC', body)


# extension: further model code, theorems and streams (DESIGN 13.7)
from props import c19x as _ext  # noqa: E402  pylint: disable=wrong-import-position
_ext.EXTRA_ROOTS = ['Drv.C19X']
fw.attach_extension(globals(), _ext)


# extension: the data functions evaluate their expression TEXT with the modelled parser and machine (DESIGN 13.9)
from props import c19y as _ext_y  # noqa: E402  pylint: disable=wrong-import-position
_ext_y.EXTRA_ROOTS = ['Drv.C19Y']
fw.attach_extension(globals(), _ext_y)
