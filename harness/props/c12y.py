"""C12 history extension: HISTORIES of library calls and operator applications in which the numbers PRODUCED by one step (an int from
arrayLength / stringIndexOf / datetimeDay / jsonParse '1', a float from '+' on floats / numberParseFloat / jsonParse '1.0' / '*' ...) flow into
later steps as index, count, size, digits, operand or object value.  Model: BareModel/LibH3.lean (21 further host-level bodies, ONE dispatch
`callAllH` over LibH + LibH2 + LibH3, the operators on values, `runH`); theorems: BareProofs/C12Hist.lean (main: history_spelling_irrelevant);
driver: drv_c12y (Drv/C12Y.lean).  Attached to harness/props/C12.py with fw.attach_extension.

Every history is run on the REAL implementation three times - all-int, all-float and a random mixed spelling of the initial pool - with the
library functions called through library.SCRIPT_FUNCTIONS and the operators through evaluate_expression on hand-built expression models whose
variables are the pool values; and three times on the model.

* oracle `hist-spelling` (the property's own statement, independent of the model): after every step the three implementation pools are equal up to
  spelling (results, failure values, post-call contents of the arguments), as long as every integral number in the pools is below 1e15 (the
  property's quantifier) and the step is not the known finding F15 (mathRound / numberToFixed with digits >= 23);
* correspondence `hist-model`: the model's host-level pool equals the implementation's pool after every step INCLUDING the host type int / float
  of every number, for each of the three spellings.

By-value discipline (the model has no aliasing): every argument is passed as a deep copy of its pool slot; after the call the post-call copies are
stored back (argument 0 last) and the result is appended as a new slot.

A history is cut (not compared further) at the first step where the model declares the step outside its scope (`modelled` false: object
identity in systemIs, datetime arithmetic), where a text is outside the class the driver can print exactly (marker in a string: float repr with
more than 15 significant digits or in exponent form, datetime text), or where the implementation produced -0.0 / inf / nan (outside the model:
one zero, finite numbers only).
"""

import copy
import datetime
import json
import math
from fractions import Fraction

import fw

THEOREMS = [
    'C12Hist.history_spelling_irrelevant', 'C12Hist.history_refines', 'C12Hist.history_results_spelling_irrelevant', 'C12Hist.step_refines',
    'C12Hist.callAll_refines', 'C12Hist.callAll_spelling_irrelevant', 'C12Hist.libH3_refines_lib', 'C12Hist.spelling_irrelevant3',
    'C12Hist.body3_refines', 'C12Hist.opBin_refines', 'C12Hist.opUn_refines', 'C12Hist.preBody_of_argsOkB',
    'C12Hist.sortVals_abs', 'C12Hist.ofJ_abs', 'C12Hist.isSame_abs',
    'C12Hist.history_bound_needed', 'C12Hist.jsonParse_token_typing', 'C12Hist.jsonParse_example', 'C12Hist.bucket_key_spelling',
    'C12Hist.objectSet_number_key_fails', 'C12Hist.exHist_ok',
]
LEAN_TARGETS = ['BareProofs.C12Hist']
EXTRA_TARGETS = ['drv_c12y']

EPOCH = datetime.datetime(1, 1, 1)
MS = datetime.timedelta(milliseconds=1)
MARK = '⟦'


# ---------------------------------------------------------------------------------------------------------------------
# values
# ---------------------------------------------------------------------------------------------------------------------

def is_num(v):
    return isinstance(v, (int, float)) and not isinstance(v, bool)


def enc(v):
    """python value -> wire (numbers tagged with their host spelling)"""
    if v is None or isinstance(v, bool):
        return v
    if isinstance(v, int):
        return {'i': v}
    if isinstance(v, float):
        f = Fraction(v)
        return {'f': [f.numerator, f.denominator]}
    if isinstance(v, str):
        return {'s': v}
    if isinstance(v, list):
        return {'a': [enc(x) for x in v]}
    if isinstance(v, dict):
        return {'o': [[k, enc(x)] for k, x in v.items()]}
    if isinstance(v, datetime.datetime):
        return {'k': ['datetime', (v - EPOCH) // MS]}
    raise TypeError(v)


def unwire(j):
    """wire -> python value (used by replay)"""
    if j is None or isinstance(j, bool):
        return j
    (k, x), = j.items()
    if k == 'i':
        return int(x)
    if k == 'f':
        return float(Fraction(x[0], x[1]))
    if k == 's':
        return x
    if k == 'a':
        return [unwire(y) for y in x]
    if k == 'o':
        return {kk: unwire(y) for kk, y in x}
    if k == 'k':
        return EPOCH + x[1] * MS
    raise ValueError(j)


def kcanon(v):
    """comparable form WITH the host type of every number; dict in insertion order"""
    if v is None or isinstance(v, (bool, str)):
        return v
    if isinstance(v, int):
        return ['i', v]
    if isinstance(v, float):
        f = Fraction(v)
        return ['f', f.numerator, f.denominator]
    if isinstance(v, list):
        return ['a'] + [kcanon(x) for x in v]
    if isinstance(v, dict):
        return ['o'] + [[k, kcanon(x)] for k, x in v.items()]
    if isinstance(v, datetime.datetime):
        return ['k', 'datetime', (v - EPOCH) // MS]
    return ['other', type(v).__name__]


def vcanon(v):
    """comparable form up to spelling (numbers by value); dict in insertion order"""
    if v is None or isinstance(v, (bool, str)):
        return v
    if isinstance(v, (int, float)):
        f = Fraction(v)
        return ['q', f.numerator, f.denominator]
    if isinstance(v, list):
        return ['a'] + [vcanon(x) for x in v]
    if isinstance(v, dict):
        return ['o'] + [[k, vcanon(x)] for k, x in v.items()]
    if isinstance(v, datetime.datetime):
        return ['k', 'datetime', (v - EPOCH) // MS]
    return ['other', type(v).__name__]


def mdec(j):
    """model wire value -> kcanon form"""
    if j is None or isinstance(j, bool):
        return j
    (k, x), = j.items()
    if k == 'i':
        return ['i', x]
    if k == 'f':
        return ['f', x[0], x[1]]
    if k == 's':
        return x
    if k == 'a':
        return ['a'] + [mdec(y) for y in x]
    if k == 'o':
        return ['o'] + [[kk, mdec(y)] for kk, y in x]
    if k == 'k':
        return ['k', x[0], x[1]]
    raise ValueError(j)


def flat(v):
    if isinstance(v, list):
        for x in v:
            yield from flat(x)
    elif isinstance(v, dict):
        for x in v.values():
            yield from flat(x)
    else:
        yield v


def spell(v, mode, rng=None):
    """respell every integral number: 'i' int, 'f' float, 'm' mixed at random"""
    if v is None or isinstance(v, (bool, str)):
        return v
    if isinstance(v, (int, float)):
        if float(v) != int(v):
            return v
        m = mode if mode != 'm' else rng.choice('if')
        return int(v) if m == 'i' else float(v)
    if isinstance(v, list):
        return [spell(x, mode, rng) for x in v]
    if isinstance(v, dict):
        return {k: spell(x, mode, rng) for k, x in v.items()}
    return v


def weird(pool):
    """-0.0 / inf / nan anywhere: outside the model (one zero, finite numbers)"""
    for x in flat(pool):
        if isinstance(x, float) and (math.isinf(x) or math.isnan(x) or (x == 0 and math.copysign(1, x) < 0)):
            return True
    return False


def bounded(pool):
    """the property's quantifier: every integral number is below 1e15 in magnitude"""
    for x in flat(pool):
        if is_num(x) and not (isinstance(x, float) and (math.isinf(x) or math.isnan(x))) and float(x) == int(x) and abs(x) >= 10 ** 15:
            return False
    return True


# ---------------------------------------------------------------------------------------------------------------------
# one step on the real implementation
# ---------------------------------------------------------------------------------------------------------------------

SYM = {'add': '+', 'sub': '-', 'mul': '*', 'div': '/', 'mod': '%', 'eq': '==', 'ne': '!=', 'lt': '<', 'le': '<=', 'gt': '>', 'ge': '>=',
       'and': '&&', 'or': '||'}


def getvar(pool, i):
    return copy.deepcopy(pool[i]) if i < len(pool) else None


def impl_step(pool, step):
    """-> the new pool (a fresh list; slots are never shared)"""
    lib = fw.impl()['library']
    val = fw.impl()['value']
    rt = fw.impl()['runtime']
    pool = list(pool)
    if step['k'] == 'call':
        args = [getvar(pool, i) for i in step['args']]
        keep = list(args)
        try:
            r = lib.SCRIPT_FUNCTIONS[step['fn']](args, None)
        except val.ValueArgsError as e:
            r = e.return_value
        except Exception:           # pylint: disable=broad-except  # the call wrapper of runtime.py: null
            r = None
        r = copy.deepcopy(r)        # by-value: the result gets its own slot (arrayPush / objectAssign return their argument)
        for i, a in reversed(list(zip(step['args'], keep))):
            if i < len(pool):
                pool[i] = a
        pool.append(r)
        return pool
    if step['k'] == 'bin':
        expr = {'binary': {'op': SYM[step['op']], 'left': {'variable': 'va'}, 'right': {'variable': 'vb'}}}
        glob = {'va': getvar(pool, step['a']), 'vb': getvar(pool, step['b'])}
    else:
        expr = {'unary': {'op': '-' if step['op'] == 'neg' else '!', 'expr': {'variable': 'va'}}}
        glob = {'va': getvar(pool, step['a'])}
    r = rt.evaluate_expression(expr, {'globals': glob}, None, False)
    pool.append(copy.deepcopy(r))
    return pool


def run_impl(pool0, steps):
    pool = copy.deepcopy(pool0)
    out = []
    for st in steps:
        pool = impl_step(pool, st)
        out.append(pool)
    return out


def is_f15(pool, step):
    """mathRound / numberToFixed with a digit count >= 23: known finding F15"""
    if step['k'] == 'call' and step['fn'] in ('mathRound', 'numberToFixed') and len(step['args']) >= 2:
        i = step['args'][1]
        d = pool[i] if i < len(pool) else None
        return is_num(d) and abs(d) >= 23
    return False


# ---------------------------------------------------------------------------------------------------------------------
# generator (type-directed on a live run of the int spelling)
# ---------------------------------------------------------------------------------------------------------------------

POOLS = [
    [[1, 2, 3], 1, 'ab', {'a': 1, 'b': 2.5}, 2, '12', None],
    [[3, 1.5, 2, 'a', None], 0, 'hello world', {'n': 2, 'm': [1, 2]}, 3, '[1, 2.0, {"a": 3, "b": 1e1}]', True],
    [[], 2, 'x', {}, 10, ' 7 ', 'o', 1.5],
    [[[1], [2, 3]], 1, '2.50', {'k': 0}, -1, '{"n": 2, "m": [1.0, 2], "n": 3.0}', 4, 'k'],
    [[5, 5, 1, 7], 3, 'abcabc', {'a': 0, 'z': [1]}, 7, '1e2', 2.5, 'a', 'bc'],
    [[10, 20, 30, 40], 2, 'ff', {'x': 1}, 16, '0.5', 100, False, 0],
    [[2, 1], 1, '', {'a': {'b': 1}}, 0, '3', 12, 2020, 'a'],
]

CALLS = {
    # name -> list of argument kinds ('?' suffix = optional)
    'arrayLength': ['arr'], 'arrayGet': ['arr', 'idx'], 'arraySet': ['arr', 'idx', 'any'], 'arrayPush': ['arr', 'any'], 'arrayPop': ['arr'],
    'arrayShift': ['arr'], 'arrayCopy': ['arr'], 'arrayExtend': ['arr', 'arr'], 'arrayIndexOf': ['arr', 'val', 'idx?'],
    'arrayLastIndexOf': ['arr', 'val', 'idx?'], 'arraySlice': ['arr', 'idx', 'idx?'], 'arrayNewSize': ['cnt', 'any'], 'arrayNew': ['any', 'any?', 'any?'],
    'arrayDelete': ['arr', 'idx'], 'arrayJoin': ['arr', 'str'], 'arraySort': ['arr'],
    'stringLength': ['str'], 'stringNew': ['val'], 'stringRepeat': ['str', 'cnt'], 'stringSlice': ['str', 'idx', 'idx?'],
    'stringIndexOf': ['str', 'str', 'idx?'], 'stringLastIndexOf': ['str', 'str', 'idx?'], 'stringCharCodeAt': ['str', 'idx'], 'stringFromCharCode': ['code', 'code?'],
    'numberParseInt': ['str', 'radix?'], 'numberParseFloat': ['str'], 'jsonParse': ['str'], 'jsonStringify': ['val', 'cnt?'],
    'mathAbs': ['num'], 'mathCeil': ['num'], 'mathFloor': ['num'], 'mathSign': ['num'], 'mathRound': ['num', 'dig?'], 'numberToFixed': ['num', 'dig?', 'any?'],
    'mathMax': ['val', 'val', 'val?'], 'mathMin': ['val', 'val', 'val?'], 'systemCompare': ['val', 'val'], 'systemType': ['any'], 'systemBoolean': ['any'],
    'systemIs': ['prim', 'prim'],
    'objectGet': ['obj', 'key', 'any?'], 'objectSet': ['obj', 'key', 'any'], 'objectHas': ['obj', 'key'], 'objectDelete': ['obj', 'key'],
    'objectAssign': ['obj', 'obj'], 'objectCopy': ['obj'], 'objectKeys': ['obj'], 'objectNew': ['key', 'any', 'key?', 'any?'],
    'datetimeNew': ['year', 'month', 'day', 'cnt?', 'cnt?', 'cnt?', 'num?'],
    'datetimeYear': ['dt'], 'datetimeMonth': ['dt'], 'datetimeDay': ['dt'], 'datetimeHour': ['dt'], 'datetimeMinute': ['dt'], 'datetimeSecond': ['dt'],
    'datetimeMillisecond': ['dt'],
}
CALL_NAMES = sorted(CALLS)
ARITH = ['add', 'sub', 'mul', 'div', 'mod']
REL = ['eq', 'ne', 'lt', 'le', 'gt', 'ge']


def pick(rng, pool, kind, n0=0):
    """index of a pool slot of the wanted kind (None if there is none); sometimes an ill-typed slot on purpose"""
    n = len(pool)
    if rng.random() < 0.04:
        return rng.randrange(n + 1)          # anything, also an undefined variable
    def idxs(pred):
        return [i for i, v in enumerate(pool) if pred(v)]
    small = lambda v: is_num(v) and -3 <= v <= 20
    if kind in ('any',):
        c = idxs(lambda v: not isinstance(v, datetime.datetime)) if rng.random() < 0.9 else list(range(n))
    elif kind == 'val':
        c = idxs(lambda v: not isinstance(v, datetime.datetime))
    elif kind == 'prim':
        c = idxs(lambda v: v is None or isinstance(v, (bool, int, float))) if rng.random() < 0.85 else list(range(n))
    elif kind == 'arr':
        c = idxs(lambda v: isinstance(v, list))
    elif kind == 'obj':
        c = idxs(lambda v: isinstance(v, dict))
    elif kind in ('str', 'key'):
        c = idxs(lambda v: isinstance(v, str))
        if kind == 'key' and rng.random() < 0.08:
            c = idxs(is_num)                  # a number key: a failure in either spelling
    elif kind == 'dt':
        c = idxs(lambda v: isinstance(v, datetime.datetime))
    elif kind == 'num':
        c = idxs(is_num)
    elif kind in ('idx', 'cnt', 'dig', 'month', 'day'):
        c = idxs(small)
    elif kind == 'radix':
        c = idxs(lambda v: is_num(v) and 2 <= v <= 36)
    elif kind == 'code':
        c = idxs(lambda v: is_num(v) and 32 <= v < 50000)
    elif kind == 'year':
        c = idxs(lambda v: is_num(v) and 100 <= v <= 3000)
    else:
        c = []
    fresh = [i for i in c if i >= n0]
    if fresh and rng.random() < 0.55:          # prefer what an earlier step produced: that is what a history is for
        return rng.choice(fresh)
    return rng.choice(c) if c else None


FLOW_FNS = ['arrayGet', 'arraySet', 'arraySlice', 'arrayNewSize', 'stringRepeat', 'stringSlice', 'stringCharCodeAt', 'stringNew', 'arrayJoin',
            'jsonStringify', 'mathRound', 'numberToFixed', 'objectSet', 'objectGet', 'jsonParse', 'arrayIndexOf', 'arraySort', 'systemIs',
            'arrayLength', 'stringLength', 'datetimeNew', 'datetimeDay', 'datetimeMonth']


def gen_step(rng, pool, n0=0):
    for _ in range(12):
        r = rng.random()
        if r < 0.62:
            fn = rng.choice(CALL_NAMES) if rng.random() < 0.6 else rng.choice(FLOW_FNS)
            args = []
            for kind in CALLS[fn]:
                if kind.endswith('?'):
                    if rng.random() < 0.5:
                        break
                    kind = kind[:-1]
                i = pick(rng, pool, kind, n0)
                if i is None:
                    args = None
                    break
                args.append(i)
            if args is None:
                continue
            if fn in ('arrayExtend', 'objectAssign') and len(set(args)) < len(args) and rng.random() < 0.8:
                continue
            return {'k': 'call', 'fn': fn, 'args': args}
        if r < 0.84:
            op = rng.choice(ARITH)
            a, b = pick(rng, pool, 'num', n0), pick(rng, pool, 'num', n0)
            if op == 'add' and rng.random() < 0.3:
                a, b = pick(rng, pool, 'str', n0), pick(rng, pool, 'val', n0)
                if rng.random() < 0.5:
                    a, b = b, a
            if a is None or b is None:
                continue
            return {'k': 'bin', 'op': op, 'a': a, 'b': b}
        if r < 0.94:
            a, b = pick(rng, pool, 'val', n0), pick(rng, pool, 'val', n0)
            if a is None or b is None:
                continue
            return {'k': 'bin', 'op': rng.choice(REL + ['and', 'or']), 'a': a, 'b': b}
        a = pick(rng, pool, 'num' if rng.random() < 0.7 else 'any', n0)
        if a is None:
            continue
        return {'k': 'un', 'op': rng.choice(['neg', 'neg', 'not']), 'a': a}
    return {'k': 'un', 'op': 'not', 'a': 0}


def gen_history(rng):
    pool0 = copy.deepcopy(rng.choice(POOLS))
    rng.shuffle(pool0)
    pool0 = spell(pool0, 'i')
    pool = copy.deepcopy(pool0)
    steps = []
    for _ in range(rng.randint(3, 12)):
        st = gen_step(rng, pool, len(pool0))
        steps.append(st)
        pool = impl_step(pool, st)
        if sum(len(json.dumps(kcanon(v))) for v in pool) > 6000:
            break
    return pool0, steps


def flows(pool0_len, steps):
    """number of steps that take the result of an earlier step as an operand"""
    return sum(1 for st in steps if any(i >= pool0_len for i in (st['args'] if st['k'] == 'call' else [st.get('a', 0), st.get('b', 0)])))


# ---------------------------------------------------------------------------------------------------------------------
# the stream
# ---------------------------------------------------------------------------------------------------------------------

CORPUS = [
    # an int produced by arrayLength flows into arrayGet / arraySet / stringRepeat; a float produced by + flows into stringRepeat / arrayGet
    ([[1, 2, 3], 1, 'ab', 2], [{'k': 'call', 'fn': 'arrayLength', 'args': [0]}, {'k': 'bin', 'op': 'sub', 'a': 4, 'b': 1},
                               {'k': 'call', 'fn': 'arrayGet', 'args': [0, 5]}, {'k': 'bin', 'op': 'add', 'a': 1, 'b': 1},
                               {'k': 'call', 'fn': 'stringRepeat', 'args': [2, 7]}, {'k': 'call', 'fn': 'arraySet', 'args': [0, 7, 6]},
                               {'k': 'bin', 'op': 'mul', 'a': 3, 'b': 1}, {'k': 'call', 'fn': 'arrayGet', 'args': [0, 10]},
                               {'k': 'call', 'fn': 'stringNew', 'args': [0]}]),
    # jsonParse number typing, object functions, a number key
    (['{"n": 2, "m": [1.0, 2], "n": 3.0}', 'm', 'n', 1, {'a': 1}],
     [{'k': 'call', 'fn': 'jsonParse', 'args': [0]}, {'k': 'call', 'fn': 'objectGet', 'args': [5, 1]}, {'k': 'call', 'fn': 'objectGet', 'args': [5, 2]},
      {'k': 'call', 'fn': 'arrayGet', 'args': [6, 3]}, {'k': 'call', 'fn': 'arrayGet', 'args': [6, 7]}, {'k': 'call', 'fn': 'objectSet', 'args': [4, 3, 7]},
      {'k': 'call', 'fn': 'objectSet', 'args': [4, 1, 7]}, {'k': 'call', 'fn': 'objectKeys', 'args': [4]}, {'k': 'call', 'fn': 'systemType', 'args': [7]},
      {'k': 'call', 'fn': 'objectGet', 'args': [3, 1, 7]}, {'k': 'call', 'fn': 'jsonStringify', 'args': [5, 7]}]),
    # datetime getters producing ints that flow into index positions; truthiness of 0 vs 0.0; arraySort on mixed spellings
    ([2020, 2, 30, [3, 1, 2, 1], 0, 1],
     [{'k': 'call', 'fn': 'datetimeNew', 'args': [0, 1, 2]}, {'k': 'call', 'fn': 'datetimeDay', 'args': [6]}, {'k': 'call', 'fn': 'datetimeMonth', 'args': [6]},
      {'k': 'call', 'fn': 'arrayGet', 'args': [3, 7]}, {'k': 'call', 'fn': 'arrayGet', 'args': [3, 8]}, {'k': 'call', 'fn': 'systemBoolean', 'args': [4]},
      {'k': 'call', 'fn': 'arraySort', 'args': [3]}, {'k': 'call', 'fn': 'systemIs', 'args': [5, 7]}, {'k': 'bin', 'op': 'eq', 'a': 5, 'b': 7},
      {'k': 'call', 'fn': 'arrayIndexOf', 'args': [3, 8]}, {'k': 'call', 'fn': 'mathRound', 'args': [9, 7]}, {'k': 'call', 'fn': 'numberToFixed', 'args': [16, 7]}]),
    # division / modulo / parse producers into count positions
    (['7', ' 2.0 ', 'ab', 3, 10],
     [{'k': 'call', 'fn': 'numberParseInt', 'args': [0]}, {'k': 'call', 'fn': 'numberParseFloat', 'args': [1]}, {'k': 'bin', 'op': 'mod', 'a': 5, 'b': 6},
      {'k': 'call', 'fn': 'stringRepeat', 'args': [2, 7]}, {'k': 'bin', 'op': 'div', 'a': 4, 'b': 6}, {'k': 'call', 'fn': 'arrayNewSize', 'args': [9, 6]},
      {'k': 'call', 'fn': 'mathFloor', 'args': [9]}, {'k': 'call', 'fn': 'stringSlice', 'args': [8, 6, 11]}, {'k': 'un', 'op': 'neg', 'a': 6},
      {'k': 'call', 'fn': 'arraySlice', 'args': [10, 13]}, {'k': 'bin', 'op': 'add', 'a': 2, 'b': 9}]),
]


def history_differs(pool0, steps, seedrng=None):
    """the property's oracle on the implementation: -> (differs?, step index, detail)"""
    import random
    rng = seedrng or random.Random(0)
    runs = {m: run_impl(spell(pool0, m, rng), steps) for m in 'ifm'}
    pools_before = {m: spell(pool0, m, rng) for m in 'ifm'}
    for k, st in enumerate(steps):
        before_ok = all(bounded(pools_before[m]) for m in 'ifm')
        after = {m: runs[m][k] for m in 'ifm'}
        if any(weird(after[m]) for m in 'ifm') or not before_ok or not all(bounded(after[m]) for m in 'ifm'):
            return False, k, 'outside the quantifier'
        if any(is_f15(pools_before[m], st) for m in 'ifm'):
            return False, k, 'F15'
        views = {m: [vcanon(v) for v in after[m]] for m in 'ifm'}
        if not views['i'] == views['f'] == views['m']:
            return True, k, views
        pools_before = after
    return False, len(steps), None


def streams(ctx):
    drv = fw.Driver('drv_c12y')
    try:
        _streams(ctx, drv)
    finally:
        ctx.driver.requests += drv.requests


def _streams(ctx, drv):
    rng = ctx.rng('hist')
    st = ctx.stream('hist', 'LibH3 histories (drv_c12y op hist): 3-12 steps over 55 library functions (LibH + LibH2 + LibH3 through ONE dispatch) and the '
                            'operators + - * / % == != < <= > >= && || unary - !, operands are pool variables, results are appended to the pool, post-call '
                            'argument contents written back; each history run in the int, the float and a mixed spelling on the REAL implementation '
                            '(SCRIPT_FUNCTIONS / evaluate_expression) and on the model; pools compared after every step including the host type of '
                            'every number; the three implementation runs compared up to spelling (oracle hist-spelling); non-trivial = at least two '
                            'steps take the result of an earlier step as operand')
    # the rounding function of the driver is the IEEE one
    qs = [Fraction(rng.randint(-10 ** 18, 10 ** 18), rng.randint(1, 10 ** rng.randint(0, 18))) for _ in range(ctx.scale(200, 3000))]
    qs += [Fraction(1, 3), Fraction(2 ** 53 + 1), Fraction(2 ** 53 + 3), Fraction(1, 10), Fraction(5, 10 ** 324), Fraction(2 ** 54 + 2), Fraction(-7, 3)]
    for q, r in zip(qs, drv.batch([{'op': 'rnd', 'q': [q.numerator, q.denominator]} for q in qs])):
        f = Fraction(q.numerator / q.denominator)      # int / int true division is correctly rounded
        ctx.compare('hist', {'rnd': str(q)}, [f.numerator, f.denominator], r.get('q'))

    hists = [(spell(copy.deepcopy(p), 'i'), s) for p, s in CORPUS]
    for _ in range(ctx.scale(1200, 12000)):
        hists.append(gen_history(rng))
    reqs, meta = [], []
    for pool0, steps in hists:
        for mode in 'ifm':
            p = spell(pool0, mode, rng)
            reqs.append({'op': 'hist', 'pool': [enc(v) for v in p], 'steps': steps})
            meta.append((p, steps, mode))
    resps = drv.batch(reqs)
    by_hist = {}
    for (p, steps, mode), r in zip(meta, resps):
        case = {'kind': 'hist', 'pool': [enc(v) for v in p], 'steps': steps, 'spelling': mode}
        if 'pools' not in r:
            ctx.compare('hist', case, 'history accepted', r)
            continue
        impl = run_impl(p, steps)
        cut, why = len(steps), None
        for k in range(len(steps)):
            if not r['modelled'][k]:
                cut, why = k, 'unmodelled'
                break
            if weird(impl[k]):
                cut, why = k, 'negzero-or-nonfinite'
                break
            if is_f15(p if k == 0 else impl[k - 1], steps[k]):
                cut, why = k, 'f15-digits'                 # 10 ** digits overflows: the driver's rounding function has no overflow
                break
            if MARK in json.dumps(r['pools'][k], ensure_ascii=False):
                cut, why = k, 'text-outside-driver-class'
                break
        iv = [[kcanon(v) for v in impl[k]] for k in range(cut)]
        mv = [[mdec(v) for v in r['pools'][k]] for k in range(cut)]
        if iv != mv:                                   # report the first differing step only
            k = next(k for k in range(cut) if iv[k] != mv[k])
            ctx.compare('hist', dict(case, step=k, stepdef=steps[k]), iv[k], mv[k])
        else:
            ctx.compare('hist', case, True, True)
        fl = flows(len(p), steps[:cut])
        tags = ['spelling:' + mode, 'cut:' + (why or 'none'), 'len:%d' % len(steps), 'flows:%d' % min(fl, 6),
                'theorem-instance:' + str(all(r['ok'][:cut]) and cut == len(steps))]
        tags += sorted({'fn:' + s['fn'] if s['k'] == 'call' else 'op:' + s['op'] for s in steps[:cut]})
        st.case([[kcanon(v) for v in p], steps], nontrivial=fl >= 2, tags=tags)
        by_hist.setdefault(id(steps), []).append((p, impl, r, cut))

    # the property's own oracle: the three implementation runs agree up to spelling after every step
    for pool0, steps in hists:
        runs = by_hist.get(id(steps), [])
        if len(runs) != 3:
            continue
        for k, stp in enumerate(steps):
            before = [(p if k == 0 else impl[k - 1]) for p, impl, _r, _c in runs]
            after = [impl[k] for _p, impl, _r, _c in runs]
            if any(weird(a) for a in after) or not all(bounded(b) for b in before) or not all(bounded(a) for a in after):
                break
            if any(is_f15(b, stp) for b in before):
                break
            views = [[vcanon(v) for v in a] for a in after]
            if not views[0] == views[1] == views[2]:
                bad = next(j for j in (1, 2) if views[j] != views[0])
                ctx.witness('hist-spelling', {'kind': 'hist', 'pools': [[enc(v) for v in runs[0][0]], [enc(v) for v in runs[bad][0]]], 'steps': steps[:k + 1]},
                            views[0], views[bad], step=k)
                break


def replay(witness):
    case = witness.get('input')
    if not isinstance(case, dict) or case.get('kind') != 'hist' or 'pools' not in case:
        return None
    pa, pb = [[unwire(v) for v in p] for p in case['pools']]
    steps = case['steps']
    ra, rb = run_impl(pa, steps), run_impl(pb, steps)
    return [vcanon(v) for v in ra[-1]] != [vcanon(v) for v in rb[-1]]


LEVEL_TEXT_EXT = ('C12Hist: host-level (int / float) models of 21 more functions, one dispatch over 57 functions, and history_spelling_irrelevant: histories of calls and operators whose results feed later steps stay equal up to spelling after every step (decidable per-step magnitude condition; history_bound_needed shows it cannot be dropped).')
