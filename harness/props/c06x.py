"""C06 extension streams: the parser's regular expressions as DATA (BareModel/Rx.lean: regex AST + backtracking matcher in priority order with
capture spans; BareModel/RxPatterns.lean: one AST per parser.py pattern, rendering pinned to the regenerated sources; theorems in
BareProofs/C06Regex.lean: hand-written scanner = first backtracking match + group reading) run by `drv_c06x` against CPython's `re` on the REAL
compiled patterns of the working tree.  Attached to harness/props/C06.py with fw.attach_extension.

Streams
  rx-engine   every parser._R_* pattern x adversarial texts: Rx.matchAt / Rx.search on the AST vs pattern.match / pattern.search
              (match or not, start, end, the span of every group)
  rx-classes  every code point: \\d, \\S, . of the engine vs re (\\s and \\w are compared by C10's stream charclass)
  rx-read     the group READING of parser.py (RxPatterns.rx...: right-hand sides of the theorems) evaluated by the engine vs the same reading done
              in Python on the real match objects; the whole cascade vs the first pattern the real parse_script matched (recorded by proxies)
  rx-scan     the hand-written scanners of Scan/Text vs the reading of the real `re` match, per pattern - the correspondence check for the
              patterns whose theorem is NOT proved (run for all: it is cheap)
plus the oracle `parse-total` (C06 on these adversarial single lines: only BareScriptParserError, column within the line).
"""

import re

import fw

THEOREMS = [
    'C06Regex.sources_pinned', 'C06Regex.patterns_cover_parser', 'C06Regex.patterns_wellformed',
    'C06Regex.star_atom_backoff', 'C06Regex.star_atom_det', 'C06Regex.kw_match', 'C06Regex.ident_det', 'C06Regex.ws_eol', 'C06Regex.ws_dotplus_eol',
    'C06Regex.backoff_first', 'C06Regex.searchFrom_first', 'C06Regex.searchFrom_none', 'C06Regex.dotplus_colon', 'C06Regex.exprColon_rx',
    'C06Regex.return_tail', 'C06Regex.for_tail', 'C06Regex.for_index',
    'C06Regex.kwOnly_regex', 'C06Regex.kwOnly_regex_all', 'C06Regex.comment_regex', 'C06Regex.label_regex', 'C06Regex.else_regex',
    'C06Regex.assign_regex', 'C06Regex.continuation_regex', 'C06Regex.return_regex', 'C06Regex.kwExprColon_regex', 'C06Regex.if_regex',
    'C06Regex.elif_regex', 'C06Regex.while_regex', 'C06Regex.for_regex',
    'C06Regex.name_tail', 'C06Regex.paren_rx', 'C06Regex.jump_regex', 'C06Regex.delim_prefix', 'C06Regex.system_tail', 'C06Regex.quote_loop',
    'C06Regex.quoteEnd_decomp', 'C06Regex.quoteEnd_sound', 'C06Regex.sub1_esc', 'C06Regex.quoted_tail', 'C06Regex.include_regex',
    'C06Regex.args_loop', 'C06Regex.K5_eval', 'C06Regex.K4_eval', 'C06Regex.ws_K4',
    'C06Regex.shape_is_cascade_partial', 'C06Regex.shape_is_cascade_partial2', 'C06Regex.shape_is_cascade_partial3',
    'C06Regex.shape_is_cascade_partial4',
    'C06Regex.splitAux_args', 'C06Regex.split_args', 'C06Regex.func_read', 'C06Regex.funcBegin?_eq', 'C06Regex.funcScan_spec', 'C06Regex.func_rx',
    'C06Regex.function_regex', 'C06Regex.shape_is_cascade', 'C06Regex.classifyL_is_cascade', 'C06Regex.classify_is_cascade',
    'C06Regex.splitLines_regex', 'C06Regex.rxSplit_noNL', 'C06Regex.loopL_noNL', 'C06Regex.loopL_regex', 'C06Regex.scriptLines_regex',
    'C06Regex.scriptLines_noNL', 'C06Regex.stepLogical_eq_With', 'C06Regex.parseScript_is_regex_driven',
    'C06Regex.parseScript_text_is_regex_driven',
    'C06Regex.litSeq_m', 'C06Regex.altsLit_m', 'C06Regex.ident_first', 'C06Regex.opToken', 'C06Regex.charToken',
    'C06Regex.binOp_regex', 'C06Regex.unaryOp_regex', 'C06Regex.groupOpen_regex', 'C06Regex.close_regex', 'C06Regex.comma_regex',
    'C06Regex.variable_regex', 'C06Regex.funcOpen_regex', 'C06Regex.parseExprLW_ex', 'C06Regex.exS_eq_rxS',
    'C06Regex.parseExpr_is_regex_driven_partial', 'C06Regex.parseScript_fully_regex_driven_partial',
    'C06Regex.sub1_escQ', 'C06Regex.strBody_isSome', 'C06Regex.str_loop', 'C06Regex.strBody_spec', 'C06Regex.string_regex_q',
    'C06Regex.string_regex', 'C06Regex.stringDouble_regex', 'C06Regex.string_patterns', 'C06Regex.bracketBody_isSome', 'C06Regex.br_loop',
    'C06Regex.br_group', 'C06Regex.br_outer', 'C06Regex.bracketBody_spec', 'C06Regex.variableEx_regex', 'C06Regex.exS_eq_rxS2',
    'C06Regex.parseExpr_is_regex_driven_partial2', 'C06Regex.parseScript_fully_regex_driven_partial2',
    'C06Regex.digits_plus_total', 'C06Regex.optFrac_total', 'C06Regex.optExp_total', 'C06Regex.numBody_total', 'C06Regex.scanExp_rescan',
    'C06Regex.scanFrac_rescan', 'C06Regex.numCore_rescan', 'C06Regex.readNumber_take', 'C06Regex.number_regex', 'C06Regex.exS_eq_rxS3',
    'C06Regex.parseExpr_is_regex_driven', 'C06Regex.parseScript_fully_regex_driven',
]
LEAN_TARGETS = ['BareProofs.C06RegexPins', 'BareProofs.C06Regex', 'BareProofs.C06Regex2', 'BareProofs.C06Regex3', 'BareProofs.C06Regex4', 'BareProofs.C06Regex5', 'BareProofs.C06Regex6', 'BareProofs.C06Regex7', 'BareProofs.C06Regex8', 'BareProofs.C06Regex9']
EXTRA_TARGETS = ['drv_c06x']
GEN = ['Regex']

# scanners whose "scanner = regex" theorem is proved for all lines without '\n' (the others are only correspondence-checked by rx-scan)
PROVED = {'endfunction', 'endif', 'endwhile', 'endfor', 'break', 'continue', 'comment', 'continuation', 'label', 'else', 'assign', 'if', 'elif',
          'while', 'return', 'for', 'jump', 'include', 'function', 'shape'}

SCANNERS = ['assign', 'function', 'endfunction', 'if', 'elif', 'else', 'endif', 'while', 'endwhile', 'for', 'endfor', 'break', 'continue', 'label',
            'jump', 'return', 'include', 'comment', 'continuation', 'shape']

SEEDS = [
    'a = 1', 'a=b', 'a == b', 'a = ', 'a =', ' abc_1  =  f(x) : y', 'x = a = b', 'é = 1', 'aé٣ = 1', '_ = :',
    'function f():', 'async function f(a, b...):', 'asyncfunction f( a ,b ) :', 'function f(a,):', 'function  g ( ... ) : ', 'function f(a b):',
    'function f(a...,):', 'async  function f(a, b , c)  :  ', 'function f(a, b:', 'functionf():',
    'endfunction', ' endfunction  ', 'endfunctions', 'endif', 'endwhile', 'endfor', 'break', 'continue', ' break \t', 'breakx', 'break :',
    'if a:', 'if a: b:', 'if   :', 'if :', 'if a : ', 'if  a == 1 :  :', 'ifa:', 'if a', 'elif b:', 'elif  :', 'else:', 'else :', ' else  :  ', 'else: x',
    'else', 'while i < 10:', 'while  :', 'while x: :', 'whilex:',
    'for v in vs:', 'for v, i in vs:', 'for v ,i in  vs : ', 'for v, in vs:', 'for v,i invs:', 'for v in :', 'for v in  :', 'for v, i in in in:',
    'for in in in:', 'for v,  in x:', 'forv in x:', 'for v i in x:',
    'lbl:', ' lbl : ', 'lbl::', 'l bl:', '1bl:', 'lbl', 'é:', 'aé:',
    'jump lbl', 'jumpif (a) lbl', 'jumpif(a > (b)) lbl ', 'jumpif (a) (b) lbl', 'jumpif () lbl', 'jumpif (a)lbl', 'jump  lbl x', 'jumpif (a)) ) l',
    'jumpx l', ' jump l', 'jumpif ( ) l', 'jump', 'jumpif (a) b) c',
    'return', 'return x', 'return  ', 'return  x  ', 'returnx', ' return   a + b', 'return\u00a0x', 'return \u2003',
    "include 'a.bare'", "include  'it\\'s'  ", "include 'a' 'b'", "include 'a\\\\'", "include 'a\\\\\\'", "include ''", "include'a'", "include 'a",
    "include 'a'b'", 'include <a.bare>', 'include <a>b>', 'include <>', 'include < a > ', 'include <a', 'include<a>', "include '\\'",
    '', ' ', '# c', '  # c', '#', ' x # c', '\t', 'a \\', 'a \\  ', 'a \\ \\', '\\', 'a \\ b', '\\\\', 'a\\\u2003\u00a0',
    'f(1, 2)', "'str' + \"dq\"", '1.5e+3', '-1.e-2', '+.5', '12e5', '[a b]', '[ a\\]b ]', '[\\]]', '[]', '[   ]', "'a\\'b'", "'a\\\\'", '"a\\"b"',
    '**', '*', '||', '&&', '!=', '<=', '!x', '-x', ', x', ') x', '( x', 'fn (', 'fn(', '٣٤', '1.٣', 'a\r\nb', 'a\nb', '\r', 'a\\]', "\\'", '\\"', '\\\\x',
]
ALPHA = list(' \t\u00a0\u2003\x1c\x0b') + list(":=(),'\\#<>.\"[]+-*|&!%/e_") + list('abfijlnrtuxE019') + ['é', 'Ω', '٣', '\n', '\r', '\U0001d7d8', '\u2028',
                                                                                                          'in', 'if', ':', ' ', ' ', ')', '\\']


def P():
    return fw.impl()['parser']


def pattern_names():
    return sorted(n for n in vars(P()) if n.startswith('_R_') and isinstance(getattr(P(), n), re.Pattern))


def mutate(rng, s):
    s = list(s)
    for _ in range(rng.choice([1, 1, 2, 3])):
        op = rng.random()
        i = rng.randint(0, len(s))
        if op < 0.45:
            s.insert(i, rng.choice(ALPHA))
        elif op < 0.7 and s:
            del s[min(i, len(s) - 1)]
        elif s:
            s[min(i, len(s) - 1)] = rng.choice(ALPHA)
    return ''.join(s)


def gen_texts(rng, n):
    out = list(SEEDS)
    out += [ind + s + tr for s in SEEDS[:120:3] for ind in (' ', '\u00a0\t') for tr in ('', ' \u2003')]
    while len(out) < n:
        r = rng.random()
        if r < 0.6:
            out.append(mutate(rng, rng.choice(SEEDS)))
        elif r < 0.8:
            out.append(''.join(rng.choice(ALPHA) for _ in range(rng.randint(0, 12))))
        else:
            out.append(rng.choice(['', ' ', '  ']) + rng.choice(['if', 'elif', 'while', 'for v in', 'jumpif (', 'return', 'a =', 'include', 'function f(']) +
                       ''.join(rng.choice([' ', ':', ')', '(', 'x', ' :', ': ', "'", '>', '<', ',', 'in ', 'l', '=']) for _ in range(rng.randint(0, 9))))
    # keep backtracking cheap (F27: the string patterns are exponential on backslash runs without a closing quote)
    return [t for t in out if len(t) <= 48 and t.count('\\') <= 10]


def m_json(m, ngroups):
    if m is None:
        return {'m': False}
    return {'m': True, 'start': m.start(), 'end': m.end(), 'groups': [list(m.span(i)) if m.span(i) != (-1, -1) else None for i in range(1, ngroups + 1)]}


def py_read(name, line):
    """parser.py's reading of the match of ONE statement pattern on `line` (protocol form of Scan.Shape) - on the real compiled patterns"""
    p = P()

    def off_expr(m, group):
        return {'off': m.start(group), 'expr': m.group(group)}
    if name in ('endfunction', 'endif', 'endwhile', 'endfor', 'break', 'continue', 'else'):
        pat = {'endfunction': p._R_SCRIPT_FUNCTION_END, 'endif': p._R_SCRIPT_IF_END, 'endwhile': p._R_SCRIPT_WHILE_END, 'endfor': p._R_SCRIPT_FOR_END,
               'break': p._R_SCRIPT_BREAK, 'continue': p._R_SCRIPT_CONTINUE, 'else': p._R_SCRIPT_IF_ELSE}[name]
        return {'kind': name} if pat.match(line) else None
    if name == 'comment':
        return p._R_SCRIPT_COMMENT.match(line) is not None
    if name == 'continuation':
        m = p._R_SCRIPT_CONTINUATION.search(line)
        return line[:m.start()] if m else None
    if name == 'assign':
        m = p._R_SCRIPT_ASSIGNMENT.match(line)
        return m and {'kind': 'assign', 'name': m.group('name'), 'off': len(line) - len(m.group('expr')), 'expr': m.group('expr')}
    if name in ('if', 'elif', 'while'):
        m = {'if': p._R_SCRIPT_IF_BEGIN, 'elif': p._R_SCRIPT_IF_ELSE_IF, 'while': p._R_SCRIPT_WHILE_BEGIN}[name].match(line)
        return m and dict({'kind': name}, **off_expr(m, 'expr'))
    if name == 'for':
        m = p._R_SCRIPT_FOR_BEGIN.match(line)
        return m and dict({'kind': 'for', 'value': m.group('value'), 'index': m.group('index')}, **off_expr(m, 'values'))
    if name == 'label':
        m = p._R_SCRIPT_LABEL.match(line)
        return m and {'kind': 'label', 'name': m.group('name')}
    if name == 'jump':
        m = p._R_SCRIPT_JUMP.match(line)
        if not m:
            return None
        d = {'kind': 'jump', 'name': m.group('name')}
        if m.group('expr'):
            d.update(off=len(m.group('jump')) - len(m.group('expr')) - 1, expr=m.group('expr'))
        return d
    if name == 'return':
        m = p._R_SCRIPT_RETURN.match(line)
        if not m:
            return None
        d = {'kind': 'return'}
        if m.group('expr'):
            d.update(off=len(m.group('return')) - len(m.group('expr')), expr=m.group('expr'))
        return d
    if name == 'include':
        m = p._R_SCRIPT_INCLUDE.match(line) or p._R_SCRIPT_INCLUDE_SYSTEM.match(line)
        if not m:
            return None
        system = m.group('delim') == '<'
        return {'kind': 'include', 'url': m.group('url') if system else p._R_EXPR_STRING_ESCAPE.sub('\\1', m.group('url')), 'system': system}
    if name == 'function':
        m = p._R_SCRIPT_FUNCTION_BEGIN.match(line)
        return m and {'kind': 'function', 'name': m.group('name'),
                      'args': p._R_SCRIPT_FUNCTION_ARG_SPLIT.split(m.group('args')) if m.group('args') is not None else [],
                      'lastArgArray': m.group('lastArgArray') is not None, 'async': m.group('async') is not None}
    raise ValueError(name)


def canon_shape(d):
    """drop null-valued optional keys so that both sides use one form"""
    if isinstance(d, dict):
        return {k: v for k, v in d.items() if not (k in ('off', 'expr') and v is None)}
    return d


def streams(ctx):
    drv = fw.Driver('drv_c06x')
    try:
        _streams(ctx, drv)
    finally:
        if ctx.driver is not None:
            ctx.driver.requests += drv.requests


def _streams(ctx, drv):
    p = P()
    names = pattern_names()

    # ------------------------------------------------------------------ rx-engine
    rng = ctx.rng('rx-engine')
    texts = gen_texts(rng, ctx.scale(700, 9000))
    st = ctx.stream('rx-engine', 'every module-level pattern of parser.py (statement cascade, text layer, expression tokens) x adversarial texts (matching '
                                 'seeds of every statement and token kind, near-miss mutations, many colons / equals / parentheses / quotes / backslashes, '
                                 'blanks of all kinds, Unicode letters and digits, \\n and \\r, empty): Rx.matchAt / Rx.search on the AST vs re.match / re.search '
                                 'on the real compiled pattern - match or not, start, end, span of every group; non-trivial = the real pattern matches')
    srcs = drv.batch([{'op': 'source', 'pattern': 'parser.' + n} for n in names])
    for n, r in zip(names, srcs):
        ctx.compare('rx-engine', {'pattern': n, 'what': 'Rx.render of the AST = pattern source'}, {'source': getattr(p, n).pattern}, r)
    known = [n for n, r in zip(names, srcs) if 'source' in r]
    reqs, meta = [], []
    for n in known:
        pat = getattr(p, n)
        for t in texts:
            reqs.append({'op': 'match', 'pattern': 'parser.' + n, 'text': t})
            meta.append((n, 'match', t, m_json(pat.match(t), pat.groups)))
            if not pat.pattern.startswith('^'):
                reqs.append({'op': 'search', 'pattern': 'parser.' + n, 'text': t})
                meta.append((n, 'search', t, m_json(pat.search(t), pat.groups)))
    for (n, op, t, imp), r in zip(meta, drv.batch(reqs)):
        st.case([n, op, t], nontrivial=imp['m'], tags=['pattern:' + n[3:], 'm:' + str(imp['m'])])
        ctx.compare('rx-engine', {'pattern': n, 'op': op, 'text': t}, imp, r)

    # ------------------------------------------------------------------ rx-classes
    st = ctx.stream('rx-classes', 'every code point 0..0x10FFFF (surrogates excluded): \\d, \\S and . of the engine vs re (\\s, \\w: stream charclass of C10)')
    st.exhaustive = True
    r_digit, r_nspace, r_dot = re.compile(r'\d'), re.compile(r'\S'), re.compile(r'.')

    def runs(pat, lo, hi):
        out, start = [], None
        for cp in range(lo, hi):
            ok = not 0xd800 <= cp < 0xe000 and pat.match(chr(cp)) is not None
            if ok and start is None:
                start = cp
            if not ok and start is not None:
                out.append([start, cp - 1])
                start = None
        if start is not None:
            out.append([start, hi - 1])
        return out
    step = 0x8000
    bounds = [(lo, min(lo + step, 0x110000)) for lo in range(0, 0x110000, step)]
    for (lo, hi), r in zip(bounds, drv.batch([{'op': 'classes', 'lo': lo, 'hi': hi} for lo, hi in bounds])):
        imp = {'digit': runs(r_digit, lo, hi), 'nspace': runs(r_nspace, lo, hi), 'dot': runs(r_dot, lo, hi)}
        st.case([lo, hi], nontrivial=True, tags=['digit-runs:' + str(len(imp['digit']))] if imp['digit'] else [])
        ctx.compare('rx-classes', {'lo': lo, 'hi': hi}, imp, r)

    # ------------------------------------------------------------------ rx-read / rx-scan
    rng = ctx.rng('rx-scan')
    lines = [t for t in gen_texts(rng, ctx.scale(900, 12000)) if '\n' not in t]
    st_r = ctx.stream('rx-read', 'the group reading of parse_script per statement pattern (RxPatterns.rx*: Rx.matchAt on the AST + group texts / '
                                 'match.start / the len() arithmetic of the code) vs the same reading in Python on the real match object, and the whole '
                                 'cascade (RxPatterns.rxShape) vs the first pattern the real parse_script matched (recorded through regex proxies); lines '
                                 'without \\n; non-trivial = the pattern matches')
    st_s = ctx.stream('rx-scan', 'the hand-written scanners of Scan / Text, as Scan.shape uses them (indentation stripped, offsets re-based), vs the reading '
                                 'of the REAL re match per pattern - every statement pattern and the cascade now have a proved regex theorem '
                                 '(C06Regex.shape_is_cascade); the stream stays as a cheap regression check of the scanners against the real re; non-trivial = the pattern matches')
    C10 = None
    try:
        from props import C10 as _C10       # impl_shape: which pattern parse_script matched first (regex proxies)
        C10 = _C10
    except Exception:  # pylint: disable=broad-except
        pass
    reqs, meta = [], []
    parser_err = p.BareScriptParserError
    for ln in lines:
        for sc in SCANNERS:
            if sc == 'shape':
                if C10 is None:
                    continue
                shape, _out = C10.impl_shape(ln)
                if shape is None:
                    continue
                imp = shape
            else:
                imp = py_read(sc, ln)
            imp = canon_shape(imp)
            reqs.append({'op': 'rxscan', 'scanner': sc, 'text': ln})
            meta.append(('rx-read', sc, ln, imp))
            reqs.append({'op': 'scan', 'scanner': sc, 'text': ln})
            meta.append(('rx-scan', sc, ln, imp))
        # C06 on this line, directly on the implementation: only BareScriptParserError, column within the line
        try:
            p.parse_script([ln])
        except parser_err as exc:
            if not 1 <= exc.column_number <= len(exc.line) + 1:
                ctx.witness('parse-total', {'line': ln}, 'column within 1..len(line)+1 of the offending line', [exc.error, exc.line, exc.column_number])
        except Exception as exc:  # pylint: disable=broad-except
            ctx.witness('parse-total', {'line': ln}, 'BareScriptParserError or a model', type(exc).__name__)
    for (stream, sc, ln, imp), r in zip(meta, drv.batch(reqs)):
        s = st_r if stream == 'rx-read' else st_s
        nontrivial = imp not in (None, False, {'kind': 'expr'})
        s.case([sc, ln], nontrivial=nontrivial, tags=['scanner:' + sc + (':proved' if sc in PROVED else ':checked-only'), 'm:' + str(nontrivial)])
        ctx.compare(stream, {'scanner': sc, 'line': ln}, imp, canon_shape(r))


def replay(witness):
    if witness.get('oracle') != 'parse-total':
        return None
    p = P()
    ln = witness['input']['line']
    try:
        p.parse_script([ln])
    except p.BareScriptParserError as exc:
        return not 1 <= exc.column_number <= len(exc.line) + 1
    except Exception:  # pylint: disable=broad-except
        return True
    return False


LEVEL_TEXT_EXT = ('a regex AST + total backtracking matcher (Rx) whose rendering is pinned by the kernel to the sources of all 37 patterns of parser.py regenerated on every run; every hand-written scanner of the model (line splitter, comment / continuation tests, the 17 statement patterns, the 11 expression token patterns, the escape substitutions) is proved equal to the reading of the engine match for ALL texts; parseScript_fully_regex_driven: Parser.parseScript = the regex-driven parser over those ASTs, every input, no side condition. CPython re = Rx.m on this fragment is tied by the rx-engine stream (every pattern x adversarial texts, every group span).')
