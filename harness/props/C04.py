"""C04 - scoping, calling convention and host globals behave as documented."""

import copy
import itertools
import json
import os
import sys
from fractions import Fraction

import fw
import progen
from progen import call, num, string, var, wf_binary

ID = 'C04'
LEVEL = 'proof'
LEAN_TARGETS = ['BareProofs.C04']
DRIVER = 'drv_c01'
DRIVER_ROOT = 'Drv.C01'
GEN = []
THEOREMS = [
    # calling convention
    'C04.bindArgs_eq_bindSpec', 'C04.bindArgs_spec', 'C04.bindArgs_spec_nodup', 'C04.param_lookup', 'C04.bindArgs_missing_null',
    'C04.bindArgs_surplus_ignored', 'C04.bindArgs_rest_fresh',
    # scoping
    'C04.lookup_order', 'C04.lookup_order_func', 'C04.builtin_never_shadows', 'C04.eval_variable', 'C04.eval_call',
    'C04.local_assign_writes_locals', 'C04.toplevel_assign_writes_globals', 'C04.call_starts_from_fresh_locals',
    'C04.frameAt', 'C04.globals_frame', 'C04.toplevel_frame', 'C04.assign_local_only', 'C04.call_leaves_globals',
    # an included script is a top-level script, from whatever scope it is included
    'C04.include_continues_with_same_locals', 'C04.included_script_runs_at_top_level',
    # host globals and the library
    'C04.inject_preserves_host', 'C04.inject_keeps_host_order', 'C04.inject_eq_spec', 'C04.injectLib_eq_inject',
    'C04.funcdef_overrides_library', 'C04.funcdef_overrides_injected',
    # one entry point
    'C04.callbacks_use_same_convention', 'C04.partial_uses_same_convention',
]
ASSUMPTIONS = [
    'the Lean host (BareModel/HostImpl.lean) models 18 library functions; programs compared with the model use only those; arraySort '
    'call-backs and the expression-mode built-ins (evaluate_expression builtins=True) are checked on the implementation only (reference '
    'interpreter / direct oracles) - the theorems lookup_order_func / builtin_never_shadows cover the built-in rule for any table',
    'numbers in generated programs are small integers, so the rational arithmetic of the model equals float arithmetic',
    'a library function used as arrayIndexOf predicate that FAILS (raises ValueArgsError inside the call-back) is outside the model: the '
    'Python exception aborts the whole arrayIndexOf call while the interaction tree continues with the failure value; generators use '
    'script functions and partial applications of script functions as predicates; likewise systemType() / systemBoolean() with NO argument '
    'and systemGlobalSet(name) with one argument succeed in the code (missing argument = null) but are failures in the Lean host: library '
    'function passed around as a value (it may end up as a predicate) is arrayNew, which cannot fail',
    'included scripts live in one flat virtual directory served by the fetchFn of the run, so the URL an include resolves to is the URL '
    'it names (URL resolution, systemPrefix and urlFn are C17); a file that does not parse is C09/C17 matter, generated programs use '
    'well-formed files and missing files',
    'Python recursion limit: programs are run with maxStatements=200 and the recursion limit raised, so RecursionError (DESIGN section 6) '
    'cannot occur',
    'host functions that write options["globals"] while they are evaluated as arguments (stream rebind, host part) and partial histories with '
    'more than ~40 statements or arraySort comparators (stream partialhist, scale part) are checked on the implementation only, against closed '
    'forms: the Lean host has no function that writes the globals object other than systemGlobalSet, no arraySort, and the model runs use a '
    'statement budget of 200',
    'histories of executions of ONE parsed model object (stream reexec: the same model executed again with the same / fresh globals and options '
    'objects, function values of an earlier execution called after a later one, two models executed in turn) are checked on the implementation '
    'only, against the closed binding formula and the reference: a run of the Lean machine always starts from the syntax tree, it has no '
    'identity of a parsed model; executions with fresh globals of the modelled families are also compared with the model outcome',
    'a function statement reached several times in one run with the name rebound in between (stream redefine): compared with the Lean machine up '
    'to 5 passes and for the 18 modelled library names (stringLength and the longer runs: implementation only, closed form); a `for` loop is '
    'lowered to calls of the global names arrayLength / arrayGet, so the for shape is not combined with a host that shadows arrayLength',
]
TRUSTED = ['reference interpreter of scoping / calling convention / library injection (class Ref, with its own systemGlobalGet/Set, its own systemPartial [an immutable snapshot of the bound arguments per partial value] and its own include: an included script runs at top level; arguments are evaluated left to right BEFORE the callee is looked up) and the closed-form '
           'oracles (expected_binding, the include-scope matrix scope_cell_case, the callee-rebinding matrix rebind_case / oracle_rebind_host, the partial-history expectation ph_build, the re-execution histories check_reexec (every execution of one model object = the closed binding formula), the repeated-definition histories check_redefine (every execution of a function statement rebinds the global), the include-position metamorphic relation, the source-spelling '
           'renderer Speller / header_text whose texts are expected to mean the structured program they were rendered from) in '
           'harness/props/C04.py; the library functions themselves, the operators and value_string are shared '
           'with the implementation (they belong to C03/C13/C15)']

MAX_STATEMENTS = 200
FUEL = 6000
MODEL_LIB = list(progen.MODEL_LIB)

if sys.getrecursionlimit() < 20000:
    sys.setrecursionlimit(20000)


# ---------------------------------------------------------------------------------------------------------------------
# host globals: JSON-able *spec* form (a library function is {'$lib': name}) -> implementation values / driver wire form
# ---------------------------------------------------------------------------------------------------------------------

def is_lib_marker(v):
    return isinstance(v, dict) and set(v) == {'$lib'}


def realize(spec):
    """spec value -> Python runtime value (fresh containers; library functions are the implementation's objects)"""
    lib = fw.impl()['library'].SCRIPT_FUNCTIONS
    if is_lib_marker(spec):
        return lib[spec['$lib']]
    if isinstance(spec, list):
        return [realize(x) for x in spec]
    if isinstance(spec, dict):
        return {k: realize(v) for k, v in spec.items()}
    return spec


def realize_globals(spec):
    return {k: realize(v) for k, v in spec.items()}


def wire_value(spec):
    if is_lib_marker(spec):
        return {'f': spec['$lib']}
    if spec is None or isinstance(spec, (bool, str)):
        return spec
    if isinstance(spec, (int, float)):
        fr = Fraction(spec)
        return {'n': [fr.numerator, fr.denominator]}
    if isinstance(spec, list):
        return [wire_value(x) for x in spec]
    return {'o': [[k, wire_value(v)] for k, v in spec.items()]}


def wire_globals(spec):
    return [[k, wire_value(v)] for k, v in spec.items()]


# ---------------------------------------------------------------------------------------------------------------------
# The reference: scoping, calling convention and library injection written from the property statement.
# Shared with the implementation (other properties): the library functions, the strict operators, value_boolean.
# ---------------------------------------------------------------------------------------------------------------------

class RefBudget(BaseException):
    pass


class Ref:
    def __init__(self, host_globals, budget=4000, expression_builtins=False, files=None):
        mods = fw.impl()
        self.files = files or {}                              # url -> structured program (flat virtual directory)
        self.runtime, self.library, self.value = mods['runtime'], mods['library'], mods['value']
        self.log = []
        self.budget = budget
        self.builtins = expression_builtins
        # "The library is added to the globals without overwriting any name the caller supplied"
        self.g = host_globals
        for name, fn in self.library.SCRIPT_FUNCTIONS.items():
            if name not in self.g:
                self.g[name] = fn
        self.options = {'globals': self.g, 'logFn': self.log.append, 'statementCount': 0, 'maxStatements': 0}

    def step(self):
        self.budget -= 1
        if self.budget < 0:
            raise RefBudget()

    # -- lookup -------------------------------------------------------------------------------------------------------

    def lookup_var(self, name, locals_):
        # "reads see locals before globals"; unbound -> null
        if locals_ is not None and name in locals_:
            return locals_[name]
        if name in self.g:
            return self.g[name]
        return None

    def lookup_func(self, name, locals_):
        # "a name bound in locals or globals always wins over a built-in expression function"
        if locals_ is not None and name in locals_:
            return True, locals_[name]
        if name in self.g:
            return True, self.g[name]
        if self.builtins and name in self.library.EXPRESSION_FUNCTIONS:
            return True, self.library.EXPRESSION_FUNCTIONS[name]
        return False, None

    # -- calls --------------------------------------------------------------------------------------------------------

    def global_set(self, args):
        # systemGlobalSet(name, value): "globals[name] = value", returns the value; a non-string name / too many arguments fail (null)
        if not 1 <= len(args) <= 2 or not isinstance(args[0], str):
            return None
        value_ = args[1] if len(args) == 2 else None
        self.g[args[0]] = value_
        return value_

    def global_get(self, args):
        # systemGlobalGet(name, defaultValue): the global's value if the name is bound (also when bound to null), else the default
        if not 1 <= len(args) <= 2 or not isinstance(args[0], str):
            return None
        return self.g[args[0]] if args[0] in self.g else (args[1] if len(args) == 2 else None)

    def partial(self, args):
        # systemPartial(func, args...): a NEW function value that calls `func` with a private, immutable snapshot of the bound arguments
        # followed by the arguments of the call; neither `func` (possibly itself a partial) nor any other partial derived from it is
        # changed by that; not a function / no bound argument: failure (null)
        if len(args) < 2 or not callable(args[0]):
            return None
        func, bound = args[0], tuple(args[1:])
        return lambda extra, unused_options: self.apply(func, [*bound, *extra])

    def apply(self, fv, args):
        """call of a function value WITHOUT the failure handling of the call wrapper (what a partial / a call-back does)"""
        if fv is self.library.SCRIPT_FUNCTIONS['systemGlobalSet']:
            return self.global_set(list(args))
        if fv is self.library.SCRIPT_FUNCTIONS['systemGlobalGet']:
            return self.global_get(list(args))
        if fv is self.library.SCRIPT_FUNCTIONS['systemPartial']:
            return self.partial(list(args))
        return fv(args, self.options)

    def call_value(self, fv, args):
        """the call wrapper (C05's subject, reproduced): a failing host function yields its failure value / null"""
        try:
            return self.apply(fv, args)
        except (self.runtime.BareScriptRuntimeError, fw.impl()['parser'].BareScriptParserError):
            raise
        except Exception as exc:  # pylint: disable=broad-except
            if isinstance(exc, self.value.ValueArgsError):
                return exc.return_value
            return None

    def make_function(self, s):
        params = list(s['args'])
        rest = bool(s.get('lastArgArray'))

        def fn(args, unused_options):
            self.step()
            locals_ = {}                                      # every call starts from fresh locals
            n = len(params)
            for i, p in enumerate(params):                    # positional; a repeated name: later position wins
                if rest and i == n - 1:
                    locals_[p] = list(args[i:])               # a FRESH array of the remaining arguments (empty when missing)
                elif i < len(args):
                    locals_[p] = args[i]
                else:
                    locals_[p] = None                         # missing -> null; surplus arguments are simply not looked at
            done, value_ = self.block(s['b'], locals_)
            return value_ if done else None
        fn.ref_script_function = True
        return fn

    # -- expressions --------------------------------------------------------------------------------------------------

    def operator(self, op, left, right):
        expr = {'binary': {'op': op, 'left': {'variable': 'l'}, 'right': {'variable': 'r'}}}
        return self.runtime.evaluate_expression(expr, None, {'l': left, 'r': right}, False)

    def ev(self, e, locals_):
        (k, v), = e.items()
        if k == 'number':
            return float(Fraction(v[0], v[1]))
        if k == 'string':
            return v
        if k == 'variable':
            if v == 'null':
                return None
            if v == 'true':
                return True
            if v == 'false':
                return False
            return self.lookup_var(v, locals_)
        if k == 'group':
            return self.ev(v, locals_)
        if k == 'unary':
            x = self.ev(v['expr'], locals_)
            if v['op'] == '!':
                return not self.value.value_boolean(x)
            return self.runtime.evaluate_expression({'unary': {'op': '-', 'expr': {'variable': 'x'}}}, None, {'x': x}, False)
        if k == 'binary':
            left = self.ev(v['left'], locals_)
            if v['op'] == '&&':
                return self.ev(v['right'], locals_) if self.value.value_boolean(left) else left
            if v['op'] == '||':
                return left if self.value.value_boolean(left) else self.ev(v['right'], locals_)
            return self.operator(v['op'], left, self.ev(v['right'], locals_))
        # function call
        name = v['name']
        if name == 'if':
            a = v['args']
            cond = self.ev(a[0], locals_) if len(a) >= 1 else False
            pick = (a[1] if len(a) >= 2 else None) if self.value.value_boolean(cond) else (a[2] if len(a) >= 3 else None)
            return self.ev(pick, locals_) if pick is not None else None
        args = [self.ev(a, locals_) for a in v['args']]
        bound, fv = self.lookup_func(name, locals_)
        if not bound or fv is None:
            raise self.runtime.BareScriptRuntimeError(f'Undefined function "{name}"')
        return self.call_value(fv, args)

    # -- statements (structured form of progen) -----------------------------------------------------------------------

    def block(self, stmts, locals_):
        """-> (returned?, value)"""
        for s in stmts:
            self.step()
            k = s['k']
            if k == 'expr':
                value_ = self.ev(s['e'], locals_)
                if s.get('name'):
                    if locals_ is not None:
                        locals_[s['name']] = value_           # inside a function: only that call's locals
                    else:
                        self.g[s['name']] = value_            # top level: the caller-supplied globals object
            elif k == 'ret':
                return True, (self.ev(s['e'], locals_) if s.get('e') else None)
            elif k == 'if':
                node = s
                while node is not None:
                    if node['k'] == 'else':
                        done, value_ = self.block(node['b'], locals_)
                        if done:
                            return True, value_
                        break
                    if self.value.value_boolean(self.ev(node['c'], locals_)):
                        done, value_ = self.block(node['t'], locals_)
                        if done:
                            return True, value_
                        break
                    node = node.get('else')
            elif k == 'func':
                self.g[s['name']] = self.make_function(s)     # a script-defined function replaces whatever the global was
            elif k == 'include':
                # an included script is a script of its own: its statements are TOP-LEVEL statements - they read and write the
                # caller-supplied globals object whatever scope the include statement stands in (a function body, a call-back, a
                # function of another included script); its `return` ends only the included script; the including scope's
                # locals are neither visible to it nor touched by it
                for inc in s['includes']:
                    sub = self.files.get(inc['url'])
                    if sub is None:
                        raise self.runtime.BareScriptRuntimeError(f'Include of "{inc["url"]}" failed')
                    self.block(sub, None)
            else:
                raise ValueError('outside the reference: ' + k)
        return False, None


def run_reference(prog, host_spec, files=None):
    """-> outcome dict comparable with progen.strip_hidden(progen.run_impl(...)), or None (budget)"""
    library = fw.impl()['library']
    ref = Ref(realize_globals(host_spec), files=files)
    out = {}
    try:
        done, value_ = ref.block(prog, None)
        out['result'] = progen.ref_wire(value_ if done else None, library.SCRIPT_FUNCTIONS)
    except RefBudget:
        return None
    except ref.runtime.BareScriptRuntimeError as exc:
        out['error'] = str(exc)
    out['log'] = list(ref.log)
    out['globals'] = sorted([[k, progen.ref_wire(v, library.SCRIPT_FUNCTIONS)] for k, v in ref.g.items()
                             if not (k in library.SCRIPT_FUNCTIONS and v is library.SCRIPT_FUNCTIONS[k])], key=lambda kv: kv[0])
    return out


# ---------------------------------------------------------------------------------------------------------------------
# running the implementation
# ---------------------------------------------------------------------------------------------------------------------

def explicit_flags(model):
    """hand-built variant of a parsed model: every function statement spells out 'lastArgArray' (False when absent) - F23"""
    model = copy.deepcopy(model)

    def walk(stmts):
        for st in stmts:
            if 'function' in st:
                st['function'].setdefault('lastArgArray', False)
                walk(st['function']['statements'])
    walk(model['statements'])
    return model


def parse(text):
    return fw.impl()['parser'].parse_script(text)


def files_text(files):
    """{url: structured program} -> {url: source text} (what the host's fetchFn serves)"""
    return None if files is None else {url: '\n'.join(progen.render(fp)) + '\n' for url, fp in files.items()}


def run_impl(model, host_spec, max_statements=MAX_STATEMENTS, files=None, ftexts=None):
    """files: {url: structured program} served in the canonical spelling, unless ftexts ({url: source text}) gives the texts"""
    return progen.run_impl(model, realize_globals(host_spec), max_statements=max_statements,
                           files=ftexts if ftexts is not None else files_text(files))


def run_text(text, host_spec, flags=False, files=None, ftexts=None, max_statements=MAX_STATEMENTS):
    """parse_script + execute_script of a source text -> canonical outcome; a text the parser rejects is an outcome too (the
    generated texts are all well-formed, so a rejection shows up as a difference to the reference / the model)"""
    try:
        model = parse(text)
    except fw.impl()['parser'].BareScriptParserError as exc:
        return {'error': 'ParserError ' + str(exc).split('\n', 1)[0], 'log': [], 'count': None,
                'globals': sorted([[k, wire_value(v)] for k, v in host_spec.items() if not (is_lib_marker(v) and v['$lib'] == k)],
                                  key=lambda kv: kv[0])}
    return run_impl(explicit_flags(model) if flags else model, host_spec, max_statements=max_statements, files=files, ftexts=ftexts)


def budget_exceeded(out):
    return 'Exceeded maximum script statements' in str(out.get('error', '')) or 'hostexc' in out


# ---------------------------------------------------------------------------------------------------------------------
# Oracles on the implementation (independent of Lean).  Each returns [(oracle, expected, actual)] of the failing ones.
# ---------------------------------------------------------------------------------------------------------------------

def static_names(prog, acc=None, top=True, files=None):
    """names a run may legitimately leave in the globals: top-level assignment targets (of the script and of every script it can
    include, from whatever scope), function names, systemGlobalSet keys"""
    acc = {'top': set(), 'funcs': set(), 'gset': set(), 'local': set(), 'seen': set()} if acc is None else acc

    def scan_expr(e):
        (k, v), = e.items()
        if k == 'function':
            if v['name'] == 'systemGlobalSet' and v['args'] and 'string' in v['args'][0]:
                acc['gset'].add(v['args'][0]['string'])
            elif v['name'] == 'systemGlobalSet':
                acc['gset'].add('*')
            for a in v['args']:
                scan_expr(a)
        elif k == 'binary':
            scan_expr(v['left'])
            scan_expr(v['right'])
        elif k == 'unary':
            scan_expr(v['expr'])
        elif k == 'group':
            scan_expr(v)

    for s in prog:
        k = s['k']
        if k == 'expr':
            scan_expr(s['e'])
            if s.get('name'):
                acc['top' if top else 'local'].add(s['name'])
        elif k == 'ret' and s.get('e'):
            scan_expr(s['e'])
        elif k == 'if':
            node = s
            while node is not None:
                if node['k'] != 'else':
                    scan_expr(node['c'])
                static_names(node['b'] if node['k'] == 'else' else node['t'], acc, top, files)
                node = node.get('else') if node['k'] != 'else' else None
        elif k == 'func':
            acc['funcs'].add(s['name'])
            acc['local'].update(s['args'])
            static_names(s['b'], acc, False, files)
        elif k == 'include':
            for inc in s['includes']:
                if inc['url'] in (files or {}) and inc['url'] not in acc['seen']:
                    acc['seen'].add(inc['url'])
                    static_names(files[inc['url']], acc, True, files)       # top-level statements, wherever the include stands
    return acc


def oracle_run(prog, host_spec, impl, files=None):
    """impl: canonical outcome of the implementation on `prog`.  Reference run + the no-leak / host-preservation checks."""
    bad = []
    if budget_exceeded(impl):
        return bad
    ref = run_reference(prog, host_spec, files)
    if ref is not None and ref != progen.strip_hidden(impl):
        bad.append(('reference-run', ref, progen.strip_hidden(impl)))
    names = static_names(prog, files=files)
    allowed = set(host_spec) | names['top'] | names['funcs'] | names['gset']
    if '*' not in names['gset']:
        leaked = sorted(k for k, _ in impl['globals'] if k not in allowed)
        if leaked:
            bad.append(('no-leaked-locals', sorted(allowed), leaked))
        # a host global that the script never writes keeps its value
        written = names['top'] | names['funcs'] | names['gset']
        final = dict((k, v) for k, v in impl['globals'])
        for k, v in host_spec.items():
            if k in written or mutable_spec(v):
                continue
            want = wire_value(v)
            if is_lib_marker(v) and k == v['$lib']:
                got = final.get(k, want)                            # a library binding is filtered out of the outcome
            else:
                got = final.get(k, '<absent>')
            if got != want:
                bad.append(('host-global-kept', {k: want}, {k: got}))
    return bad


def mutable_spec(v):
    return isinstance(v, (list, dict)) and not is_lib_marker(v)


def expected_binding(params, rest, args):
    """the documented binding as a closed formula -> {param: value}; a repeated parameter keeps its LAST position"""
    n = len(params)
    out = {}
    for i, p in enumerate(params):
        if rest and i == n - 1:
            out[p] = list(args[i:])
        else:
            out[p] = args[i] if i < len(args) else None
    return out


def probe_lines(value_):
    """what `systemLog(systemType(p))`, `systemLog(p)` print for a bound value (JSON-like Python value)"""
    mods = fw.impl()
    return [mods['value'].value_type(value_) or 'null', mods['value'].value_string(value_)]


def oracle_host_injection(host_spec):
    """execute_script on an empty script: the caller's object keeps every binding (same object, same order, as a prefix); every
    other library name is bound to the library function"""
    mods = fw.impl()
    lib = mods['library'].SCRIPT_FUNCTIONS
    g = realize_globals(host_spec)
    before = dict(g)
    mods['runtime'].execute_script({'statements': []}, {'globals': g, 'maxStatements': 10})
    bad = []
    changed = sorted(k for k in before if k not in g or g[k] is not before[k])
    if changed:
        bad.append(('host-globals-not-overwritten', {k: wire_value(host_spec[k]) for k in changed},
                    {k: progen.value_to_wire(g.get(k), lib) for k in changed}))
    if list(g)[:len(before)] != list(before):
        bad.append(('host-globals-order', list(before), list(g)[:len(before)]))
    missing = sorted(k for k in lib if k not in g or (k not in before and g[k] is not lib[k]))
    if missing:
        bad.append(('library-added', 'every library name bound', missing[:10]))
    extra = sorted(k for k in g if k not in before and k not in lib)
    if extra:
        bad.append(('nothing-else-added', [], extra))
    return bad


EXPR_SKIP_VALUE = {'now', 'today', 'rand'}


def oracle_expression_mode(name):
    """evaluate_expression(..., builtins=True): a global/local named like the built-in `name` wins; without a binding the
    built-in is used; with builtins=False it is not"""
    mods = fw.impl()
    runtime, library, parser = mods['runtime'], mods['library'], mods['parser']
    expr = parser.parse_expression(f'{name}(1, 2)')
    bad = []

    def marker(tag):
        return lambda args, options: [tag, list(args)]

    def run(globals_, locals_, builtins=True):
        try:
            return {'value': runtime.evaluate_expression(expr, {'globals': globals_} if globals_ is not None else None, locals_, builtins)}
        except runtime.BareScriptRuntimeError as exc:
            return {'error': str(exc)}

    def check(label, got, want):
        if got != want:
            bad.append((f'builtin-shadow:{label}', want, got))

    check('global-function-wins', run({name: marker('G')}, None), {'value': ['G', [1.0, 2.0]]})
    check('local-function-wins', run({name: marker('G')}, {name: marker('L')}), {'value': ['L', [1.0, 2.0]]})
    check('local-wins-without-global', run({}, {name: marker('L')}), {'value': ['L', [1.0, 2.0]]})
    check('local-wins-no-options', run(None, {name: marker('L')}), {'value': ['L', [1.0, 2.0]]})
    check('global-non-function-wins', run({name: 5}, None), {'value': None})
    check('local-non-function-wins', run({name: marker('G')}, {name: 'text'}), {'value': None})
    check('global-null-wins', run({name: None}, None), {'error': f'Undefined function "{name}"'})
    check('local-null-wins', run({name: marker('G')}, {name: None}), {'error': f'Undefined function "{name}"'})
    check('no-builtins', run({}, None, builtins=False), {'error': f'Undefined function "{name}"'})
    check('global-wins-no-builtins', run({name: marker('G')}, None, builtins=False), {'value': ['G', [1.0, 2.0]]})
    if name not in EXPR_SKIP_VALUE:
        try:
            direct = {'value': library.EXPRESSION_FUNCTIONS[name]([1.0, 2.0], {'globals': {}})}
        except Exception as exc:  # pylint: disable=broad-except
            direct = {'value': exc.return_value if isinstance(exc, mods['value'].ValueArgsError) else None}
        check('builtin-used-when-unbound', run({}, None), direct)
        check('builtin-used-other-names-bound', run({name + 'x': marker('G')}, {'other': 1}), direct)
    # the variable of the same name is an ordinary variable
    vexpr = parser.parse_expression(name)
    got = runtime.evaluate_expression(vexpr, {'globals': {name: 7}}, None, True)
    if got != 7:
        bad.append(('builtin-shadow:variable', 7, got))
    return bad


def oracle_rest_fresh(nparams, nargs):
    """host-level call of a script function value: the `...` parameter is a fresh list - mutating it inside the function changes
    neither the caller's argument list, nor the argument values, nor the next call"""
    mods = fw.impl()
    params = ['p', 'q', 'r'][:nparams]
    text = f"function ff({', '.join(params)}...):\n    arrayPush({params[-1]}, 99)\n    return {params[-1]}\nendfunction\n"
    g = {}
    options = {'globals': g, 'maxStatements': 1000}
    mods['runtime'].execute_script(mods['parser'].parse_script(text), options)
    if not callable(g.get('ff')):
        return [('toplevel-writes-caller-globals', 'globals["ff"] is the script function', progen.value_to_wire(g.get('ff')))]
    fn = g['ff']
    inner = [7.0]
    args = [1.0, 'a', inner, 4.0, 5.0][:nargs]
    before = list(args)
    r1 = fn(args, options)
    r2 = fn(args, options)
    want = list(before[nparams - 1:]) + [99.0]
    bad = []
    if args != before or inner != [7.0]:
        bad.append(('rest-fresh:caller-list-untouched', before, args))
    if r1 != want or r2 != want:
        bad.append(('rest-fresh:value', want, [r1, r2]))
    if r1 is r2 or r1 is args:
        bad.append(('rest-fresh:identity', 'a new array per call', 'shared'))
    return bad


# ---------------------------------------------------------------------------------------------------------------------
# Program generator
# ---------------------------------------------------------------------------------------------------------------------

FN_NAMES = ['fa', 'fb', 'fc', 'fd']
LIB_REDEF = ['arrayLength', 'arrayGet', 'systemType', 'systemBoolean', 'arrayCopy', 'systemCompare', 'objectGet', 'arrayPush', 'systemLog']
DATA_VARS = ['x', 'y', 'z', 'acc']
PARAM_POOL = ['p', 'q', 'r', 'x', 'y', 'cb', 'pf', 'fa', 'arrayLength', 'acc']
GSET_NAMES = ['x', 'y', 'gs', 'fa', 'acc']
# library functions used as shadowing values / passed as values are total for EVERY argument count in the Lean host as in the code
# (systemType() / systemBoolean() / systemGlobalSet(name) with a missing argument are modelled as failures but succeed with null)
HOST_SHADOW_VALUES = [5, None, 'text', [1, 2], False, {'$lib': 'arrayGet'}, {'$lib': 'arrayLength'}, 0]


class CallGen:
    """programs about calls: <= 4 functions, 0-3 parameters, optional `...`, 0-5 arguments, functions as values, partials, call-backs,
    locals vs globals shadowing, systemGlobalSet/Get inside functions; all choices from one random.Random"""

    def __init__(self, rng, allow_sort=False):
        self.rng = rng
        self.allow_sort = allow_sort
        self.funcs = []            # [(name, params, rest)] in definition order = rank
        self.tags = set()

    # -- expressions --------------------------------------------------------------------------------------------------

    def atom(self, scope):
        r = self.rng.random()
        if r < 0.40:
            return num(self.rng.randint(0, 9))
        if r < 0.50:
            return string(self.rng.choice(['', 's', 'tx']))
        if r < 0.58:
            return var(self.rng.choice(['null', 'true', 'false']))
        if r < 0.85 and scope:
            return var(self.rng.choice(scope))
        if r < 0.93:
            return call('arrayNew', *[num(self.rng.randint(0, 9)) for _ in range(self.rng.randint(0, 3))])
        return var(self.rng.choice(DATA_VARS))

    def fn_value(self, max_rank):
        """an expression denoting a function value of rank < max_rank (or a library function)"""
        cands = [f[0] for f in self.funcs[:max_rank]]
        r = self.rng.random()
        if cands and r < 0.75:
            name = self.rng.choice(cands)
            if self.rng.random() < 0.25:
                self.tags.add('partial-as-value')
                return call('systemPartial', var(name), *[self.atom([]) for _ in range(self.rng.randint(1, 2))])
            return var(name)
        return var('arrayNew')      # the one library function that cannot fail, whatever it is called with (see ASSUMPTIONS)

    def arg(self, scope, fn_rank):
        if fn_rank > 0 and self.rng.random() < 0.12:
            self.tags.add('function-as-argument')
            return self.fn_value(fn_rank)
        if self.rng.random() < 0.15:
            return wf_binary('+', self.atom(scope), num(self.rng.randint(1, 3)))
        return self.atom(scope)

    def nargs_for(self, nparams):
        return self.rng.choice([0, 1, 2, 3, 4, 5, nparams, nparams, max(0, nparams - 1), nparams + 1])

    def script_call(self, scope, max_rank):
        """a call of a script function of rank < max_rank by one of the call paths"""
        ix = self.rng.randrange(max_rank)
        name, params, _ = self.funcs[ix]
        n = self.nargs_for(len(params))
        args = [self.arg(scope, ix) for _ in range(n)]
        path = self.rng.choice(['direct', 'direct', 'direct', 'partial', 'indexof'] + (['sort'] if self.allow_sort else []))
        self.tags.add('path:' + path)
        self.tags.add(f'nargs{n}')
        if path == 'direct':
            return call(name, *args)
        if path == 'partial':
            k = self.rng.randint(1, max(1, n))
            pre = args[:k] if args else [self.atom(scope)]
            post = args[k:]
            return {'$partial': (call('systemPartial', var(name), *pre), post)}
        if path == 'indexof':
            pred = var(name) if self.rng.random() < 0.7 or n == 0 else call('systemPartial', var(name), *args[:self.rng.randint(1, n)])
            arr = call('arrayNew', *[self.atom([]) for _ in range(self.rng.randint(0, 3))])
            return call('arrayIndexOf', arr, pred)
        arr = call('arrayNew', *[num(self.rng.randint(0, 5)) for _ in range(self.rng.randint(0, 4))])
        return call('arraySort', arr, var(name))

    # -- statements ---------------------------------------------------------------------------------------------------

    def emit_call(self, out, target, expr):
        """append the statements for `target = expr` where expr may be the two-step partial form"""
        if isinstance(expr, dict) and '$partial' in expr:
            mk, post = expr['$partial']
            holder = self.rng.choice(['pv', 'qv'])
            out.append({'k': 'expr', 'name': holder, 'e': mk})
            expr = call(holder, *post)
        out.append({'k': 'expr', 'name': target, 'e': expr})

    def scope_stmts(self, scope, rank, in_func, params=(), rest=False):
        out = []
        for _ in range(self.rng.randint(1, 4)):
            r = self.rng.random()
            if r < 0.22:
                self.tags.add('assign')
                out.append({'k': 'expr', 'name': self.rng.choice(DATA_VARS), 'e': self.arg(scope, 0)})
            elif r < 0.34:
                self.tags.add('globalSet' + ('-in-function' if in_func else ''))
                out.append({'k': 'expr', 'name': None,
                            'e': call('systemGlobalSet', string(self.rng.choice(GSET_NAMES)), self.arg(scope, 0))})
            elif r < 0.44:
                self.tags.add('globalGet' + ('-in-function' if in_func else ''))
                out.append({'k': 'expr', 'name': None,
                            'e': call('systemLog', wf_binary('+', string('gg:'), call('systemGlobalGet', string(self.rng.choice(GSET_NAMES)))))})
            elif r < 0.58:
                self.tags.add('read')
                v = self.rng.choice(DATA_VARS + list(params))
                out.append({'k': 'expr', 'name': None, 'e': call('systemLog', wf_binary('+', string(f'rd:{v}:'), var(v)))})
            elif r < 0.80 and rank > 0:
                tgt = self.rng.choice(DATA_VARS + [None])
                self.emit_call(out, tgt, self.script_call(scope, rank))
                if tgt:
                    out.append({'k': 'expr', 'name': None, 'e': call('systemLog', wf_binary('+', string('rv:'), var(tgt)))})
            elif r < 0.86 and in_func and [p for p in params if len(p) >= 2]:
                self.tags.add('call-parameter')
                p = self.rng.choice([p for p in params if len(p) >= 2])
                out.append({'k': 'expr', 'name': self.rng.choice(DATA_VARS),
                            'e': call(p, *[self.atom(scope) for _ in range(self.rng.randint(0, 3))])})
            elif r < 0.92 and in_func and rest and params:
                self.tags.add('mutate-rest')
                out.append({'k': 'expr', 'name': None, 'e': call('arrayPush', var(params[-1]), num(99))})
                out.append({'k': 'expr', 'name': None, 'e': call('systemLog', var(params[-1]))})
            elif r < 0.97:
                self.tags.add('if')
                c = self.atom(scope)
                out.append({'k': 'if', 'c': c, 't': [{'k': 'expr', 'name': self.rng.choice(DATA_VARS), 'e': self.atom(scope)}],
                            'else': {'k': 'else', 'b': [{'k': 'expr', 'name': self.rng.choice(DATA_VARS), 'e': self.atom(scope)}]}
                            if self.rng.random() < 0.5 else None})
            else:
                self.tags.add('call-library-by-name')
                out.append({'k': 'expr', 'name': self.rng.choice(DATA_VARS),
                            'e': call(self.rng.choice(['arrayLength', 'systemType', 'arrayGet']), self.atom(scope), num(0))
                            if self.rng.random() < 0.5 else call('arrayLength', self.atom(scope))})
        return out

    def funcdef(self, rank):
        rng = self.rng
        name = FN_NAMES[rank] if rng.random() < 0.88 else rng.choice(LIB_REDEF)
        if name in LIB_REDEF:
            self.tags.add('redefines-library-name')
        nparams = rng.randint(0, 3)
        params = rng.sample(PARAM_POOL, nparams)
        if nparams >= 2 and rng.random() < 0.05:
            params[-1] = params[0]
            self.tags.add('duplicate-parameter')
        rest = (nparams > 0 and rng.random() < 0.4) or (nparams == 0 and rng.random() < 0.05)
        self.tags.add(f'params{nparams}' + ('...' if rest else ''))
        body = []
        for p in dict.fromkeys(params):
            body.append({'k': 'expr', 'name': None, 'e': call('systemLog', wf_binary('+', string(f'{name}.{p}:'), call('systemType', var(p))))})
            body.append({'k': 'expr', 'name': None, 'e': call('systemLog', var(p))})
        scope = list(dict.fromkeys(params)) + DATA_VARS
        body += self.scope_stmts(scope, rank, True, params, rest)
        if rng.random() < 0.75:
            choices = [self.atom(scope)]
            if params:
                choices.append(call('arrayNew', *[var(p) for p in params]))
                choices.append(var(rng.choice(params)))
            body.append({'k': 'ret', 'e': rng.choice(choices)})
        self.funcs.append((name, params, rest))
        return {'k': 'func', 'fid': 0, 'name': name, 'args': params, 'lastArgArray': rest, 'async': False, 'b': body}

    def program(self):
        rng = self.rng
        prog = []
        nfun = rng.randint(1, 4)
        late = None
        for rank in range(nfun):
            fd = self.funcdef(rank)
            # (a late definition under a library name would leave the LIBRARY function callable with 0-5 arguments before it; the Lean
            # host does not model every arity of every library function, so late definitions use non-library names)
            if rank == nfun - 1 and rng.random() < 0.1 and fd['name'] in FN_NAMES:
                late = fd
                self.tags.add('late-definition')
            else:
                prog.append(fd)
        if rng.random() < 0.5:
            prog.append({'k': 'expr', 'name': rng.choice(DATA_VARS), 'e': num(rng.randint(10, 20))})
        # functions passed as values and called through a variable
        if rng.random() < 0.5:
            self.tags.add('call-through-variable')
            ix = rng.randrange(len(self.funcs))
            prog.append({'k': 'expr', 'name': 'fv', 'e': var(self.funcs[ix][0])})
            n = self.nargs_for(len(self.funcs[ix][1]))
            self.tags.add(f'nargs{n}')
            prog.append({'k': 'expr', 'name': rng.choice(DATA_VARS), 'e': call('fv', *[self.arg(DATA_VARS, ix) for _ in range(n)])})
        for _ in range(rng.randint(1, 3)):
            prog += self.scope_stmts(DATA_VARS, len(self.funcs) - (0 if late is None else 1), False)
        if late is not None:
            prog.append(late)
            self.emit_call(prog, 'z', call(late['name'], *[self.atom(DATA_VARS) for _ in range(rng.randint(0, 5))]))
        if rng.random() < 0.1 and len(self.funcs) >= 1:
            # the same name defined twice: the later definition replaces the earlier one
            self.tags.add('function-defined-twice')
            name = self.funcs[0][0]
            prog.append({'k': 'func', 'fid': 0, 'name': name, 'args': ['p'], 'lastArgArray': False, 'async': False,
                         'b': [{'k': 'ret', 'e': wf_binary('+', string('second:'), var('p'))}]})
            prog.append({'k': 'expr', 'name': 'z', 'e': call(name, num(1), num(2))})
        for v in DATA_VARS:
            prog.append({'k': 'expr', 'name': None, 'e': call('systemLog', wf_binary('+', string(f'end:{v}:'), var(v)))})
        if rng.random() < 0.4:
            prog.append({'k': 'ret', 'e': var(rng.choice(DATA_VARS))})
        return progen.assign_fids(prog)

    def host(self):
        """host configuration: pre-populated globals, some shadowing library names, script function names or variables"""
        rng = self.rng
        g = {}
        r = rng.random()
        if r < 0.35:
            return g
        for _ in range(rng.randint(1, 3)):
            kind = rng.random()
            if kind < 0.45:
                name = rng.choice(MODEL_LIB)
                g[name] = rng.choice(HOST_SHADOW_VALUES)
                self.tags.add('host-shadows-library')
            elif kind < 0.75:
                g[rng.choice(DATA_VARS + ['gs'])] = rng.choice([1, 'h', None, [7, 8], True])
                self.tags.add('host-variable')
            elif kind < 0.9:
                g[rng.choice(FN_NAMES)] = rng.choice([7, {'$lib': 'arrayLength'}, None])
                self.tags.add('host-binds-function-name')
            else:
                g[rng.choice(['arraySort', 'mathMax', 'max', 'jsonStringify'])] = rng.choice([1, 'v', None])
                self.tags.add('host-shadows-unmodelled-library')
        return g


INC_URLS = ['i0.bare', 'i1.bare', 'i2.bare']
# names an included script reads and assigns at ITS top level: the parameter / local names of the functions that may include it
INC_NAMES = DATA_VARS + ['p', 'q', 'r', 'cb', 'pf']


class IncludeGen(CallGen):
    """CallGen + `include` statements in EVERY scope: 1-3 included scripts (generated by the same generator: own functions, top-level
    assignments / reads of the names the including functions use as parameters and locals, systemGlobalSet/Get, calls, an early
    `return`, a missing file) included from the top level, from function bodies (also under an `if`, in call-backs, through partials),
    from the top level of another included script and from the functions of another included script; a script includes only
    lower-ranked files, so there is no include cycle"""

    def __init__(self, rng, allow_sort=False):
        super().__init__(rng, allow_sort)
        self.files = {}            # url -> structured program
        self.avail = []            # urls an include statement generated now may name
        self.in_file = False

    def include_stmts(self, in_func, params):
        rng = self.rng
        if rng.random() < 0.04:
            urls = ['missing.bare']
            self.tags.add('include-missing')
        else:
            urls = [rng.choice(self.avail)]
            if rng.random() < 0.15:
                urls.append(rng.choice(self.avail))
                self.tags.add('include-two-urls')
        self.tags.add('include:' + ('function-of-included-script' if in_func and self.in_file else 'function' if in_func else
                                    'top-of-included-script' if self.in_file else 'top-level'))
        inc = {'k': 'include', 'includes': [{'url': u} for u in urls]}
        out = []
        if in_func and rng.random() < 0.4:
            # a local named like something the included script uses, bound just before the include
            self.tags.add('include-after-local-assignment')
            out.append({'k': 'expr', 'name': rng.choice(INC_NAMES), 'e': self.atom([])})
        if rng.random() < 0.2:
            self.tags.add('include-under-if')
            inc = {'k': 'if', 'c': rng.choice([var('true'), num(1), self.atom([])]), 't': [inc], 'else': None}
        out.append(inc)
        for v in rng.sample(INC_NAMES + list(params), rng.randint(1, 2)):        # what the including scope sees afterwards
            out.append({'k': 'expr', 'name': None, 'e': call('systemLog', wf_binary('+', string(f'ai:{v}:'), var(v)))})
        return out

    def scope_stmts(self, scope, rank, in_func, params=(), rest=False):
        out = super().scope_stmts(scope, rank, in_func, params, rest)
        if self.avail and self.rng.random() < (0.5 if in_func else 0.4):
            pos = self.rng.randint(0, len(out))
            out[pos:pos] = self.include_stmts(in_func, params)
        return out

    def make_file(self, url):
        rng = self.rng
        saved, self.funcs, self.in_file = self.funcs, [], True     # an included script calls the functions it defines itself
        prog = [self.funcdef(rank) for rank in range(rng.choice([0, 1, 1, 2]))]
        for _ in range(rng.randint(1, 2)):
            v = rng.choice(INC_NAMES)
            prog.append({'k': 'expr', 'name': None, 'e': call('systemLog', wf_binary('+', string(f'{url}:{v}:'), var(v)))})
            if rng.random() < 0.7:
                prog.append({'k': 'expr', 'name': v, 'e': self.atom(INC_NAMES)})
        prog += self.scope_stmts(INC_NAMES, len(self.funcs), False, params=('p', 'q', 'cb'))
        if rng.random() < 0.15:
            self.tags.add('include-return')                          # `return` ends only the included script
            prog.insert(rng.randint(max(0, len(prog) - 2), len(prog)), {'k': 'ret', 'e': self.atom(INC_NAMES) if rng.random() < 0.7 else None})
        self.files[url] = progen.assign_fids(prog)
        self.avail.append(url)
        self.funcs, self.in_file = saved, False

    def program(self):
        for url in INC_URLS[:self.rng.randint(1, 3)]:
            self.make_file(url)
        self.tags.add(f'files{len(self.files)}')
        prog = super().program()
        if not any(t in self.tags for t in ('include:function', 'include:top-level')):
            tops = [i for i, s in enumerate(prog) if s['k'] != 'func']
            pos = self.rng.choice(tops) if tops else len(prog)
            prog[pos:pos] = self.include_stmts(False, ())
        return prog

    def host(self):
        g = super().host()
        if self.rng.random() < 0.3:
            g[self.rng.choice(['p', 'q', 'cb'])] = self.rng.choice([1, 'hp', None, [4]])
            self.tags.add('host-binds-parameter-name')
        return g


def lit(v):
    return num(v) if isinstance(v, (int, float)) and not isinstance(v, bool) else string(v)


def log_stmt(e):
    return {'k': 'expr', 'name': None, 'e': call('systemLog', e)}


def probe_stmts(name):
    """the statements whose output is probe_lines(value of `name`)"""
    return [log_stmt(call('systemType', var(name))), log_stmt(var(name))]


WRAP_NAMES = INC_NAMES + FN_NAMES + ['arrayLength', 'arrayNew', 'arrayGet']
WRAP_MAX_STATEMENTS = 2 * MAX_STATEMENTS


def random_wrapper(rng):
    n = rng.randint(0, 3)
    return {'params': rng.sample(WRAP_NAMES, n), 'rest': n > 0 and rng.random() < 0.35,
            'args': [rng.choice([11, 's2', 0, '', 55]) for _ in range(rng.randint(0, 4))],
            'assign': [[rng.choice(WRAP_NAMES), rng.choice([21, 'loc', 0])] for _ in range(rng.randint(0, 2))],
            'guard': rng.random() < 0.2}


def oracle_include_transparent(fprogs, url, host_spec, wrapper):
    """metamorphic, implementation only: `include U` issued inside a script function - whatever the function's parameters, arguments
    and locals are called - has the effect of `include U` issued at top level: same log, same error, same final globals; and the
    function's locals afterwards are exactly what the call bound / the function assigned (closed form)"""
    names = static_names([], files=fprogs)
    for fp in fprogs.values():
        static_names(fp, names, True, fprogs)
    fixed = {'systemLog', 'systemType', 'wrapIt'}
    if fixed & (names['funcs'] | names['top'] | names['gset'] | set(host_spec)) or '*' in names['gset']:
        return []                                    # the probes themselves would be redefined
    inc = {'k': 'include', 'includes': [{'url': url}]}
    end = []
    for v in INC_NAMES:
        end += [log_stmt(string('e:' + v))] + probe_stmts(v)
    bound = expected_binding(wrapper['params'], wrapper['rest'], [float(a) if isinstance(a, int) else a for a in wrapper['args']])
    body = []
    for name, value_ in wrapper['assign']:
        body.append({'k': 'expr', 'name': name, 'e': lit(value_)})
        bound[name] = float(value_) if isinstance(value_, int) else value_
    body.append({'k': 'if', 'c': var('true'), 't': [inc], 'else': None} if wrapper['guard'] else inc)
    wlog = []
    for name, value_ in bound.items():
        body += [log_stmt(string('w:' + name))] + probe_stmts(name)
        wlog += ['w:' + name] + probe_lines(value_)
    prog_a = [inc] + end
    prog_b = [fdef('wrapIt', wrapper['params'], body, wrapper['rest']),
              {'k': 'expr', 'name': None, 'e': call('wrapIt', *[lit(a) for a in wrapper['args']])}] + end
    outs = []
    for prog in (prog_a, prog_b):
        out = run_impl(parse('\n'.join(progen.render(prog))), host_spec, max_statements=WRAP_MAX_STATEMENTS, files=fprogs)
        if budget_exceeded(out):
            return []
        out = progen.strip_hidden(out)
        out['globals'] = [kv for kv in out['globals'] if kv[0] != 'wrapIt']
        outs.append(out)
    a, b = outs
    want = dict(a)
    if 'error' not in a:
        k = len(end)
        want['log'] = a['log'][:len(a['log']) - k] + wlog + a['log'][len(a['log']) - k:]
        want['result'] = None
    if b != want:
        return [('include-position-independent', want, b)]
    return []


# the exhaustive include-scope matrix --------------------------------------------------------------------------------------------

SCOPE_POSITIONS = ['top', 'function', 'if-in-function', 'nested-call', 'variable', 'partial', 'indexof', 'nested-include', 'mid-function']
SCOPE_BINDINGS = ['param', 'rest', 'local', 'param+local', 'none']
SCOPE_GSTATES = ['script', 'host', 'unbound']
SCOPE_NAMES = ['x', 'arrayLength']


def scope_cells():
    for name in SCOPE_NAMES:
        for gstate in SCOPE_GSTATES:
            yield ['top', 'none', gstate, name]
            for position in SCOPE_POSITIONS[1:]:
                for binding in SCOPE_BINDINGS:
                    yield [position, binding, gstate, name]


def scope_cell_case(cell):
    """-> (structured program, files, host globals, expected log, expected global bindings [wire form]).  The included script
    `inc.bare` reads NAME, assigns NAME, defines incFn() returning NAME and assigns incFresh - all at ITS top level; the include is
    issued from `position` while the including function binds NAME as `binding` and the global NAME is in state `gstate`"""
    position, binding, gstate, name = cell
    lib = fw.impl()['library'].SCRIPT_FUNCTIONS
    inc = {'k': 'include', 'includes': [{'url': 'inc.bare'}]}
    files = {'inc.bare': probe_stmts(name) + [asg(name, string('inc-value')), fdef('incFn', [], [{'k': 'ret', 'e': var(name)}]),
                                              asg('incFresh', string('fresh-value'))]}
    host = {name: 'H'} if gstate == 'host' else {}
    g_before = {'script': 'G', 'host': 'H'}.get(gstate, lib.get(name))
    prog, want, want_globals = [], [], {name: 'inc-value', 'incFresh': 'fresh-value', 'incFn': {'f': 'script'}}
    if position == 'top':
        if gstate == 'script':
            prog.append(asg(name, string('G')))
        prog.append(inc)
        want += probe_lines(g_before)
    else:
        params = [name] if binding in ('param', 'rest', 'param+local') else []
        local = {'param': 'A', 'rest': ['A'], 'local': 'L', 'param+local': 'L'}.get(binding)
        body = [asg(name, string('L'))] if binding in ('local', 'param+local') else []
        body += probe_stmts(name)
        want += probe_lines(g_before if binding == 'none' else local)              # no local binding: the read falls through to the global
        if position == 'if-in-function':
            body.append({'k': 'if', 'c': var('true'), 't': [inc], 'else': None})
        elif position == 'nested-call':
            prog.append(fdef('inner', [], [inc]))
            body.append(asg(None, call('inner')))
        elif position == 'nested-include':
            files['mid.bare'] = [inc, asg('midDone', num(1))]
            body.append({'k': 'include', 'includes': [{'url': 'mid.bare'}]})
            want_globals['midDone'] = {'n': [1, 1]}
        elif position == 'mid-function':
            files['mid.bare'] = [fdef('midFn', [name], [inc] + probe_stmts(name) + [{'k': 'ret', 'e': var(name)}]),
                                 asg('midRes', call('midFn', string('M')))]
            body.append({'k': 'include', 'includes': [{'url': 'mid.bare'}]})
            want_globals['midRes'] = 'M'
        else:
            body.append(inc)
        want += probe_lines(g_before)                                              # the included script's top-level read: the GLOBAL
        if position == 'mid-function':
            want += probe_lines('M')
        body += probe_stmts(name) + [{'k': 'ret', 'e': var(name)}]
        after = 'inc-value' if binding == 'none' else local                        # the function's own binding is untouched
        want += probe_lines(after)
        prog.append(fdef('outer', params, body, binding == 'rest'))
        if gstate == 'script':
            prog.append(asg(name, string('G')))
        if position == 'variable':
            prog += [asg('fv', var('outer')), asg('res', call('fv', string('A')))]
        elif position == 'partial':
            prog += [asg('pv', call('systemPartial', var('outer'), string('A'))), asg('res', call('pv'))]
        elif position == 'indexof':
            prog.append(asg('res', call('arrayIndexOf', call('arrayNew', string('A')), var('outer'))))
            after = 0.0                                                            # every value outer returns here is truthy
        else:
            prog.append(asg('res', call('outer', string('A'))))
        prog += probe_stmts('res')
        want += probe_lines(after)
        want_globals['res'] = progen.value_to_wire(after)
    prog += probe_stmts(name) + [log_stmt(call('incFn')), log_stmt(var('incFresh'))]
    want += probe_lines('inc-value') + ['inc-value', 'fresh-value']                # the top-level writes reached the globals object
    return progen.assign_fids(prog), files, host, want, want_globals


def check_scope_outcome(cell, impl, want, want_globals):
    final = dict((k, v) for k, v in impl.get('globals', []))
    got_globals = {k: final.get(k, '<absent>') for k in want_globals}
    if 'error' in impl or 'hostexc' in impl or impl.get('log') != want or got_globals != want_globals:
        return [('include-runs-at-top-level', {'log': want, 'globals': want_globals},
                 {'log': impl.get('log'), 'globals': got_globals, **{k: impl[k] for k in ('error', 'hostexc') if k in impl}})]
    return []


def check_scope_cell(cell):
    prog, files, host, want, want_globals = scope_cell_case(cell)
    impl = run_impl(parse('\n'.join(progen.render(prog))), host, files=files)
    return check_scope_outcome(cell, impl, want, want_globals)


# ---------------------------------------------------------------------------------------------------------------------
# Source spelling.  The property is about SCRIPTS: what a function definition, a call, an assignment mean must not depend on how
# the source text spells them.  progen.render writes ONE spelling (`function f(a, b):`, four blanks of indentation, one blank around
# `=`); the language grants white space (any `\s` character) at every token boundary of a statement line - before and after each
# comma and parenthesis of a parameter list, before `...`, before `:`, around `=`, after `return` / `include` / `if`, as
# indentation and at the end of the line -, comment and blank lines anywhere, `\r\n` line ends and a backslash line continuation
# at any of those boundaries (the continued parts are joined with one blank).  A Speller renders a structured program with every
# such freedom chosen at random; the expectation never looks at the text (reference interpreter on the structured program,
# closed-form binding, the Lean machine on the script of the canonical spelling).
# ---------------------------------------------------------------------------------------------------------------------

SPELL_PROFILES = {
    # name: (optional blanks, mandatory blanks, indentation units)
    'blanks': (['', ' ', ' ', '  '], [' ', '  '], ['    ', '  ', ' ', '']),
    'tabs': (['', '\t', ' \t', '\t ', ' '], ['\t', ' \t', '\t\t'], ['\t', '\t\t', ' \t', '']),
    'exotic': (['', ' ', '\u00a0', '\u2003', '\x0c', '\u3000', ' \x0b'], ['\u00a0', '\u2003', '\x0c', ' '], ['\u00a0\u00a0', '\x0c', '  ', '']),
    'continued': (['', ' ', '\\\n', ' \\\n    ', '\\ \t\n\t', ' \\\n\n  '], ['\\\n', ' \\\n        ', ' '], ['    ', '  ', '']),
}
SPELL_COMMENTS = ['', '   ', '# note', '    # function ff(p , q...):', '\t#', '#x = 1']


class Speller:
    """renders the statement kinds the C04 generators use (expr, ret, if/elif/else, func, include) with random white space, comment
    lines, line continuations and line ends; all choices from one random.Random"""

    def __init__(self, rng, profile=None):
        self.rng = rng
        self.profile = profile or rng.choice(['blanks', 'blanks', 'tabs', 'tabs', 'exotic', 'continued', 'continued'])
        self.optional, self.mandatory, units = SPELL_PROFILES[self.profile]
        self.unit = rng.choice(units)
        self.eol = '\r\n' if rng.random() < 0.2 else '\n'
        self.comments = rng.random() < 0.4
        self.tags = {'spelling:' + self.profile} | ({'spelling:crlf'} if self.eol != '\n' else set()) | \
                    ({'spelling:comment-lines'} if self.comments else set())

    def opt(self):
        """a token boundary where white space is optional"""
        return self.rng.choice(self.optional) if self.rng.random() < 0.6 else ''

    def must(self):
        """a token boundary that needs white space (after a keyword)"""
        return self.rng.choice(self.mandatory)

    def end(self):
        """the end of a line: blanks, never a continuation"""
        b = self.opt()
        return '' if '\n' in b else b

    def pad(self, depth):
        return self.unit * depth if self.rng.random() < 0.8 else self.end()

    # -- expressions: the argument list of a call is spelled freely, operators keep a blank on both sides (C10 owns the expression text)
    def expr(self, e):
        (k, v), = e.items()
        if k == 'group':
            return '(' + self.opt() + self.expr(v) + self.opt() + ')'
        if k == 'unary':
            return v['op'] + self.expr(v['expr'])
        if k == 'function':
            sep = lambda: self.opt() + ',' + self.opt()  # noqa: E731
            out = v['name'] + '(' + self.opt()
            for i, a in enumerate(v['args']):
                out += (sep() if i else '') + self.expr(a)
            return out + (self.opt() if v['args'] else '') + ')'
        if k == 'binary':
            return self.expr(v['left']) + self.must() + v['op'] + self.must() + self.expr(v['right'])
        return progen.expr_text(e)

    def header(self, s, depth=0):
        """`[async] function NAME ( A , B ... ) :` - every boundary of the parameter list is a slot"""
        out = self.pad(depth) + ('async' + self.must() if s.get('async') else '') + 'function' + self.must() + s['name'] + self.opt() + '('
        out += self.opt()
        for i, a in enumerate(s['args']):
            out += (self.opt() + ',' + self.opt() if i else '') + a
        if s.get('lastArgArray'):
            out += self.opt() + '...'
        return out + self.opt() + ')' + self.opt() + ':' + self.end()

    def lines(self, block, depth=0, out=None):
        out = [] if out is None else out
        for s in block:
            if self.comments and self.rng.random() < 0.3:
                out.append(self.rng.choice(SPELL_COMMENTS))
            k = s['k']
            if k == 'expr':
                out.append(self.pad(depth) + (s['name'] + self.opt() + '=' + self.opt() if s.get('name') else '') + self.expr(s['e']) + self.end())
            elif k == 'ret':
                out.append(self.pad(depth) + 'return' + (self.must() + self.expr(s['e']) if s.get('e') else '') + self.end())
            elif k == 'if':
                out.append(self.pad(depth) + 'if' + self.must() + self.expr(s['c']) + self.opt() + ':' + self.end())
                self.lines(s['t'], depth + 1, out)
                els = s.get('else')
                while els is not None:
                    if els['k'] == 'else':
                        out.append(self.pad(depth) + 'else' + self.opt() + ':' + self.end())
                        self.lines(els['b'], depth + 1, out)
                        els = None
                    else:
                        out.append(self.pad(depth) + 'elif' + self.must() + self.expr(els['c']) + self.opt() + ':' + self.end())
                        self.lines(els['t'], depth + 1, out)
                        els = els.get('else')
                out.append(self.pad(depth) + 'endif' + self.end())
            elif k == 'func':
                out.append(self.header(s, depth))
                self.lines(s['b'], depth + 1, out)
                out.append(self.pad(depth) + 'endfunction' + self.end())
            elif k == 'include':
                for inc in s['includes']:
                    out.append(self.pad(depth) + 'include' + self.must() + "'" + inc['url'].replace("'", "\\'") + "'" + self.end())
            else:
                raise ValueError('outside the spelled subset: ' + k)
        return out

    def text(self, prog):
        return self.eol.join(self.lines(prog)) + self.eol


def spell_case(rng, prog, files=None):
    """-> (source text of prog, {url: source text} | None, tags): one random spelling of the program and of every file it includes"""
    sp = Speller(rng)
    text = sp.text(prog)
    ftexts = None if files is None else {url: Speller(rng, sp.profile).text(fp) for url, fp in files.items()}
    return text, ftexts, set(sp.tags)


def with_async(rng, prog):
    """copy of prog with some function definitions declared `async` (the flag has no influence on scoping or binding)"""
    prog = copy.deepcopy(prog)
    for s in prog:
        if s['k'] == 'func' and rng.random() < 0.25:
            s['async'] = True
    return prog


# the exhaustive / directed header matrix: the definition line alone, the function called from the host -------------------------

HEADER_POOL = ['', ' ', '  ', '\t', ' \t ', '\u00a0', '\u2003', '\x0c', '\\\n', ' \\\n    ', '\\ \n\t']


def header_slots(nparams, rest):
    """names of the white-space slots of `function ff(p, q, r...):` (in source order)"""
    slots = ['indent', 'after-function', 'before-(', 'after-(']
    for i in range(1, nparams):
        slots += [f'before-comma{i}', f'after-comma{i}']
    return slots + (['before-...'] if rest else []) + ['before-)', 'before-:', 'end']


def header_text(params, rest, blanks, is_async=False):
    """blanks: {slot: white space}; 'after-function' (and 'after-async') need at least one character"""
    b = lambda slot: blanks.get(slot, '')  # noqa: E731
    out = b('indent') + ('async' + (blanks.get('after-async') or ' ') if is_async else '') + 'function' + (b('after-function') or ' ') + 'ff' + b('before-(') + '('
    out += b('after-(')
    for i, p in enumerate(params):
        out += (b(f'before-comma{i}') + ',' + b(f'after-comma{i}') if i else '') + p
    if rest:
        out += b('before-...') + '...'
    return out + b('before-)') + ')' + b('before-:') + ':' + b('end')


def oracle_header(header, params, rest):
    """the definition line `header` (any spelling of: function ff(params[...]):) defines a function that binds its parameters as
    documented: defined by a script whose globals already bind every parameter name (so a parameter that is not bound as a local
    shows the global), then called from the host with 0 .. n+2 arguments; closed-form expectation; the globals are not written"""
    mods = fw.impl()
    lib = mods['library'].SCRIPT_FUNCTIONS
    uniq = list(dict.fromkeys(params))
    text = header + '\n    return arrayNew(' + ', '.join(uniq) + ')\nendfunction\n'
    g = {p: 'G:' + p for p in uniq}
    options = {'globals': g, 'maxStatements': 1000}
    try:
        mods['runtime'].execute_script(mods['parser'].parse_script(text), options)
    except (mods['parser'].BareScriptParserError, mods['runtime'].BareScriptRuntimeError) as exc:
        return [('definition-accepted', 'a function definition', str(exc).split('\n', 1)[0])]
    fn = g.get('ff')
    if not callable(fn) or fn is lib.get('ff'):
        return [('definition-accepted', 'globals["ff"] is the script function', progen.value_to_wire(fn, lib))]
    bad = []
    for nargs in range(min(len(params) + 2, len(ARG_VALUES)) + 1):
        args = copy.deepcopy(ARG_VALUES[:nargs])
        try:
            got = fn(list(args), options)
        except Exception as exc:  # pylint: disable=broad-except
            got = type(exc).__name__ + ': ' + str(exc)[:100]
        bound = expected_binding(params, rest, args)
        want = [bound[p] for p in uniq]
        if got != want:
            bad.append(('parameter-binding-spelled', {'nargs': nargs, 'value': want}, {'nargs': nargs, 'value': progen.value_to_wire(got, lib)}))
            break
    changed = sorted(k for k in g if k != 'ff' and not (k in lib and g[k] is lib[k]) and g.get(k) != ('G:' + k if k in uniq else None))
    if changed:
        bad.append(('call-leaves-globals', {p: 'G:' + p for p in uniq}, {k: progen.value_to_wire(g[k], lib) for k in changed}))
    return bad


def header_cases(rng, n_random):
    """-> (params, rest, blanks, is_async, tag): (A) every assignment of {none, one blank} to the slots inside the header, 0-3
    parameters, with and without `...`; (B) each slot alone x every white-space string of the pool (tab, several, Unicode spaces, form
    feed, line continuations) x the others empty / one blank; (C) random assignments from the whole pool, duplicate names, async"""
    for nparams in range(4):
        params = ['p', 'q', 'r'][:nparams]
        for rest in (False, True):
            slots = header_slots(nparams, rest)
            inner = [sl for sl in slots if sl not in ('indent', 'end', 'after-function')]
            for combo in itertools.product(['', ' '], repeat=len(inner)):
                yield params, rest, dict(zip(inner, combo)), False, 'exhaustive-blank'
            for sl in slots:
                for ws in HEADER_POOL:
                    if '\n' in ws and sl in ('indent', 'end'):
                        continue
                    for base in ('', ' '):
                        blanks = {x: base for x in inner}
                        blanks[sl] = ws
                        yield params, rest, blanks, False, 'one-slot'
    for _ in range(n_random):
        nparams = rng.randint(0, 3)
        params = rng.sample(PARAM_POOL, nparams)
        if nparams >= 2 and rng.random() < 0.1:
            params[-1] = params[0]
        rest = rng.random() < 0.4
        blanks = {}
        for sl in header_slots(nparams, rest) + ['after-async']:
            ws = rng.choice(HEADER_POOL) if rng.random() < 0.6 else ''
            blanks[sl] = '' if '\n' in ws and sl in ('indent', 'end') else ws
        yield params, rest, blanks, rng.random() < 0.2, 'random'


# ---------------------------------------------------------------------------------------------------------------------
# Function VALUES with a history (R8C04-m2 family).  "passing functions as values and through systemPartial/arraySort callbacks":
# a partial application is a value like any other - it can be called, called again, be the base of several further partials,
# be an arraySort / arrayIndexOf call-back, in any order.  Whatever happened to it before, calling it binds the parameters of the
# script function positionally to (its bound arguments, in derivation order) + (the arguments of THIS call).  A history is a list
# of operations over holder variables; the expectation is the closed binding formula applied to symbolically tracked, immutable
# bound-argument tuples (never the library's own systemPartial).
# ---------------------------------------------------------------------------------------------------------------------

SCALE_SIZES = [0, 1, 2, 9, 10, 11, 16, 17, 64, 65, 100, 101, 128, 129, 256, 1000]
PH_MAX_STATEMENTS = 6000
PH_PATHS = ['direct', 'variable', 'parameter', 'indexof', 'sort']


def ph_lit(v):
    return var('null') if v is None else lit(v)


def ph_value(v):
    return float(v) if isinstance(v, int) and not isinstance(v, bool) else v


def ph_build(hist):
    """hist = {'params': [...], 'rest': bool, 'ops': [...]} with ops
         ['derive', holder, base | None (= the script function ff), [bound argument literals]]
         ['call', holder, path, [argument literals]]
       -> (structured program, expected log as a list of SEGMENTS; a segment is a list of alternative line lists - arraySort may offer
       its two elements in either order)"""
    params, rest = hist['params'], hist['rest']
    body = []
    for p in dict.fromkeys(params):
        body += probe_stmts(p)
    body += [log_stmt(string('-')), {'k': 'ret', 'e': num(0)}]
    prog = [fdef('ff', params, body, rest)]
    for k in range(4):
        names = ['a', 'b', 'c'][:k]
        prog.append(fdef(f'via{k}', ['cb'] + names, [{'k': 'ret', 'e': call('cb', *[var(n) for n in names])}]))
    bound = {}
    segments = []

    def seg(args):
        got = expected_binding(params, rest, [ph_value(a) for a in args])
        out = []
        for p in dict.fromkeys(params):
            out += probe_lines(got[p])
        return out + ['-']

    for op in hist['ops']:
        if op[0] == 'derive':
            _, holder, base, args = op
            prog.append(asg(holder, call('systemPartial', var('ff' if base is None else base), *[ph_lit(a) for a in args])))
            bound[holder] = (() if base is None else bound[base]) + tuple(args)
        else:
            _, holder, path, args = op
            pre = bound[holder]
            if path == 'direct':
                prog.append(asg('res', call(holder, *[ph_lit(a) for a in args])))
                segments.append([seg(pre + tuple(args))])
            elif path == 'variable':
                prog += [asg('al', var(holder)), asg('res', call('al', *[ph_lit(a) for a in args]))]
                segments.append([seg(pre + tuple(args))])
            elif path == 'parameter':
                prog.append(asg('res', call(f'via{len(args)}', var(holder), *[ph_lit(a) for a in args])))
                segments.append([seg(pre + tuple(args))])
            elif path == 'indexof':                  # ff returns 0 (falsy): every element is offered, one argument each
                prog.append(asg('res', call('arrayIndexOf', call('arrayNew', *[ph_lit(a) for a in args]), var(holder))))
                segments.append([[ln for a in args for ln in seg(pre + (a,))]])
            else:                                    # arraySort of two elements: one comparison, either order
                a, b = args
                prog.append(asg('res', call('arraySort', call('arrayNew', ph_lit(a), ph_lit(b)), var(holder))))
                segments.append([seg(pre + (a, b)), seg(pre + (b, a))])
    return progen.assign_fids(prog), segments


def ph_log_matches(log, segments):
    pos = 0
    for alts in segments:
        n = len(alts[0])
        if log[pos:pos + n] not in alts:
            return False
        pos += n
    return pos == len(log)


def check_partial_history(hist, impl=None):
    prog, segments = ph_build(hist)
    if impl is None:
        impl = run_text('\n'.join(progen.render(prog)), {}, max_statements=PH_MAX_STATEMENTS)
    if 'error' in impl or 'hostexc' in impl or not ph_log_matches(impl.get('log', []), segments):
        pos, first = 0, None
        for i, alts in enumerate(segments):                         # the first call that bound something else (for the report)
            n = len(alts[0])
            if impl.get('log', [])[pos:pos + n] not in alts:
                first = {'call': i, 'want': alts[0][:12], 'got': impl.get('log', [])[pos:pos + n][:12]}
                break
            pos += n
        return [('partial-binds-own-arguments', first and first['want'],
                 {k: impl[k] for k in ('error', 'hostexc') if k in impl} or first)]
    return []


def ph_args(rng, n, counter):
    out = []
    for _ in range(n):
        counter[0] += 1
        r = rng.random()
        out.append(None if r < 0.05 else f's{counter[0]}' if r < 0.15 else counter[0])
    return out


def ph_random(rng, allow_sort):
    """a random history: 2-5 holders derived from ff / from one another (also a holder re-derived from ITSELF under the same name),
    calls of any holder by any path interleaved with the derivations"""
    nparams = rng.randint(0, 3)
    params = ['p', 'q', 'r'][:nparams]
    if nparams >= 2 and rng.random() < 0.05:
        params[-1] = 'p'
    hist = {'params': params, 'rest': nparams > 0 and rng.random() < 0.5, 'ops': []}
    holders, counter, tags = [], [0], set()
    for _ in range(rng.randint(4, 12)):
        if not holders or rng.random() < 0.4:
            base = rng.choice(holders) if holders and rng.random() < 0.75 else None
            if base is not None and rng.random() < 0.2:
                holder = base                                         # pa = systemPartial(pa, ...): the old value lives on in its children
                tags.add('rederive-same-name')
            else:
                holder = rng.choice(['pa', 'pb', 'pc', 'pd', 'pe'])
            if base is not None:
                tags.add('partial-of-partial')
                if any(op[0] == 'derive' and op[2] == base for op in hist['ops']):
                    tags.add('siblings')
            hist['ops'].append(['derive', holder, base, ph_args(rng, rng.choice([1, 1, 1, 2, 2, 3, 5]), counter)])
            if holder not in holders:
                holders.append(holder)
        else:
            holder = rng.choice(holders)
            path = rng.choice(PH_PATHS if allow_sort else PH_PATHS[:-1])
            n = 2 if path == 'sort' else rng.randint(1, 3) if path == 'indexof' else rng.randint(0, 3)
            if any(op[0] == 'derive' and op[2] == holder for op in hist['ops']):
                tags.add('base-called-after-derivation')
            if any(op[0] == 'call' and op[1] == holder for op in hist['ops']):
                tags.add('called-again')
            tags.add('path:' + path)
            hist['ops'].append(['call', holder, path, ph_args(rng, n, counter)])
    return hist, tags


def ph_directed():
    """-> (tag, history): the aliasing families x SCALE_SIZES"""
    shapes = [([], False), (['p'], False), (['p'], True), (['p', 'q'], True), (['p', 'q', 'r'], False), (['p', 'q', 'r'], True)]
    seq = lambda start, n: list(range(start, start + n))  # noqa: E731
    for params, rest in shapes:
        # A. the base is called before and after every derivation, by every path; the children as well
        for path in PH_PATHS:
            args = [901, 902] if path == 'sort' else [901] if path == 'indexof' else [901, 902]
            call_ = lambda h: ['call', h, path, args]  # noqa: E731,B023
            yield 'base-reuse:' + path, {'params': params, 'rest': rest, 'ops': [
                ['derive', 'pa', None, [1]], call_('pa'), ['derive', 'pb', 'pa', [2]], call_('pa'), call_('pb'),
                ['derive', 'pc', 'pa', [3, 4, 5]], call_('pa'), call_('pb'), call_('pc'), ['derive', 'pd', 'pb', [6]], call_('pb'), call_('pa'),
                call_('pd'), ['derive', 'pa', 'pa', [7]], call_('pa'), call_('pb'), call_('pc')]}
    for params, rest in shapes[2:4]:
        for n in SCALE_SIZES:
            # B. n siblings derived from one base (one variable re-used for all but the first), the base called afterwards
            ops = [['derive', 'pa', None, [1]]]
            for i in range(n):
                ops.append(['derive', 'pb' if i == 0 else 'pc', 'pa', [100 + i]])
            ops += [['call', 'pa', 'direct', [901, 902]]] + ([['call', 'pb', 'direct', [903]]] if n >= 1 else []) \
                + ([['call', 'pc', 'parameter', [904]]] if n >= 2 else []) + [['call', 'pa', 'indexof', [905, 906]]]
            yield f'siblings:{n}', {'params': params, 'rest': rest, 'ops': ops}
            # C. n bound arguments in one derivation, then a child with n more
            if n >= 1:
                yield f'bound-arguments:{n}', {'params': params, 'rest': rest, 'ops': [
                    ['derive', 'pa', None, seq(1, n)], ['call', 'pa', 'direct', [901]], ['derive', 'pb', 'pa', seq(2001, n)],
                    ['call', 'pa', 'direct', [902]], ['call', 'pb', 'variable', [903]], ['call', 'pa', 'parameter', [904, 905]]]}
            # D. a chain of depth n through ONE re-assigned variable, an alias of the first and of the middle link kept and called last
            if n >= 1:
                ops = [['derive', 'pa', None, [1]], ['derive', 'pb', 'pa', [2]]]
                for i in range(n):
                    ops.append(['derive', 'pb', 'pb', [10 + i]])
                    if i == n // 2:
                        ops.append(['derive', 'pc', 'pb', [5000]])
                ops += [['call', 'pb', 'direct', [901]], ['call', 'pc', 'direct', [902]], ['call', 'pa', 'direct', [903]], ['call', 'pb', 'direct', [904]]]
                yield f'chain:{n}', {'params': params, 'rest': rest, 'ops': ops}


# ---------------------------------------------------------------------------------------------------------------------
# The callee of a call is what its name is bound to WHEN THE CALL IS MADE (R7C04-m1 family).  "a script-defined function replaces a
# library function of the same name", "a name bound in locals or globals always wins over a built-in": the arguments of a call are
# ordinary expressions - they run script functions that call systemGlobalSet, include scripts (which define functions and assign
# globals at THEIR top level) or host functions that write options['globals'].  After the arguments have been evaluated the name
# may be bound to something else than before; the call goes to that.  Exhaustive matrix, closed-form expectation.
# ---------------------------------------------------------------------------------------------------------------------

RB_BEFORE = ['script', 'library', 'unbound', 'host-function', 'host-value', 'host-null']
RB_ACTIONS = ['none', 'gset-script', 'gset-null', 'gset-value', 'gset-lib', 'gset-partial', 'include-function', 'include-assign']
RB_SITES = ['top', 'function', 'local-wins', 'second-arg', 'nested-arg', 'return', 'twice', 'callback']


def rebind_cells():
    for before in RB_BEFORE:
        for action in RB_ACTIONS:
            for site in RB_SITES:
                yield [before, action, site]


def rb_marker(tag):
    """function TAG-named(v, w): logs 'tag:v:w', returns tag"""
    return [log_stmt(wf_binary('+', wf_binary('+', wf_binary('+', string(tag + ':'), var('v')), string(':')), var('w'))),
            {'k': 'ret', 'e': string(tag)}]


def rb_outcome(binding, name, args):
    """what a call of `name` bound to `binding` does with the argument values -> (log lines, result) or (None, error text)"""
    vs = fw.impl()['value'].value_string
    a = list(args) + [None, None]
    if isinstance(binding, tuple):                                   # ('script', tag)
        return [f'{binding[1]}:{vs(a[0])}:{vs(a[1])}'], binding[1]
    if binding == 'partial':                                         # systemPartial(nw, 'b')
        return [f'new:b:{vs(a[0])}'], 'new'
    if binding == 'arrayNew':
        return [], list(args)
    if binding == 'value':
        return [], None                                              # a bound non-function: the call yields null
    return None, f'Undefined function "{name}"'                      # unbound / bound to null


def rebind_case(cell):
    """-> (structured program, files, host globals, expected outcome {'log', 'error'?, 'res'?, 'result'?})"""
    before, action, site = cell
    name = {'script': 'fa', 'library': 'arrayNew'}.get(before, 'zz')
    host = {'host-function': {'zz': {'$lib': 'arrayNew'}}, 'host-value': {'zz': 7}, 'host-null': {'zz': None}}.get(before, {})
    b_before = {'script': ('script', 'old'), 'library': 'arrayNew', 'host-function': 'arrayNew', 'host-value': 'value'}.get(before, 'null')
    files = {'def.bare': [fdef(name, ['v', 'w'], rb_marker('inc'))], 'asg.bare': [asg(name, var('nw'))]}
    prog = [fdef('nw', ['v', 'w'], rb_marker('new')), fdef('n2', ['v', 'w'], rb_marker('two')), fdef('lc', ['v', 'w'], rb_marker('loc'))]
    if before == 'script':
        prog.append(fdef(name, ['v', 'w'], rb_marker('old')))
    act = {'none': [], 'gset-script': [asg(None, call('systemGlobalSet', string(name), var('nw')))],
           'gset-null': [asg(None, call('systemGlobalSet', string(name), var('null')))],
           'gset-value': [asg(None, call('systemGlobalSet', string(name), num(5)))],
           'gset-lib': [asg(None, call('systemGlobalSet', string(name), var('arrayLength' if name == 'arrayNew' else 'arrayNew')))],
           'gset-partial': [asg(None, call('systemGlobalSet', string(name), call('systemPartial', var('nw'), string('b'))))],
           'include-function': [{'k': 'include', 'includes': [{'url': 'def.bare'}]}],
           'include-assign': [{'k': 'include', 'includes': [{'url': 'asg.bare'}]}]}[action]
    b_global = rb_after_global(action, b_before)          # what the global `name` is bound to once swap() has run
    prog.append(fdef('swap', [], [log_stmt(string('swap'))] + act + [{'k': 'ret', 'e': string('x')}]))
    prog.append(fdef('swap2', [], [log_stmt(string('swap2')), asg(None, call('systemGlobalSet', string(name), var('n2'))), {'k': 'ret', 'e': string('y')}]))
    want_log = ['swap']
    args_e, args_v = [call('swap')], ['x']
    if site == 'second-arg':
        args_e, args_v = [string('a'), call('swap')], ['a', 'x']
    elif site == 'nested-arg':
        args_e, args_v = [wf_binary('+', string('n'), call('swap'))], ['nx']
    elif site == 'twice':
        args_e, args_v = [call('swap'), call('swap2')], ['x', 'y']
        want_log.append('swap2')
        b_global = ('script', 'two')                        # the later rebinding wins
    the_call = call(name, *args_e)
    # inside main(name) the parameter is the binding, whatever the arguments do to the global
    log2, res = rb_outcome(('script', 'loc') if site == 'local-wins' else b_global, name, args_v)
    want = {}
    if log2 is None:
        want = {'log': want_log, 'error': res}
    else:
        want_log += log2
        if site == 'return':
            want = {'log': want_log, 'result': progen.value_to_wire(res)}
        else:
            if site == 'callback':
                want_log += probe_lines(res)
                res = 0.0
            want_log += probe_lines(res)
            # afterwards the name stays bound to what the arguments made it (control: a second, plain call)
            log3, res3 = rb_outcome(b_global, name, ['k'])
            if log3 is None:
                want = {'log': want_log, 'error': res3, 'res': progen.value_to_wire(res)}
            else:
                want = {'log': want_log + log3 + probe_lines(res3), 'res': progen.value_to_wire(res)}
    if site == 'return':
        prog.append({'k': 'ret', 'e': the_call})
    else:
        if site in ('top', 'second-arg', 'nested-arg', 'twice'):
            prog.append(asg('res', the_call))
        elif site == 'function':
            prog += [fdef('main', [], [asg('r', the_call), {'k': 'ret', 'e': var('r')}]), asg('res', call('main'))]
        elif site == 'local-wins':
            prog += [fdef('main', [name], [asg('r', the_call), {'k': 'ret', 'e': var('r')}]), asg('res', call('main', var('lc')))]
        else:
            prog += [fdef('pred', ['e'], [asg('r', the_call)] + probe_stmts('r') + [{'k': 'ret', 'e': var('true')}]),
                     asg('res', call('arrayIndexOf', call('arrayNew', num(1)), var('pred')))]
        prog += probe_stmts('res') + [asg('res2', call(name, string('k')))] + probe_stmts('res2')
    return progen.assign_fids(prog), files, host, want


def rb_after_global(action, b_before):
    return {'none': b_before, 'gset-script': ('script', 'new'), 'gset-null': 'null', 'gset-value': 'value', 'gset-lib': 'arrayNew',
            'gset-partial': 'partial', 'include-function': ('script', 'inc'), 'include-assign': ('script', 'new')}[action]


def check_rebind_outcome(impl, want):
    final = dict((k, v) for k, v in impl.get('globals', []))
    got = {'log': impl.get('log')}
    for k in ('error', 'hostexc'):
        if k in impl:
            got[k] = impl[k]
    if 'res' in want:
        got['res'] = final.get('res', '<absent>')
    if 'result' in want:
        got['result'] = impl.get('result', '<absent>')
    return [] if got == want else [('callee-bound-at-call-time', want, got)]


def check_rebind_cell(cell):
    prog, files, host, want = rebind_case(cell)
    return check_rebind_outcome(run_impl(parse('\n'.join(progen.render(prog))), host, files=files), want)


def oracle_rebind_host(name, mode, before, after):
    """implementation only (the Lean host has no host function that writes the globals object): a HOST function `register` used as the
    first argument of `name(register(), 2)` rebinds globals[name]; mode: the call is a script's top-level statement / stands in a script
    function / is an expression evaluated with the built-in expression functions enabled (without / with a locals dictionary)"""
    mods = fw.impl()
    runtime, library, parser = mods['runtime'], mods['library'], mods['parser']

    def marker(tag):
        return lambda args, unused_options: [tag, list(args)]

    def register(unused_args, options):
        g = options['globals']
        if after == 'function':
            g[name] = marker('B')
        elif after == 'deleted':
            g.pop(name, None)
        elif after == 'null':
            g[name] = None
        else:
            g[name] = 5
        return 1.0
    g = {'register': register}
    if before != 'unbound':
        g[name] = {'function': marker('A'), 'value': 5, 'null': None}[before]
    expression = mode.startswith('expression')
    if after == 'function':
        want = {'value': ['B', [1.0, 2.0]]}
    elif after == 'value':
        want = {'value': None}
    elif after == 'deleted' and expression and name in library.EXPRESSION_FUNCTIONS:
        # no longer bound in locals or globals when the call is made: the built-in is used
        if name in EXPR_SKIP_VALUE:
            return []
        try:
            want = {'value': library.EXPRESSION_FUNCTIONS[name]([1.0, 2.0], {'globals': {}})}
        except Exception as exc:  # pylint: disable=broad-except
            want = {'value': exc.return_value if isinstance(exc, mods['value'].ValueArgsError) else None}
    else:
        want = {'error': f'Undefined function "{name}"'}
    try:
        if expression:
            expr = parser.parse_expression(f'{name}(register(), 2)')
            got = {'value': runtime.evaluate_expression(expr, {'globals': g}, {'other': 1} if mode == 'expression-locals' else None, True)}
        else:
            text = f'res = {name}(register(), 2)\n' if mode == 'script-top' else \
                f'function main(other):\n    r = {name}(register(), 2)\n    return r\nendfunction\nres = main(1)\n'
            runtime.execute_script(parser.parse_script(text), {'globals': g, 'maxStatements': 100})
            got = {'value': g.get('res')}
    except runtime.BareScriptRuntimeError as exc:
        got = {'error': str(exc)}
    except Exception as exc:  # pylint: disable=broad-except
        got = {'hostexc': type(exc).__name__ + ': ' + str(exc)[:100]}
    if got != want:
        return [('callee-bound-at-call-time:host', want, progen.value_to_wire(got.get('value')) if 'value' in got and callable(got['value']) else got)]
    return []


def rebind_host_cases():
    mods = fw.impl()
    for name in sorted(mods['library'].EXPRESSION_FUNCTIONS):
        for mode in ('expression', 'expression-locals'):
            for before in ('unbound', 'function', 'value', 'null'):
                for after in ('function', 'deleted', 'null', 'value'):
                    yield name, mode, before, after
    for name in ('zz', 'arrayNew', 'systemPartial', 'max'):
        for mode in ('script-top', 'script-function'):
            for before in ('unbound', 'function', 'value', 'null'):
                for after in ('function', 'deleted', 'null', 'value'):
                    yield name, mode, before, after


class NestGen(IncludeGen):
    """IncludeGen + (1) arguments that are themselves CALLS of script functions (any function callable from the current scope; their bodies
    log, assign, call systemGlobalSet, include scripts - the included scripts define fa, fb, ... again), (2) script functions that REBIND
    function names: systemGlobalSet of a function name / a library name to another function value, a partial, arrayNew, null or a
    number; so a call's callee may be rebound while its own arguments are evaluated, between two calls of one call site, or inside a
    call-back"""

    def __init__(self, rng, allow_sort=False):
        super().__init__(rng, allow_sort)
        self.cur_rank = 0
        self.nest = 0

    def arg(self, scope, fn_rank):
        rank = min(self.cur_rank, len(self.funcs))
        if rank > 0 and self.nest < 2 and self.rng.random() < 0.3:
            self.tags.add('call-as-argument')
            ix = self.rng.randrange(rank)
            self.nest += 1
            e = call(self.funcs[ix][0], *[self.arg(scope, 0) for _ in range(self.rng.randint(0, 2))])
            self.nest -= 1
            return e
        return super().arg(scope, fn_rank)

    def scope_stmts(self, scope, rank, in_func, params=(), rest=False):
        self.cur_rank = rank
        out = super().scope_stmts(scope, rank, in_func, params, rest)
        if self.rng.random() < (0.45 if in_func else 0.15):
            self.tags.add('rebinds-function-name')
            target = self.rng.choice(FN_NAMES + [f[0] for f in self.funcs] + ['arrayNew'])
            r = self.rng.random()
            value_ = self.fn_value(rank) if r < 0.7 else var('null') if r < 0.8 else num(5) if r < 0.9 else var('arrayNew')
            out.insert(self.rng.randint(0, len(out)), asg(None, call('systemGlobalSet', string(target), value_)))
        return out



# ---------------------------------------------------------------------------------------------------------------------
# Streams
# ---------------------------------------------------------------------------------------------------------------------

def load_corpus():
    path = os.path.join(fw.VERIF, 'harness', 'corpus', 'C04.jsonl')
    out = []
    if os.path.exists(path):
        with open(path, encoding='utf-8') as fh:
            for ln in fh:
                ln = ln.strip()
                if ln and not ln.startswith('#'):
                    out.append(json.loads(ln))
    return out


def structured_of_text(text):
    """corpus programs are given as text in the function/assignment/return/if-free subset -> structured form for the reference"""
    model = parse(text)

    def conv(stmts):
        out = []
        for st in stmts:
            (k, v), = st.items()
            if k == 'expr':
                out.append({'k': 'expr', 'name': v.get('name'), 'e': progen.canon_expr(v['expr'])})
            elif k == 'return':
                out.append({'k': 'ret', 'e': progen.canon_expr(v['expr']) if 'expr' in v else None})
            elif k == 'function':
                out.append({'k': 'func', 'fid': 0, 'name': v['name'], 'args': list(v.get('args', [])),
                            'lastArgArray': bool(v.get('lastArgArray')), 'async': bool(v.get('async')), 'b': conv(v['statements'])})
            elif k == 'include':
                out.append({'k': 'include', 'includes': [{'url': i['url']} for i in v['includes']]})
            else:
                raise ValueError('corpus program outside the subset: ' + k)
        return out
    return progen.assign_fids(conv(model['statements']))


def witness_all(ctx, kind, inp, bad):
    for oracle, want, got in bad:
        ctx.witness(oracle, dict(inp, kind=kind), want, got)


def compare_program(ctx, stream, st, prog, host_spec, tags, flags, resp, modelled=True, files=None, spelled=None):
    """files: None or {url: structured program} - the scripts the host's fetchFn serves (one flat virtual directory); spelled: None (the
    canonical spelling of progen.render) or (text, {url: text} | None, tags) - another spelling of the same program and files: the
    implementation reads THAT text, the expectations (model response, reference, oracles) are those of the program"""
    text = '\n'.join(progen.render(prog))
    ftexts = files_text(files)
    if spelled is not None:
        text, ftexts, stags = spelled
        tags = set(tags) | stags | {'spelled'}
    impl = run_text(text, host_spec, flags, ftexts=ftexts)
    nontrivial = 'error' not in impl and 'hostexc' not in impl and any(ln for ln in impl['log'])
    outcome = 'hostexc' if 'hostexc' in impl else ('exceeded' if budget_exceeded(impl) else ('error' if 'error' in impl else 'ok'))
    inp = {'text': text, 'globals': host_spec, 'explicit_flags': flags}
    if files is not None:
        inp['files'] = ftexts
    st.case([text, host_spec, flags] + ([inp['files']] if files is not None else []), nontrivial=nontrivial,
            tags=sorted(tags) + [outcome] + (['explicit-lastArgArray'] if flags else []))
    if modelled:
        ctx.compare(stream, inp, impl, progen.canon_model_out(resp))
    if 'hostexc' in impl:
        ctx.witness('no-host-exception', dict(inp, kind='program', fprogs=files), 'result or BareScriptRuntimeError', impl['hostexc'])
    witness_all(ctx, 'program', dict(inp, prog=prog, fprogs=files), oracle_run(prog, host_spec, impl, files))
    return impl


def exec_request(prog, host_spec, files=None):
    """function ids are numbered through the script and then through the files in url order (one function table in the model)"""
    counter = [0]
    req = {'op': 'exec', 'script': progen.canon_script(parse('\n'.join(progen.render(prog))), counter),
           'globals': wire_globals(host_spec), 'max': MAX_STATEMENTS, 'fuel': FUEL}
    if files is not None:
        req['files'] = [[url, progen.canon_script(parse('\n'.join(progen.render(fp))), counter)] for url, fp in sorted(files.items())]
    return req


def stream_calls(ctx):
    st = ctx.stream('calls', 'generated programs: <= 4 script functions (0-3 parameters, optional `...`, duplicate parameter names, names '
                             'that redefine library functions), called with 0-5 arguments directly / through a variable / through '
                             'systemPartial / as arrayIndexOf predicate, functions passed as arguments, the same names assigned inside '
                             'functions and at top level, parameters shadowing globals, functions and library names, systemGlobalSet/Get '
                             'inside functions, x host globals shadowing library names, variables and function names; half of the runs on '
                             'the hand-built variant with explicit lastArgArray flags; every third program (and every corpus program) in a random SOURCE '
                             'SPELLING (blanks / tabs / Unicode spaces at every token boundary of the statement lines and argument lists, comment '
                             'lines, backslash continuations, CRLF, `async`) against the expectations of the program; execute_script vs Lean machine (result, log, final '
                             'globals, statement count) vs the Python reference of the calling convention; non-trivial = terminates without '
                             'error and logs something')
    cases = []
    srng = ctx.rng('calls-spelling')
    for entry in load_corpus():
        files = {url: structured_of_text(t) for url, t in entry['files'].items()} if 'files' in entry else None
        tags = {'corpus'} | ({'corpus-include'} if files is not None else set())
        prog = structured_of_text(entry['text'])
        cases.append((prog, entry.get('globals', {}), tags, False, files, None))
        cases.append((prog, entry.get('globals', {}), tags, True, files, None))
        cases.append((prog, entry.get('globals', {}), tags, False, files, spell_case(srng, prog, files)))
        for alt in entry.get('spellings', []):
            # hand-written other spellings of the same program: the structure is read from the canonical "text", the implementation runs `alt`
            cases.append((prog, entry.get('globals', {}), tags | {'corpus-spelling'}, False, files,
                          (alt, files_text(files), {'spelling:hand-written'})))
    rng = ctx.rng('calls')
    for i in range(ctx.scale(1500, 30000)):
        gen = CallGen(rng)
        prog = gen.program()
        spelled = None
        if i % 3 == 2:
            # the same kind of program in a random source spelling (white space at every token boundary of the statement lines, comment
            # lines, continuations, CRLF), some definitions `async`
            prog = progen.assign_fids(with_async(srng, prog))
            spelled = spell_case(srng, prog)
        cases.append((prog, gen.host(), gen.tags, i % 2 == 1 and spelled is None, None, spelled))
    resps = ctx.driver.batch([exec_request(prog, host, files) for prog, host, _, _, files, _ in cases])
    for (prog, host, tags, flags, files, spelled), resp in zip(cases, resps):
        compare_program(ctx, 'calls', st, prog, host, tags, flags, resp, files=files, spelled=spelled)


def stream_sort(ctx):
    st = ctx.stream('sort', 'the same generator with arraySort(array, compareFn) call-backs added - implementation vs the Python reference '
                            'only (the Lean host has no arraySort); non-trivial = terminates without error and logs something')
    rng = ctx.rng('sort')
    srng = ctx.rng('sort-spelling')
    for i in range(ctx.scale(300, 6000)):
        gen = CallGen(rng, allow_sort=True)
        prog = gen.program()
        spelled = spell_case(srng, prog) if i % 3 == 2 else None
        compare_program(ctx, 'sort', st, prog, gen.host(), gen.tags, rng.random() < 0.5 and spelled is None, None, modelled=False, spelled=spelled)


def stream_includescope(ctx):
    st = ctx.stream('includescope', 'exhaustive include-scope matrix: an included script that reads NAME, assigns NAME, defines a function '
                                    'reading NAME and assigns a fresh name at ITS top level, included from {top level, a function body, under '
                                    'an `if` in a function, a function called by the function, a function called through a variable / a '
                                    'partial / as arrayIndexOf predicate, an intermediate included script, a function of an intermediate '
                                    'included script} x the including function binds NAME as {parameter, `...` parameter, assigned local, '
                                    'both, not at all} x the global NAME is {assigned by the script, supplied by the host, unbound} x NAME is '
                                    '{a variable name, a library function name}; closed-form expectation (the included script sees and '
                                    'writes the globals object, the function\'s binding is untouched), Lean machine and the Python reference')
    cells = list(scope_cells())
    cases = [scope_cell_case(cell) for cell in cells]
    resps = ctx.driver.batch([exec_request(prog, host, files) for prog, files, host, _, _ in cases])
    for cell, (prog, files, host, want, want_globals), resp in zip(cells, cases, resps):
        impl = compare_program(ctx, 'includescope', st, prog, host, {'position:' + cell[0], 'binding:' + cell[1], 'global:' + cell[2]},
                               False, resp, files=files)
        witness_all(ctx, 'include-scope', {'cell': cell, 'text': '\n'.join(progen.render(prog)), 'files': files_text(files), 'globals': host},
                    check_scope_outcome(cell, impl, want, want_globals))
    st.exhaustive = True


def stream_includes(ctx):
    st = ctx.stream('includes', 'generated call programs with `include` statements in every scope: 1-3 generated included scripts (own '
                                'functions - also under library names -, top-level reads / assignments of the names the including functions '
                                'use as parameters and locals, systemGlobalSet/Get, early `return`, a missing file) included from the top '
                                'level, function bodies, under `if`, call-backs and partials, the top level and the functions of other '
                                'included scripts, x the host configurations of `calls` + host bindings of parameter names; execute_script '
                                '(fetchFn serving the files) vs Lean machine vs the Python reference; plus the metamorphic oracle: the '
                                'top-ranked file included from inside a random wrapper function (0-3 parameters named like the names the '
                                'file uses, optional `...`, 0-4 arguments, 0-2 local assignments) = included at top level, and the '
                                'wrapper\'s locals afterwards are what the call bound; every 5th program with arraySort call-backs '
                                '(implementation and reference only); every third program with the script and all its files in a random source spelling; '
                                'non-trivial = terminates without error and logs something')
    rng = ctx.rng('includes')
    srng = ctx.rng('includes-spelling')
    cases = []
    for i in range(ctx.scale(700, 12000)):
        gen = IncludeGen(rng, allow_sort=(i % 5 == 4))
        prog = gen.program()
        spelled = spell_case(srng, prog, gen.files) if i % 3 == 2 else None        # the script AND the files it includes, respelled
        cases.append((prog, gen.host(), gen.tags, i % 2 == 1 and spelled is None, gen.files, i % 5 != 4, random_wrapper(rng), spelled))
    resps = iter(ctx.driver.batch([exec_request(prog, host, files) for prog, host, _, _, files, m, _, _ in cases if m]))
    for prog, host, tags, flags, files, modelled, wrapper, spelled in cases:
        compare_program(ctx, 'includes', st, prog, host, tags, flags, next(resps) if modelled else None, modelled=modelled, files=files,
                        spelled=spelled)
        url = sorted(files)[-1]
        witness_all(ctx, 'include-transparent', {'fprogs': files, 'files': files_text(files), 'url': url, 'globals': host, 'wrapper': wrapper},
                    oracle_include_transparent(files, url, host, wrapper))


ARG_EXPRS = [num(11), string('s2'), call('arrayNew', num(33)), var('true'), num(55)]
ARG_VALUES = [11.0, 's2', [33.0], True, 55.0]


def binding_program(params, rest, nargs, path, split=1):
    """one cell of the exhaustive calling-convention matrix -> (structured program, argument values seen by ff, list of calls)"""
    body = []
    for p in dict.fromkeys(params):
        body.append({'k': 'expr', 'name': None, 'e': call('systemLog', call('systemType', var(p)))})
        body.append({'k': 'expr', 'name': None, 'e': call('systemLog', var(p))})
    body.append({'k': 'expr', 'name': None, 'e': call('systemLog', string('-'))})
    body.append({'k': 'ret', 'e': num(0)})
    prog = [{'k': 'func', 'fid': 0, 'name': 'ff', 'args': list(params), 'lastArgArray': rest, 'async': False, 'b': body}]
    args = ARG_EXPRS[:nargs]
    if path == 'direct':
        prog.append({'k': 'expr', 'name': 'res', 'e': call('ff', *args)})
    elif path == 'variable':
        prog.append({'k': 'expr', 'name': 'fv', 'e': var('ff')})
        prog.append({'k': 'expr', 'name': 'res', 'e': call('fv', *args)})
    elif path == 'partial':
        prog.append({'k': 'expr', 'name': 'pv', 'e': call('systemPartial', var('ff'), *args[:split])})
        prog.append({'k': 'expr', 'name': 'res', 'e': call('pv', *args[split:])})
    elif path == 'partial2':
        prog.append({'k': 'expr', 'name': 'pv', 'e': call('systemPartial', var('ff'), *args[:1])})
        prog.append({'k': 'expr', 'name': 'qv', 'e': call('systemPartial', var('pv'), *args[1:split + 1])})
        prog.append({'k': 'expr', 'name': 'res', 'e': call('qv', *args[split + 1:])})
    elif path == 'parameter':
        prog.insert(0, {'k': 'func', 'fid': 0, 'name': 'hh', 'args': ['cb'], 'lastArgArray': False, 'async': False,
                        'b': [{'k': 'ret', 'e': call('cb', *args)}]})
        prog.append({'k': 'expr', 'name': 'res', 'e': call('hh', var('ff'))})
    elif path == 'indexof':
        prog.append({'k': 'expr', 'name': 'res', 'e': call('arrayIndexOf', call('arrayNew', *args), var('ff'))})
    elif path == 'sort':
        prog.append({'k': 'expr', 'name': 'res', 'e': call('arraySort', call('arrayNew', *args), var('ff'))})
    return progen.assign_fids(prog)


def binding_expected_log(params, rest, calls):
    log = []
    for args in calls:
        bound = expected_binding(params, rest, args)
        for p in dict.fromkeys(params):
            log += probe_lines(bound[p])
        log.append('-')
    return log


def binding_cells():
    for nparams in range(4):
        for rest in (False, True):
            for dup in ((False, True) if nparams >= 2 else (False,)):
                params = ['p', 'q', 'r'][:nparams]
                if dup:
                    params[-1] = 'p'
                for nargs in range(6):
                    for path in ('direct', 'variable', 'parameter'):
                        yield params, rest, nargs, path, 0
                    for split in range(1, nargs + 1):
                        yield params, rest, nargs, 'partial', split
                    for split in range(1, nargs):
                        yield params, rest, nargs, 'partial2', split
                    if nargs >= 1:
                        yield params, rest, nargs, 'indexof', 0
                    if nargs == 2:
                        yield params, rest, nargs, 'sort', 0


def binding_calls(nargs, path):
    """the argument lists `ff` is called with on this path (in order); None = any order of the two (arraySort)"""
    vals = ARG_VALUES[:nargs]
    if path == 'indexof':
        return [[v] for v in vals]           # the predicate returns 0 (falsy): every element is offered, one argument each
    if path == 'sort':
        return None
    return [vals]


def check_binding_cell(cell, impl):
    params, rest, nargs, path, _ = cell
    calls = binding_calls(nargs, path)
    if calls is None:
        a, b = ARG_VALUES[:2]
        wants = [binding_expected_log(params, rest, [[a, b]]), binding_expected_log(params, rest, [[b, a]])]
        return [] if impl.get('log') in wants and 'error' not in impl else [('parameter-binding', wants[1], impl.get('log', impl))]
    want = binding_expected_log(params, rest, calls)
    if impl.get('log') != want or 'error' in impl or 'hostexc' in impl:
        return [('parameter-binding', want, impl.get('log') if 'error' not in impl and 'hostexc' not in impl else impl)]
    return []


def stream_binding(ctx):
    st = ctx.stream('binding', 'exhaustive calling-convention matrix: 0-3 parameters x with/without `...` x duplicate last name x 0-5 arguments '
                               '(number, string, array, boolean, number) x call path (direct, through a variable, through a parameter of '
                               'another function, systemPartial with every split, partial of a partial, arrayIndexOf predicate, arraySort '
                               'comparator [implementation only]) x parsed / hand-built model with explicit lastArgArray / parsed model of a random other '
                               'source spelling of the same program; the function logs '
                               'systemType and the value of every parameter; implementation vs Lean machine vs the closed binding formula; '
                               'non-trivial = at least one parameter')
    cells = list(binding_cells())
    srng = ctx.rng('binding-spelling')
    # every cell three times: parsed model, hand-built model with explicit flags, and the parsed model of a random other SPELLING of the
    # same program (white space around every comma / parenthesis / `...` of the definition and of the calls, continuations, ...)
    cases = [(cell, flags, sp) for cell in cells for flags, sp in ((False, False), (True, False), (False, True))]
    progs = [binding_program(*cell) for cell, _, _ in cases]
    modelled = [cell[3] != 'sort' for cell, _, _ in cases]
    resps = iter(ctx.driver.batch([exec_request(p, {}) for p, m in zip(progs, modelled) if m]))
    for (cell, flags, sp), prog, m in zip(cases, progs, modelled):
        params, rest, nargs, path, split = cell
        text, stags = '\n'.join(progen.render(prog)), set()
        if sp:
            text, _, stags = spell_case(srng, prog)
        impl = run_text(text, {}, flags)
        st.case([text, flags], nontrivial=len(params) > 0,
                tags=[f'params{len(params)}' + ('...' if rest else ''), f'nargs{nargs}', 'path:' + path] + (['explicit-lastArgArray'] if flags else [])
                + sorted(stags))
        inp = {'text': text, 'globals': {}, 'explicit_flags': flags, 'cell': list(cell)}
        if m:
            ctx.compare('binding', inp, impl, progen.canon_model_out(next(resps)))
        witness_all(ctx, 'binding', inp, check_binding_cell(cell, impl))
    st.exhaustive = True
    # the `...` parameter is a fresh array (host-level calls of the function value)
    for nparams in (1, 2, 3):
        for nargs in range(6):
            witness_all(ctx, 'rest-fresh', {'nparams': nparams, 'nargs': nargs}, oracle_rest_fresh(nparams, nargs))


def stream_spelling(ctx):
    st = ctx.stream('spelling', 'the definition line `function ff(p, q, r...):` in every spelling the language grants, implementation only: '
                                '(A) exhaustively {no blank, one blank} at each boundary inside the line (before / after `(`, before / after '
                                'every comma, before `...`, before `)`, before `:`) for 0-3 parameters with and without `...`; (B) each '
                                'boundary (also the indentation, after `function`, the line end) alone x {blank, two blanks, tab, mixed, '
                                'no-break space, em space, form feed, three backslash line continuations} x the other boundaries empty / '
                                'one blank; (C) random assignments from that pool, parameter names from the generator pool (library and '
                                'function names, duplicates), `async`; the script is run with globals that bind every parameter name, the '
                                'function is called from the host with 0 .. n+2 arguments: every parameter has the documented value (closed '
                                'formula; a parameter that missed its local would show the global) and no global is written; non-trivial = '
                                'at least one parameter')
    rng = ctx.rng('spelling')
    for params, rest, blanks, is_async, tag in header_cases(rng, ctx.scale(1500, 40000)):
        header = header_text(params, rest, blanks, is_async)
        st.case([header, params, rest], nontrivial=len(params) > 0,
                tags=[tag, f'params{len(params)}' + ('...' if rest else '')] + (['async'] if is_async else [])
                + (['continuation'] if '\n' in header else []) + (['blank-before-comma'] if any(blanks.get(f'before-comma{i}') for i in (1, 2)) else []))
        witness_all(ctx, 'header', {'header': header, 'params': params, 'rest': rest}, oracle_header(header, params, rest))
    st.exhaustive = False


HOST_PROBE = '''\
a1 = arrayNew(1, 2, 3)
n1 = arrayLength(a1)
t1 = systemType(arrayLength)
t2 = systemType(arrayGet)
g1 = arrayGet(a1, 1)
systemLog('probe')
b1 = systemBoolean(a1)
systemGlobalSet('gs', 7)
g2 = systemGlobalGet('gs', 0)
'''
HOST_PROBE_REDEF = HOST_PROBE + '''\
function {name}(p, q):
    return 'script:' + p
endfunction
r1 = {name}('u', 'v')
function other(zz):
    return {name}(zz, 1)
endfunction
r2 = other('w')
t3 = systemType({name})
'''


def host_configs(ctx):
    lib_all = sorted(fw.impl()['library'].SCRIPT_FUNCTIONS)
    for name in MODEL_LIB:
        for value_ in HOST_SHADOW_VALUES:
            if is_lib_marker(value_) and value_['$lib'] == name:
                continue
            yield {name: value_}
    yield {'arrayLength': 5, 'systemLog': 5}
    yield {'x': 1, 'arrayLength': {'$lib': 'arrayGet'}, 'y': [1], 'systemType': None, 'zz': 'last'}
    yield {n: i for i, n in enumerate(MODEL_LIB)}
    yield {n: {'$lib': MODEL_LIB[(i + 1) % len(MODEL_LIB)]} for i, n in enumerate(MODEL_LIB)}
    rng = ctx.rng('hostglobals')
    for _ in range(ctx.scale(40, 400)):
        g = {}
        for _ in range(rng.randint(1, 6)):
            g[rng.choice(lib_all + MODEL_LIB + ['x', 'y', 'gs', 'a1'])] = rng.choice(HOST_SHADOW_VALUES + [{'k': 1}, 3.5])
        yield g


def stream_hostglobals(ctx):
    st = ctx.stream('hostglobals', 'host configurations: every modelled library name x 8 shadowing values (number, null, string, array, false, '
                                   'other library functions), all names at once, rotated library, random subsets of the full library; on each: '
                                   '(1) execute_script of the empty script keeps every host binding (object identity, order) and adds exactly '
                                   'the missing library names; (2) a probing script that uses the shadowed names; (3) the same script then '
                                   'redefines the shadowed name as a script function and calls it from top level and from another function; '
                                   'implementation vs Lean machine vs reference; non-trivial = the host binds a modelled library name')
    configs = list(host_configs(ctx))
    cases = []
    for cfg in configs:
        cases.append((cfg, HOST_PROBE))
        shadowed = [k for k in cfg if k in MODEL_LIB]
        if shadowed:
            cases.append((cfg, HOST_PROBE_REDEF.format(name=shadowed[0])))
    progs = [structured_of_text(text) for _, text in cases]
    resps = ctx.driver.batch([exec_request(p, cfg) for (cfg, _), p in zip(cases, progs)])
    done = set()
    for (cfg, text), prog, resp in zip(cases, progs, resps):
        key = json.dumps(cfg, sort_keys=True, default=str)
        if key not in done:
            done.add(key)
            witness_all(ctx, 'host-injection', {'globals': cfg}, oracle_host_injection(cfg))
        tags = {'redefine' if 'function ' in text else 'probe'} | {'shadow:' + type(realize(v)).__name__ for v in cfg.values()}
        compare_program(ctx, 'hostglobals', st, prog, cfg, tags, False, resp)
    st.exhaustive = False


def stream_exprmode(ctx):
    st = ctx.stream('exprmode', 'expression mode, implementation only: for each of the built-in expression function names, evaluate_expression '
                                'of `name(1, 2)` with builtins=True/False x {global function, local function, both, non-function value, null, '
                                'unbound}: a bound name always wins, the built-in is used only when unbound and builtins=True; exhaustive over '
                                'the table')
    names = sorted(fw.impl()['library'].EXPRESSION_FUNCTIONS)
    for name in names:
        bad = oracle_expression_mode(name)
        st.case(name, nontrivial=True, tags=['builtin'])
        witness_all(ctx, 'exprmode', {'name': name}, bad)
    st.exhaustive = True
    # script mode never sees the built-ins; a host global of that name is an ordinary function / value
    cases = []
    for name in ['max', 'len', 'abs', 'min']:
        cases.append((f"x = {name}(arrayNew(1, 2))\n", {}))
        cases.append((f"x = {name}(arrayNew(1, 2))\n", {name: {'$lib': 'arrayLength'}}))
        cases.append((f"function {name}(p):\n    return 'mine'\nendfunction\nx = {name}(1)\n", {}))
        cases.append((f"x = {name}(1)\n", {name: 5}))
    progs = [structured_of_text(t) for t, _ in cases]
    resps = ctx.driver.batch([exec_request(p, g) for p, (_, g) in zip(progs, cases)])
    for (text, g), prog, resp in zip(cases, progs, resps):
        compare_program(ctx, 'exprmode', st, prog, g, {'script-mode'}, False, resp)


def to_model(prog):
    """structured program in the expr/ret/func subset -> implementation model dicts, WITHOUT going through the parser (so that
    shapes the parser never emits can be built: nested function statements, explicit flags, absent/empty 'args')"""
    out = []
    for s in prog:
        if s['k'] == 'expr':
            d = {'expr': progen.impl_expr(s['e'])}
            if s.get('name'):
                d['name'] = s['name']
            out.append({'expr': d})
        elif s['k'] == 'ret':
            out.append({'return': {'expr': progen.impl_expr(s['e'])} if s.get('e') else {}})
        elif s['k'] == 'func':
            d = {'name': s['name'], 'statements': to_model(s['b'])['statements']}
            if s['args'] or s.get('emptyArgs'):
                d['args'] = list(s['args'])
            if s.get('lastArgArray') or s.get('explicitFlag'):
                d['lastArgArray'] = bool(s.get('lastArgArray'))
            out.append({'function': d})
        else:
            raise ValueError(s['k'])
    return {'statements': out}


def fdef(name, params, body, rest=False, **extra):
    return dict({'k': 'func', 'fid': 0, 'name': name, 'args': list(params), 'lastArgArray': rest, 'async': False, 'b': body}, **extra)


def asg(name, e):
    return {'k': 'expr', 'name': name, 'e': e}


def handbuilt_programs():
    log = lambda e: asg(None, call('systemLog', e))  # noqa: E731
    # a function statement INSIDE a function body binds a GLOBAL (also over a library name); its own locals stay local
    yield 'nested-function', [
        fdef('outer', ['p'], [asg('loc', num(1)),
                              fdef('inner', ['q'], [log(wf_binary('+', string('inner:'), var('q'))), log(wf_binary('+', string('loc:'), var('loc'))),
                                                    {'k': 'ret', 'e': var('q')}]),
                              fdef('arrayLength', ['a'], [{'k': 'ret', 'e': string('nested-mine')}]),
                              asg('r', call('inner', var('p'))), log(call('systemType', var('inner'))), {'k': 'ret', 'e': var('r')}]),
        asg('t0', call('systemType', var('inner'))), asg('n0', call('arrayLength', call('arrayNew', num(1)))),
        asg('x', call('outer', num(5))),
        asg('t1', call('systemType', var('inner'))), asg('n1', call('arrayLength', call('arrayNew', num(1)))), asg('y', call('inner', num(6)))], {}
    yield 'nested-function-host', [
        fdef('outer', [], [fdef('hostfn', [], [{'k': 'ret', 'e': string('script')}]), asg('hostfn', num(3)), {'k': 'ret', 'e': var('hostfn')}]),
        asg('a', call('outer')), asg('b', call('hostfn'))], {'hostfn': 7}
    for rest in (False, True):
        for nargs in (0, 1, 3):
            args = ARG_EXPRS[:nargs]
            # explicit 'lastArgArray' (False included - F23), explicit empty 'args', no 'args' key at all
            yield f'explicit-flag-{rest}-{nargs}', [
                fdef('ff', ['p', 'q'], [log(var('p')), log(var('q')), {'k': 'ret', 'e': var('q')}], rest, explicitFlag=True),
                asg('r', call('ff', *args))], {}
            yield f'empty-args-{rest}-{nargs}', [
                fdef('ff', [], [log(string('in')), {'k': 'ret', 'e': num(1)}], rest, explicitFlag=True, emptyArgs=True),
                asg('r', call('ff', *args))], {}
            yield f'no-args-key-{rest}-{nargs}', [
                fdef('ff', [], [log(string('in')), {'k': 'ret', 'e': num(1)}], rest, explicitFlag=True),
                asg('r', call('ff', *args))], {}


def stream_handbuilt(ctx):
    st = ctx.stream('handbuilt', 'hand-built models the parser never emits: function statements nested in a function body (bind a global, also '
                                 'over a library name and over a host binding), explicit lastArgArray true/false, explicit empty args, absent '
                                 'args; implementation vs Lean machine vs reference; fixed list')
    cases = [(tag, progen.assign_fids(prog), host) for tag, prog, host in handbuilt_programs()]
    models = [to_model(prog) for _, prog, _ in cases]
    resps = ctx.driver.batch([{'op': 'exec', 'script': progen.canon_script(m), 'globals': wire_globals(h), 'max': MAX_STATEMENTS, 'fuel': FUEL}
                              for m, (_, _, h) in zip(models, cases)])
    for (tag, prog, host), model, resp in zip(cases, models, resps):
        impl = run_impl(model, host)
        st.case([tag, model], nontrivial='error' not in impl, tags=[tag.rsplit('-', 2)[0] if tag[-1].isdigit() else tag])
        inp = {'kind': 'handbuilt', 'tag': tag, 'model': model, 'globals': host, 'prog': prog}
        ctx.compare('handbuilt', inp, impl, progen.canon_model_out(resp))
        if 'hostexc' in impl:
            ctx.witness('no-host-exception', inp, 'result or BareScriptRuntimeError', impl['hostexc'])
        witness_all(ctx, 'handbuilt', inp, oracle_run(prog, host, impl))
    st.exhaustive = True


def stream_partialhist(ctx):
    st = ctx.stream('partialhist', 'function values with a HISTORY (aliasing): holders derived by systemPartial from the script function ff (0-3 '
                                   'parameters, optional `...`) and from one another - several children of one base, a holder re-derived from '
                                   'itself under its own name, chains - and called by every path (direct, through a variable, through a '
                                   'parameter of another function, arrayIndexOf predicate, arraySort comparator [implementation only]) BEFORE and '
                                   'AFTER they served as the base of other partials, and repeatedly; directed families x SCALE: n siblings of one '
                                   'base, n bound arguments per derivation, chain depth n for n in 0,1,2,9,10,11,16,17,64,65,100,101,128,129,256,1000 '
                                   '(implementation only above 17: the statement budget of the model runs is 200); random histories of 4-12 '
                                   'operations; every call must log the closed binding formula applied to (bound arguments of THAT holder in '
                                   'derivation order + the call\'s arguments); small histories also against the Lean machine and the reference; '
                                   'non-trivial = at least one parameter and a holder that is called after it was used as a base')
    cases = []
    for tag, hist in ph_directed():
        cases.append((hist, {tag.split(':')[0], 'directed'} | ({'scale:' + tag.split(':')[1]} if tag.split(':')[1].isdigit() else {'path:' + tag.split(':')[1]})))
    rng = ctx.rng('partialhist')
    for i in range(ctx.scale(400, 6000)):
        hist, tags = ph_random(rng, allow_sort=(i % 4 == 3))
        cases.append((hist, tags | {'random'}))
    built = [ph_build(hist) for hist, _ in cases]
    small = [len(prog) <= 40 and not any(op[0] == 'call' and op[2] == 'sort' for op in hist['ops']) for (hist, _), (prog, _) in zip(cases, built)]
    resps = iter(ctx.driver.batch([exec_request(prog, {}) for (prog, _), m in zip(built, small) if m]))
    failed = set()
    for (hist, tags), (prog, _), m in zip(cases, built, small):
        text = '\n'.join(progen.render(prog))
        family = next((t for t in tags if t in ('siblings', 'bound-arguments', 'chain')), None) if 'directed' in tags else None
        if family in failed:
            # a smaller size of this scale family already is a witness; an implementation that is wrong here may need memory / time that
            # grows with the size (accumulating argument lists), so the larger sizes are not run (the model response is consumed)
            if m:
                next(resps)
            continue
        impl = run_text(text, {}, max_statements=MAX_STATEMENTS if m else PH_MAX_STATEMENTS)
        reused = any(op[0] == 'call' and any(d[0] == 'derive' and d[2] == op[1] for d in hist['ops'][:j]) for j, op in enumerate(hist['ops']))
        st.case([hist], nontrivial=bool(hist['params']) and reused, tags=sorted(tags) + [f"params{len(hist['params'])}" + ('...' if hist['rest'] else '')])
        inp = {'kind': 'partial-history', 'hist': hist, 'text': text, 'globals': {}}
        if m:
            ctx.compare('partialhist', inp, impl, progen.canon_model_out(next(resps)))
            witness_all(ctx, 'program', {'text': text, 'globals': {}, 'explicit_flags': False, 'prog': prog, 'fprogs': None}, oracle_run(prog, {}, impl))
        bad = check_partial_history(hist, impl)
        witness_all(ctx, 'partial-history', inp, bad)
        if bad and family is not None:
            failed.add(family)
    st.exhaustive = False


def stream_rebind(ctx):
    st = ctx.stream('rebind', 'the callee is what its name is bound to when the call is MADE - exhaustive matrix: the name is {a script function, a '
                              'library function, unbound, a host-supplied function / number / null} before x the evaluation of the call\'s own '
                              'argument (a script function swap()) {does nothing, systemGlobalSet(name, script function / null / number / library '
                              'function / partial), includes a script that defines `function name`, includes a script whose top level assigns '
                              'name} x the call stands {at top level, in a script function, in a script function that binds the name as a '
                              'parameter [the local wins, whatever happens to the global], with the rebinding argument second, nested in an '
                              'operator, as the `return` expression, with two rebinding arguments [the later wins], in an arrayIndexOf '
                              'call-back}; closed-form log / result / error (arguments run first - their log lines precede -, then the binding '
                              'in force is called; a second plain call sees the same binding), Lean machine and the Python reference; plus, '
                              'implementation only (host functions that write options[\'globals\'] are outside the Lean host): a host function '
                              'as argument rebinds / unbinds / nulls the callee x script top level / script function / evaluate_expression with '
                              'built-ins (x every built-in expression function name, without and with locals)')
    cells = [c for c in rebind_cells() if not (c[0] == 'library' and c[1] == 'gset-lib')]
    cases = [rebind_case(cell) for cell in cells]
    resps = ctx.driver.batch([exec_request(prog, host, files) for prog, files, host, _ in cases])
    for cell, (prog, files, host, want), resp in zip(cells, cases, resps):
        impl = compare_program(ctx, 'rebind', st, prog, host, {'before:' + cell[0], 'action:' + cell[1], 'site:' + cell[2]}, False, resp, files=files)
        witness_all(ctx, 'rebind', {'cell': cell, 'text': '\n'.join(progen.render(prog)), 'files': files_text(files), 'globals': host},
                    check_rebind_outcome(impl, want))
    for name, mode, before, after in rebind_host_cases():
        st.case(['host', name, mode, before, after], nontrivial=True, tags=['host-function-rebinds', 'mode:' + mode, 'before:' + before, 'after:' + after])
        witness_all(ctx, 'rebind-host', {'name': name, 'mode': mode, 'before': before, 'after': after}, oracle_rebind_host(name, mode, before, after))
    st.exhaustive = True


def stream_sidefx(ctx):
    st = ctx.stream('sidefx', 'generated programs whose ARGUMENTS have side effects: the generator of `includes` + arguments that are calls of script '
                              'functions (nested up to 2 deep; the called bodies log, assign, systemGlobalSet, include scripts that define fa, fb, '
                              '... again) + script functions and top-level code that rebind function names and arrayNew with systemGlobalSet '
                              '(another script function, a partial, arrayNew, null, a number): the callee of a call may be rebound while its '
                              'arguments are evaluated, between two executions of one call site, inside call-backs; execute_script vs Lean '
                              'machine vs the Python reference (arguments left to right, then the callee is looked up); every 5th program with '
                              'arraySort (implementation and reference only); non-trivial = terminates without error and logs something')
    rng = ctx.rng('sidefx')
    cases = []
    for i in range(ctx.scale(900, 15000)):
        gen = NestGen(rng, allow_sort=(i % 5 == 4))
        prog = gen.program()
        cases.append((prog, gen.host(), gen.tags, gen.files, i % 5 != 4))
    resps = iter(ctx.driver.batch([exec_request(prog, host, files) for prog, host, _, files, m in cases if m]))
    for prog, host, tags, files, modelled in cases:
        compare_program(ctx, 'sidefx', st, prog, host, tags, False, next(resps) if modelled else None, modelled=modelled, files=files)


# ---------------------------------------------------------------------------------------------------------------------
# RE-EXECUTION (R9C04-m2 family).  The statement of the property is about every call of every execution: a host parses a script once
# and executes the parsed model as often as it likes (same or fresh globals / options objects), a `function` statement may be reached
# several times in one run (a jump loop at top level, a definition nested in a function body), two models may define the same name
# with different parameter lists.  Whatever an execution precomputes, caches or consumes while it binds parameters, the NEXT execution
# of the same model object must bind by the same closed formula; a function value obtained from an earlier execution keeps binding that
# way after later executions.  The Lean machine has no notion of the identity of a parsed model (every model run starts from the syntax
# tree), so the histories are checked on the implementation against the closed forms / the reference; an execution with fresh globals
# is also compared with the model's outcome for the program where the family is modelled.
# ---------------------------------------------------------------------------------------------------------------------

RX_SCHEDULES = ['fresh', 'same-globals', 'same-options', 'fresh-then-first']
RX_SHAPES = [([], False), ([], True), (['p'], False), (['p'], True), (['p', 'q'], False), (['p', 'q'], True), (['p', 'q', 'r'], False),
             (['p', 'q', 'r'], True), (['p', 'p'], True), (['p', 'q', 'p'], True)]
RX_EXECUTION_SIZES = [1, 2, 3, 9, 10, 11, 16, 17, 64, 65]


def rx_execute(models, host_spec, schedule, max_statements=MAX_STATEMENTS, ftexts=None):
    """execute the model OBJECTS of `models` one after the other (the same object may occur several times) -> one record per execution
    {'out': canonical outcome (shape of progen.run_impl, the log lines of THIS execution), 'g': globals object, 'options', 'log'}.
    schedule: 'fresh' - new globals and options objects for every execution; 'same-globals' - one globals object, new options objects;
    'same-options' - one options object (hence one globals object) handed to every execute_script; 'fresh-then-first' - fresh objects
    for the first two executions, every later one runs in the globals object of the FIRST again"""
    mods = fw.impl()
    runtime, library, parser = mods['runtime'], mods['library'], mods['parser']
    runs = []
    for i, model in enumerate(models):
        options = None
        if i == 0 or schedule == 'fresh' or (schedule == 'fresh-then-first' and i == 1):
            g, log = realize_globals(host_spec), []
        elif schedule == 'fresh-then-first':
            g, log = runs[0]['g'], runs[0]['log']
        else:
            g, log = runs[-1]['g'], runs[-1]['log']
            if schedule == 'same-options':
                options = runs[-1]['options']
        if options is None:
            options = {'globals': g, 'maxStatements': max_statements, 'logFn': log.append}
            if ftexts is not None:
                options['fetchFn'] = lambda req, ftexts=ftexts: ftexts.get(req['url'])
        start = len(log)
        out = {}
        try:
            out['result'] = progen.value_to_wire(runtime.execute_script(model, options), library.SCRIPT_FUNCTIONS)
        except runtime.BareScriptRuntimeError as exc:
            out['error'] = str(exc)
        except parser.BareScriptParserError as exc:
            out['error'] = 'ParserError ' + str(exc).split('\n', 1)[0]
        except RecursionError:
            out['hostexc'] = 'RecursionError'
        except Exception as exc:  # pylint: disable=broad-except
            out['hostexc'] = type(exc).__name__ + ': ' + str(exc)[:200]
        out['log'] = log[start:]
        out['globals'] = sorted([[k, progen.value_to_wire(v, library.SCRIPT_FUNCTIONS)] for k, v in g.items()
                                 if not (k in library.SCRIPT_FUNCTIONS and v is library.SCRIPT_FUNCTIONS[k])], key=lambda kv: kv[0])
        out['count'] = options.get('statementCount')
        runs.append({'out': progen.canon_neg_zero(out), 'g': g, 'options': options, 'log': log})
    return runs


def rx_probe_function(params, rest):
    body = []
    for p in dict.fromkeys(params):
        body += probe_stmts(p)
    return fdef('ff', params, body + [log_stmt(string('-')), {'k': 'ret', 'e': num(0)}], rest)


def rx_nested_program(params, rest, nargs, path, calls):
    """the function statement of ff stands in the body of outer(): it is executed once per call of outer (hand-built model)"""
    args = ARG_EXPRS[:nargs]
    body = [rx_probe_function(params, rest)]
    if path == 'direct':
        body.append(asg('res', call('ff', *args)))
    elif path == 'partial':
        body += [asg('pv', call('systemPartial', var('ff'), *args[:1])), asg('res', call('pv', *args[1:]))]
    else:
        body.append(asg('res', call('arrayIndexOf', call('arrayNew', *args), var('ff'))))
    body.append({'k': 'ret', 'e': var('res')})
    return progen.assign_fids([fdef('outer', ['n'], body)] + [asg('out', call('outer', num(i))) for i in range(calls)])


def rx_loop_text(params, rest, nargs, iterations):
    """the function statement (and a call) inside a top-level jump loop: the parsed statement is reached `iterations` times in one run"""
    lines = progen.render(binding_program(params, rest, nargs, 'direct'))
    return '\n'.join(['ix = 0', 'again:'] + list(lines) + ['ix = ix + 1', f'jumpif (ix < {iterations}) again']) + '\n'


def rx_first(bad, execution, of):
    """label the failures of one execution; the oracle names get the prefix reexec:"""
    return [('reexec:' + oracle, want, {'execution': execution + 1, 'of': of, 'got': got}) for oracle, want, got in bad]


def rx_function_values_kept(runs, params, rest, vals):
    """after the last execution: the script function value left in the globals of EVERY execution, called from the host"""
    bad, seen = [], []
    want = binding_expected_log(params, rest, [vals])
    for i, run in enumerate(runs):
        if any(run['g'] is g for g in seen):
            continue
        seen.append(run['g'])
        fn = run['g'].get('ff')
        start = len(run['log'])
        try:
            fn(list(vals), run['options'])
            got = run['log'][start:]
        except Exception as exc:  # pylint: disable=broad-except
            got = type(exc).__name__ + ': ' + str(exc)[:200]
        if got != want:
            bad.append(('reexec:function-value-kept', want, {'execution': i + 1, 'of': len(runs), 'got': got}))
            break
    return bad


def check_reexec(case, outcomes=None):
    """one re-execution history -> [(oracle, expected, actual)] (the first execution that bound something else); `outcomes`, if a list,
    receives the canonical outcome of every execution"""
    fam, n, schedule = case['family'], case['runs'], case.get('schedule', 'fresh')
    per_run, after = None, None
    if fam == 'binding':
        cell = (list(case['cell'][0]),) + tuple(case['cell'][1:])
        params, rest, nargs, path, _ = cell
        model = parse('\n'.join(progen.render(binding_program(*cell))))
        models = [explicit_flags(model) if case.get('flags') else model] * n
        runs = rx_execute(models, {}, schedule)
        per_run = lambda i, out: check_binding_cell(cell, out)  # noqa: E731
        after = lambda: rx_function_values_kept(runs, params, rest, ARG_VALUES[:nargs])  # noqa: E731
    elif fam == 'history':
        hist = case['hist']
        model = parse('\n'.join(progen.render(ph_build(hist)[0])))
        runs = rx_execute([model] * n, {}, schedule, max_statements=PH_MAX_STATEMENTS)
        per_run = lambda i, out: check_partial_history(hist, out)  # noqa: E731
    elif fam == 'nested':
        params, rest, nargs, path, calls = case['params'], case['rest'], case['nargs'], case['path'], case['calls']
        prog = rx_nested_program(params, rest, nargs, path, calls)
        runs = rx_execute([to_model(prog)] * n, {}, schedule)
        want = binding_expected_log(params, rest, binding_calls(nargs, path) * calls)

        def per_run(i, out):
            bad = [] if out.get('log') == want and 'error' not in out and 'hostexc' not in out else \
                [('parameter-binding', want, out.get('log') if 'error' not in out and 'hostexc' not in out else out)]
            return bad + (oracle_run(prog, {}, out) if schedule == 'fresh' else [])
    elif fam == 'loop':
        params, rest, nargs, iterations = case['params'], case['rest'], case['nargs'], case['iterations']
        runs = rx_execute([parse(rx_loop_text(params, rest, nargs, iterations))] * n, {}, schedule)
        want = binding_expected_log(params, rest, [ARG_VALUES[:nargs]] * iterations)
        per_run = lambda i, out: [] if out.get('log') == want and 'error' not in out and 'hostexc' not in out else \
            [('parameter-binding', want, out.get('log') if 'error' not in out and 'hostexc' not in out else out)]  # noqa: E731
        after = lambda: rx_function_values_kept(runs, params, rest, ARG_VALUES[:nargs])  # noqa: E731
    elif fam == 'alternate':
        # two (three) models that define ff with DIFFERENT parameter lists, executed in turn
        shapes, nargs = case['shapes'], case['nargs']
        cells = [(list(params), rest, nargs, case.get('path', 'direct'), 1) for params, rest in shapes]
        parsed = [parse('\n'.join(progen.render(binding_program(*cell)))) for cell in cells]
        runs = rx_execute([parsed[i % len(parsed)] for i in range(n)], {}, schedule)
        per_run = lambda i, out: check_binding_cell(cells[i % len(cells)], out)  # noqa: E731
    elif fam == 'program':
        prog, fprogs, host = case['prog'], case.get('fprogs'), case['globals']
        model = parse('\n'.join(progen.render(prog)))
        models = [explicit_flags(model) if case.get('flags') else model] * n
        runs = rx_execute(models, host, 'fresh', ftexts=files_text(fprogs))

        def per_run(i, out):
            bad = [('no-host-exception', 'result or BareScriptRuntimeError', out['hostexc'])] if 'hostexc' in out else []
            bad += oracle_run(prog, host, out, fprogs)
            if not bad and out != runs[0]['out']:
                bad.append(('same-outcome-as-first-execution', runs[0]['out'], out))
            return bad
    else:
        raise ValueError(fam)
    if outcomes is not None:
        outcomes.extend(run['out'] for run in runs)
    for i, run in enumerate(runs):
        bad = per_run(i, run['out'])
        if bad:
            return rx_first(bad, i, n)
    return after() if after is not None else []


def rx_directed_cases(ctx, thorough_all):
    """the closed-form families"""
    cells = list(binding_cells())
    # (a) the whole calling-convention matrix, one parsed model object executed 3 times; quick: two of the four schedules per cell
    #     (rotating) and parsed / explicit-flag model alternating, thorough: everything
    for ci, cell in enumerate(cells):
        for si, schedule in enumerate(RX_SCHEDULES):
            for flags in (False, True):
                if thorough_all or ((ci + si) % 2 == 0 and flags == bool((ci // 2 + si // 2) % 2)):
                    yield {'family': 'binding', 'cell': list(cell), 'flags': flags, 'schedule': schedule, 'runs': 3 if (ci + si) % 3 else 2}
    # (b) SCALE axis on the number of executions of one model object
    for params, rest in RX_SHAPES:
        for n in RX_EXECUTION_SIZES:
            for schedule in (RX_SCHEDULES if n <= 3 else RX_SCHEDULES[:2]):
                yield {'family': 'binding', 'cell': [params, rest, 5, 'direct', 0], 'flags': False, 'schedule': schedule, 'runs': n}
    # (c) partial histories: the base-reuse family by every path and the small sizes of the scale families, 2-3 executions
    for hi, (tag, hist) in enumerate(ph_directed()):
        if tag.startswith('base-reuse') or tag.split(':')[1] in ('0', '1', '2', '9', '17'):
            yield {'family': 'history', 'hist': hist, 'schedule': RX_SCHEDULES[hi % 4], 'runs': 2 + hi % 2, 'tag': tag.split(':')[0]}
    # (d) the function statement reached several times in ONE run: nested in a function body (hand-built), in a top-level jump loop
    for params, rest in RX_SHAPES:
        for nargs in (0, 1, 2, 3, 5):
            for path in ('direct', 'partial', 'indexof'):
                if nargs >= 1 or path == 'direct':
                    for runs, schedule in ((1, 'fresh'), (2, 'fresh'), (2, 'same-globals')):
                        yield {'family': 'nested', 'params': params, 'rest': rest, 'nargs': nargs, 'path': path, 'calls': 3, 'runs': runs,
                               'schedule': schedule}
            for iterations, runs, schedule in ((2, 1, 'fresh'), (3, 2, 'same-options'), (4, 3, 'fresh-then-first')):
                yield {'family': 'loop', 'params': params, 'rest': rest, 'nargs': nargs, 'iterations': iterations, 'runs': runs,
                       'schedule': schedule}
    # (e) two models binding the same name with different parameter lists, executed in turn (A B A B)
    for a, b in itertools.permutations(RX_SHAPES[:8], 2):
        for si, schedule in enumerate(RX_SCHEDULES):
            if thorough_all or (RX_SHAPES.index(a) + RX_SHAPES.index(b) + si) % 2 == 0:
                yield {'family': 'alternate', 'shapes': [list(a), list(b)], 'nargs': 4, 'schedule': schedule, 'runs': 4,
                       'path': ('direct', 'partial', 'variable', 'parameter')[si]}


def rx_nontrivial(case):
    fam = case['family']
    if fam == 'binding':
        return len(case['cell'][0]) > 0 and case['runs'] >= 2
    if fam == 'history':
        return bool(case['hist']['params'])
    if fam == 'alternate':
        return True
    return len(case['params']) > 0


def rx_tags(case):
    fam = case['family']
    tags = ['family:' + fam, 'schedule:' + case.get('schedule', 'fresh'), f"executions:{case['runs']}"]
    if fam == 'binding':
        tags += ['path:' + case['cell'][3], f"params{len(case['cell'][0])}" + ('...' if case['cell'][1] else '')]
        tags += ['explicit-lastArgArray'] if case.get('flags') else []
    elif fam == 'history':
        tags += [case['tag'], f"params{len(case['hist']['params'])}" + ('...' if case['hist']['rest'] else '')]
    elif fam in ('nested', 'loop'):
        tags += [f"params{len(case['params'])}" + ('...' if case['rest'] else '')] + (['path:' + case['path']] if fam == 'nested' else [])
    return tags


def stream_reexec(ctx):
    st = ctx.stream('reexec', 'ONE parsed model object executed again (a host that parses once and runs many times): (a) every cell of the '
                              'calling-convention matrix of `binding` (parameters x `...` x duplicate name x 0-5 arguments x direct / variable / '
                              'parameter / every partial split / partial of a partial / arrayIndexOf / arraySort), parsed and hand-built '
                              'explicit-flag model, executed 2-3 times under the schedules {fresh globals and options every time, one globals '
                              'object, one options object, fresh twice then the first globals again}; after the last execution the function '
                              'value left by every execution is called from the host; (b) SCALE on the number of executions: 1,2,3,9,10,11,16,'
                              '17,64,65 executions of one model x 10 parameter shapes; (c) partial histories of `partialhist` (base re-use by every '
                              'path, siblings / bound arguments / chains of size 0,1,2,9,17; random histories) executed 2-3 times; (d) the '
                              'function statement reached several times in one run: nested in a function body called 3 times [hand-built; also '
                              'against the Lean machine and the reference] and inside a top-level jump loop of 2-4 iterations, each executed 1-3 '
                              'times; (e) two models that bind ff with different parameter lists executed in turn A B A B; (f) generated '
                              'programs of `calls` / `sort` / `includes` / `sidefx` (call-backs, partials, includes) executed 3 times with fresh '
                              'globals: every execution against the Python reference, the Lean machine [where modelled] and equal to the first. '
                              'EVERY execution must log the closed binding formula. Implementation-side oracles: the Lean machine has no identity '
                              'of a parsed model, a model run always starts from the syntax tree; non-trivial = at least one parameter and the '
                              'function statement executed at least twice')
    cases = list(rx_directed_cases(ctx, ctx.scale(0, 1) == 1))
    rng = ctx.rng('reexec')
    for i in range(ctx.scale(60, 1500)):
        hist, tags = ph_random(rng, allow_sort=(i % 4 == 3))
        cases.append({'family': 'history', 'hist': hist, 'schedule': RX_SCHEDULES[i % 4], 'runs': 2 + i % 2, 'tag': 'random'})
    modelled = {}
    for i in range(ctx.scale(150, 4000)):
        sort = i % 4 == 3
        gen = (NestGen if i % 3 == 2 else IncludeGen if i % 3 == 1 else CallGen)(rng, allow_sort=sort)
        prog = gen.program()
        cases.append({'family': 'program', 'prog': prog, 'fprogs': getattr(gen, 'files', None), 'globals': gen.host(), 'flags': i % 2 == 1,
                      'runs': 3, 'schedule': 'fresh', 'tags': sorted(gen.tags)})
        if not sort:
            modelled[len(cases) - 1] = exec_request(prog, cases[-1]['globals'], cases[-1]['fprogs'])
    for ix, case in enumerate(cases):
        if case['family'] == 'nested' and case['schedule'] == 'fresh':
            model = to_model(rx_nested_program(case['params'], case['rest'], case['nargs'], case['path'], case['calls']))
            modelled[ix] = {'op': 'exec', 'script': progen.canon_script(model), 'globals': [], 'max': MAX_STATEMENTS, 'fuel': FUEL}
    order = sorted(modelled)
    resps = dict(zip(order, ctx.driver.batch([modelled[ix] for ix in order])))
    failed = set()
    for ix, case in enumerate(cases):
        scale_key = json.dumps([case['cell'][:2], case['schedule']]) if case['family'] == 'binding' and case['runs'] > 3 else None
        if scale_key in failed:
            continue                                            # a smaller number of executions of this shape already is a witness
        outcomes = []
        bad = check_reexec(case, outcomes)
        if case['family'] == 'program':
            outcome = 'hostexc' if 'hostexc' in outcomes[0] else 'exceeded' if budget_exceeded(outcomes[0]) else 'error' if 'error' in outcomes[0] else 'ok'
            st.case([case['prog'], case['globals'], case['flags'], case['fprogs']],
                    nontrivial=outcome == 'ok' and any(ln for ln in outcomes[0]['log']), tags=rx_tags(case) + case['tags'] + [outcome])
        else:
            st.case(case, nontrivial=rx_nontrivial(case), tags=rx_tags(case))
        if ix in resps:
            for i, out in enumerate(outcomes):
                ctx.compare('reexec', {'kind': 'reexec', 'case': case, 'execution': i + 1}, out, progen.canon_model_out(resps[ix]))
        witness_all(ctx, 'reexec', {'case': case}, bad)
        if bad and scale_key is not None:
            failed.add(scale_key)
    st.exhaustive = False


# ---------------------------------------------------------------------------------------------------------------------
# A FUNCTION STATEMENT REACHED SEVERAL TIMES WITHIN ONE RUN, the name rebound between the passes (R10C04-m1 family).  "a script-defined
# function replaces a library function of the same name": the clause is about every EXECUTION of the function statement, not about the
# first one - a definition in a while / for body, one reached again through a jump back, two definitions of one name selected
# alternately by an if / else, a loop in a function body or in an included script, a definition in a function body that is called
# several times.  Between two passes the name is rebound by every rebinding action of this module (systemGlobalSet to the binding the
# name had at the start [the library function], another library function, a script function, a partial, null, a number; a top-level
# assignment; an include that defines or assigns it; another function statement of that name).  Whatever an execution keeps per
# statement, the k-th execution of the statement binds the global again: closed-form log (after every pass and after every rebinding
# a call of the name reaches the body that the LAST executed binding names).
# ---------------------------------------------------------------------------------------------------------------------

RD_NAMES = [('script', 'fa'), ('library', 'arrayNew'), ('library', 'arrayLength'), ('library', 'objectGet'), ('library', 'stringLength'),
            ('unbound', 'zz'), ('host-function', 'zz'), ('host-value', 'zz'), ('host-null', 'zz'), ('host-shadow', 'arrayLength')]
RD_SHAPES = ['while', 'for', 'jump', 'alternate', 'function-while', 'function-calls', 'included']
RD_ACTIONS = ['none', 'gset-own', 'gset-lib', 'gset-script', 'gset-null', 'gset-value', 'gset-partial', 'assign', 'assign-own',
              'include-function', 'include-assign', 'function-other']
RD_TOP_ONLY = ('assign', 'assign-own')                   # inside a function body an assignment makes a local (the `scope` matrix)
RD_SCALE_PASSES = [2, 9, 10, 11, 16, 17, 64, 65, 100, 101, 128, 129, 256, 1000]
RD_MODEL_PASSES = 5


def rd_before(before, name):
    """-> (host globals spec, the binding of `name` when the script starts)"""
    return {'script': ({}, ('script', 'old')), 'library': ({}, ('lib', name)), 'unbound': ({}, 'null'),
            'host-function': ({name: {'$lib': 'arrayNew'}}, ('lib', 'arrayNew')), 'host-value': ({name: 7}, 'value'),
            'host-null': ({name: None}, 'null'), 'host-shadow': ({name: {'$lib': 'arrayGet'}}, ('lib', 'arrayGet'))}[before]


def rd_other_lib(name):
    return 'arrayLength' if name == 'arrayNew' else 'arrayNew'


def rd_after(action, binding, saved, name):
    return {'none': binding, 'gset-own': saved, 'gset-lib': ('lib', rd_other_lib(name)), 'gset-script': ('script', 'new'), 'gset-null': 'null',
            'gset-value': 'value', 'gset-partial': 'partial', 'assign': ('script', 'new'), 'assign-own': saved,
            'include-function': ('script', 'inc'), 'include-assign': ('script', 'new'), 'function-other': ('script', 'oth')}[action]


def rd_outcome(binding, args):
    """a call of a name bound to `binding` (never null here) -> (log lines, result)"""
    mods = fw.impl()
    vs = mods['value'].value_string
    if isinstance(binding, tuple) and binding[0] == 'script':
        return [f'{binding[1]}:{vs(args[0])}:{vs(args[1])}'], binding[1]
    if binding == 'partial':
        return [f'new:b:{vs(args[0])}'], 'new'
    if isinstance(binding, tuple):                                   # ('lib', library function name)
        try:
            return [], mods['library'].SCRIPT_FUNCTIONS[binding[1]](list(args), {'globals': {}})
        except Exception as exc:  # pylint: disable=broad-except
            return [], exc.return_value if isinstance(exc, mods['value'].ValueArgsError) else None
    return [], None                                                  # a bound non-function: the call yields null


def rd_action_stmts(name, action):
    gset = lambda e: [asg(None, call('systemGlobalSet', string(name), e))]  # noqa: E731
    return {'none': [asg('nop', num(0))], 'gset-own': gset(var('saved')), 'gset-lib': gset(var(rd_other_lib(name))), 'gset-script': gset(var('nw')),
            'gset-null': gset(var('null')), 'gset-value': gset(num(5)), 'gset-partial': gset(call('systemPartial', var('nw'), string('b'))),
            'assign': [asg(name, var('nw'))], 'assign-own': [asg(name, var('saved'))],
            'include-function': [{'k': 'include', 'includes': [{'url': 'def.bare'}]}],
            'include-assign': [{'k': 'include', 'includes': [{'url': 'asg.bare'}]}],
            'function-other': [fdef(name, ['v', 'w'], rb_marker('oth'))]}[action]


def rd_guarded_call(name, tag, second):
    """if the name is bound to null, log that; else call it and probe the result"""
    return {'k': 'if', 'c': wf_binary('!=', call('systemGlobalGet', string(name)), var('null')),
            't': [asg('r2', call(name, string(tag), second))] + probe_stmts('r2'), 'else': {'k': 'else', 'b': [log_stmt(string('null-bound'))]}}


def rd_def_tag(shape, k):
    return ('even', 'odd')[k % 2] if shape == 'alternate' else 'def'


def rd_pieces(name, shape, seq, passes):
    """-> (first: the definition(s) + a call, rest: rebinding action of this pass + guarded call)"""
    if shape == 'alternate':
        definition = {'k': 'if', 'c': wf_binary('==', wf_binary('%', var('ix'), num(2)), num(0)), 't': [fdef(name, ['v', 'w'], rb_marker('even'))],
                      'else': {'k': 'else', 'b': [fdef(name, ['v', 'w'], rb_marker('odd'))]}}
    else:
        definition = fdef(name, ['v', 'w'], rb_marker('def'))
    first = [definition, asg('r1', call(name, string('a'), var('ix')))] + probe_stmts('r1')
    if len(set(seq)) == 1:
        act = rd_action_stmts(name, seq[0])
    else:
        node = None
        for k in reversed(range(len(seq))):
            cond = wf_binary('==', wf_binary('%', var('ix'), num(len(seq))), num(k))
            node = {'k': 'if' if k == 0 else 'elif', 'c': cond, 't': rd_action_stmts(name, seq[k]), 'else': node}
        act = [node]
    return first, act + [rd_guarded_call(name, 'b', var('ix'))]


def rd_loop(shape, body, passes):
    incr = asg('ix', wf_binary('+', var('ix'), num(1)))
    if shape == 'for':
        return [{'k': 'for', 'value': 'ix', 'index': None, 'vals': call('arrayNew', *[num(i) for i in range(passes)]), 'b': body}]
    if shape == 'jump':
        return [asg('ix', num(0)), {'k': 'label', 'name': 'again'}] + body + \
            [incr, {'k': 'jump', 'name': 'again', 'c': wf_binary('<', var('ix'), num(passes))}]
    return [asg('ix', num(0)), {'k': 'while', 'c': wf_binary('<', var('ix'), num(passes)), 'b': body + [incr]}]


def rd_build(case):
    """-> (implementation model, {url: text}, host globals spec, expected log, max statements)"""
    before, name, shape, seq, passes = case['before'], case['name'], case['shape'], case['actions'], case['passes']
    host, b_before = rd_before(before, name)
    text_of = lambda stmts: '\n'.join(progen.render(stmts)) + '\n'  # noqa: E731
    stmts_of = lambda stmts: parse(text_of(stmts))['statements']  # noqa: E731
    files = {'def.bare': [fdef(name, ['v', 'w'], rb_marker('inc'))], 'asg.bare': [asg(name, var('nw'))]}
    prelude = [fdef('nw', ['v', 'w'], rb_marker('new'))] + ([fdef(name, ['v', 'w'], rb_marker('old'))] if before == 'script' else []) + \
        [asg('saved', call('systemGlobalGet', string(name)))]
    first, rest = rd_pieces(name, shape, seq, passes)
    final = [rd_guarded_call(name, 'c', num(passes))]
    if shape == 'function-while':
        # hand-built: the lowered loop (with the function statement) is the body of main()
        model = {'statements': stmts_of(prelude) + [{'function': {'name': 'main', 'statements': stmts_of(rd_loop('while', first + rest, passes) + final)}},
                                                    {'expr': {'name': 'out', 'expr': progen.impl_expr(call('main'))}}]}
    elif shape == 'function-calls':
        # hand-built: the function statement stands in the body of outer(ix), which is called once per pass of a top-level loop
        model = {'statements': stmts_of(prelude) + [{'function': {'name': 'outer', 'args': ['ix'], 'statements': stmts_of(first)}}] +
                 stmts_of(rd_loop('while', [asg('out', call('outer', var('ix')))] + rest, passes) + final)}
    elif shape == 'included':
        files['loop.bare'] = rd_loop('while', first + rest, passes) + final
        model = parse(text_of(prelude + [{'k': 'include', 'includes': [{'url': 'loop.bare'}]}]))
    else:
        model = parse(text_of(prelude + rd_loop(shape, first + rest, passes) + final))
    # closed form
    log, binding = [], b_before
    for k in range(passes):
        binding = ('script', rd_def_tag(shape, k))                    # the function statement has just been executed
        lines, res = rd_outcome(binding, ['a', float(k)])
        log += lines + probe_lines(res)
        binding = rd_after(seq[k % len(seq)], binding, b_before, name)
        if binding == 'null':
            log.append('null-bound')
        else:
            lines, res = rd_outcome(binding, ['b', float(k)])
            log += lines + probe_lines(res)
    if binding == 'null':
        log.append('null-bound')
    else:
        lines, res = rd_outcome(binding, ['c', float(passes)])
        log += lines + probe_lines(res)
    return model, {url: text_of(fp) for url, fp in files.items()}, host, log, 200 + 60 * passes


def rd_request(case):
    model, ftexts, host, _, max_statements = rd_build(case)
    counter = [0]
    return {'op': 'exec', 'script': progen.canon_script(model, counter), 'globals': wire_globals(host), 'max': max_statements,
            'fuel': 40 * max_statements, 'files': [[url, progen.canon_script(parse(text), counter)] for url, text in sorted(ftexts.items())]}


def check_redefine(case, outcome=None):
    model, ftexts, host, want, max_statements = rd_build(case)
    impl = run_impl(model, host, max_statements=max_statements, ftexts=ftexts)
    if outcome is not None:
        outcome.append(impl)
    if 'error' in impl or 'hostexc' in impl or impl.get('log') != want:
        got = impl.get('log') if 'error' not in impl and 'hostexc' not in impl else {k: impl.get(k) for k in ('error', 'hostexc', 'log') if k in impl}
        return [('function-statement-rebinds-on-every-execution', want, got)]
    return []


def rd_modelled(case):
    return case['passes'] <= RD_MODEL_PASSES and (case['before'] != 'library' or case['name'] in MODEL_LIB)


def redefine_cases(ctx):
    def valid(shape, action, before=None):
        # the `for` statement is lowered to calls of the GLOBAL names arrayLength (once, before the first pass) and arrayGet (every pass): a
        # host that shadows arrayLength with something else has no working for loop (not this property's matter); arrayGet is never redefined
        return not (shape == 'function-while' and action in RD_TOP_ONLY) and not (shape == 'for' and before == 'host-shadow')
    # (a) exhaustive: binding before x shape x one rebinding action on every pass, 3 passes
    for before, name in RD_NAMES:
        for shape in RD_SHAPES:
            for action in RD_ACTIONS:
                if valid(shape, action, before):
                    yield {'before': before, 'name': name, 'shape': shape, 'actions': [action], 'passes': 3, 'part': 'matrix'}
    # (b) random action sequences (a different rebinding on every pass), 2 .. 2L+1 passes
    rng = ctx.rng('redefine')
    for _ in range(ctx.scale(400, 8000)):
        before, name = rng.choice(RD_NAMES)
        shape = rng.choice([sh for sh in RD_SHAPES if valid(sh, 'none', before)])
        seq = [rng.choice([a for a in RD_ACTIONS if valid(shape, a)]) for _ in range(rng.randint(2, 5))]
        yield {'before': before, 'name': name, 'shape': shape, 'actions': seq, 'passes': rng.randint(2, 2 * len(seq) + 1), 'part': 'random'}
    # (c) SCALE on the number of passes
    sizes = RD_SCALE_PASSES if ctx.scale(0, 1) == 1 else [n for n in RD_SCALE_PASSES if n <= 129]
    for before, name in (('library', 'arrayLength'), ('unbound', 'zz')):
        for shape in ('while', 'for', 'jump', 'alternate', 'function-while', 'included'):
            for actions in (['gset-own'], ['function-other'], ['include-assign', 'gset-lib', 'none']):
                for passes in sizes:
                    yield {'before': before, 'name': name, 'shape': shape, 'actions': actions, 'passes': passes, 'part': 'scale'}


def stream_redefine(ctx):
    st = ctx.stream('redefine', 'a function statement REACHED SEVERAL TIMES within one run with the name rebound between the passes: the name is {a '
                                'script function fa, the library functions arrayNew / arrayLength / objectGet / stringLength, a fresh name unbound / '
                                'host-bound to a function / a number / null, a library name the host shadows with another library function} x the '
                                'statement stands in {a while body, a for body, a label .. jumpif loop, an if / else of two definitions of the one '
                                'name taken alternately, a while loop in the body of a script function [hand-built], the body of a script function '
                                'called once per pass [hand-built], a while loop of an included script} x between the passes {nothing, '
                                'systemGlobalSet(name, the binding of the start [= the library function] / another library function / a script '
                                'function / null / a number / a partial), top-level assignment name = script function / name = binding of the start, '
                                'include of a script that defines `function name` / that assigns name, another function statement of that name}: '
                                '(a) exhaustive with 3 passes, (b) random sequences of 2-5 different actions over 2-11 passes, (c) SCALE 2,9,10,11,'
                                '16,17,64,65,100,101,128,129 (thorough: 256, 1000) passes. After the definition of every pass and after every '
                                'rebinding a call of the name must log the body of the LAST executed binding (closed form, implementation-side '
                                'oracle); up to 5 passes and modelled library names also execute_script vs the Lean machine (result, log, final '
                                'globals, statement count). Non-trivial = at least 2 passes and a rebinding action')
    cases = list(redefine_cases(ctx))
    order = [ix for ix, case in enumerate(cases) if rd_modelled(case)]
    resps = dict(zip(order, ctx.driver.batch([rd_request(cases[ix]) for ix in order])))
    failed = set()
    for ix, case in enumerate(cases):
        scale_key = json.dumps([case['before'], case['name'], case['shape'], case['actions']]) if case['part'] == 'scale' else None
        if scale_key in failed:
            continue                                            # a smaller number of passes of this family already is a witness
        outcome = []
        bad = check_redefine(case, outcome)
        st.case(case, nontrivial=case['passes'] >= 2 and any(a != 'none' for a in case['actions']),
                tags=['part:' + case['part'], 'before:' + case['before'], 'name:' + case['name'], 'shape:' + case['shape'], f"passes:{case['passes']}"] +
                sorted({'action:' + a for a in case['actions']}))
        if ix in resps:
            ctx.compare('redefine', {'kind': 'redefine', 'case': case}, outcome[0], progen.canon_model_out(resps[ix]))
        witness_all(ctx, 'redefine', {'case': case}, bad)
        if bad and scale_key is not None:
            failed.add(scale_key)
    st.exhaustive = False


def streams(ctx):
    stream_handbuilt(ctx)
    stream_binding(ctx)
    stream_spelling(ctx)
    stream_hostglobals(ctx)
    stream_exprmode(ctx)
    stream_includescope(ctx)
    stream_rebind(ctx)
    stream_redefine(ctx)
    stream_partialhist(ctx)
    stream_reexec(ctx)
    stream_calls(ctx)
    stream_sort(ctx)
    stream_includes(ctx)
    stream_sidefx(ctx)


def disagreement_known(d, known):
    return False


def search(ctx):
    """a proof obligation or the correspondence broke and no oracle has a witness yet: a larger budget of generated programs through the
    reference interpreter and the focused oracles, on the implementation alone"""
    rng = ctx.rng('search')
    for params, rest, blanks, is_async, _ in header_cases(rng, ctx.scale(5000, 60000)):
        header = header_text(params, rest, blanks, is_async)
        bad = oracle_header(header, params, rest)
        if bad:
            witness_all(ctx, 'header', {'header': header, 'params': params, 'rest': rest}, bad)
            return
    for cell in binding_cells():
        prog = binding_program(*cell)
        for flags, sp in ((False, False), (True, False), (False, True), (False, True)):
            text = spell_case(rng, prog)[0] if sp else '\n'.join(progen.render(prog))
            bad = check_binding_cell(cell, run_text(text, {}, flags))
            if bad:
                witness_all(ctx, 'binding', {'text': text, 'globals': {}, 'explicit_flags': flags, 'cell': list(cell)}, bad)
                return
    for case in rx_directed_cases(ctx, True):
        bad = check_reexec(case)
        if bad:
            witness_all(ctx, 'reexec', {'case': case}, bad)
            return
    for case in redefine_cases(ctx):
        bad = check_redefine(case)
        if bad:
            witness_all(ctx, 'redefine', {'case': case}, bad)
            return
    for cell in scope_cells():
        bad = check_scope_cell(cell)
        if bad:
            witness_all(ctx, 'include-scope', {'cell': cell}, bad)
            return
    for cell in rebind_cells():
        bad = check_rebind_cell(cell) if not (cell[0] == 'library' and cell[1] == 'gset-lib') else []
        if bad:
            witness_all(ctx, 'rebind', {'cell': cell}, bad)
            return
    for name, mode, before, after in rebind_host_cases():
        bad = oracle_rebind_host(name, mode, before, after)
        if bad:
            witness_all(ctx, 'rebind-host', {'name': name, 'mode': mode, 'before': before, 'after': after}, bad)
            return
    for hist in [h for _, h in ph_directed()] + [ph_random(rng, True)[0] for _ in range(ctx.scale(3000, 30000))]:
        bad = check_partial_history(hist)
        if bad:
            witness_all(ctx, 'partial-history', {'hist': hist}, bad)
            return
    for i in range(ctx.scale(8000, 60000)):
        gen = (NestGen if i % 6 == 5 else IncludeGen if i % 3 == 2 else CallGen)(rng, allow_sort=(i % 4 == 0))
        prog = gen.program()
        host = gen.host()
        files = getattr(gen, 'files', None)
        flags = i % 2 == 1
        text, ftexts = '\n'.join(progen.render(prog)), files_text(files)
        if i % 4 >= 2:
            flags = False
            text, ftexts, _ = spell_case(rng, prog, files)
        impl = run_text(text, host, flags, ftexts=ftexts)
        bad = oracle_run(prog, host, impl, files)
        if bad:
            witness_all(ctx, 'program', {'text': text, 'globals': host, 'explicit_flags': flags, 'prog': prog, 'fprogs': files,
                                         'files': ftexts}, bad)
            return


def replay(witness):
    inp = witness['input']
    kind = inp.get('kind')
    oracle = witness.get('oracle')
    if kind == 'program':
        impl = run_text(inp['text'], inp['globals'], inp.get('explicit_flags'), files=inp.get('fprogs'), ftexts=inp.get('files'))
        if oracle == 'no-host-exception':
            return 'hostexc' in impl
        bad = oracle_run(inp['prog'], inp['globals'], impl, inp.get('fprogs'))
    elif kind == 'include-scope':
        bad = check_scope_cell(inp['cell'])
    elif kind == 'include-transparent':
        bad = oracle_include_transparent(inp['fprogs'], inp['url'], inp['globals'], inp['wrapper'])
    elif kind == 'partial-history':
        bad = check_partial_history(inp['hist'])
    elif kind == 'rebind':
        bad = check_rebind_cell(inp['cell'])
    elif kind == 'reexec':
        bad = check_reexec(inp['case'])
    elif kind == 'redefine':
        bad = check_redefine(inp['case'])
    elif kind == 'rebind-host':
        bad = oracle_rebind_host(inp['name'], inp['mode'], inp['before'], inp['after'])
    elif kind == 'handbuilt':
        impl = run_impl(inp['model'], inp['globals'])
        if oracle == 'no-host-exception':
            return 'hostexc' in impl
        bad = oracle_run(inp['prog'], inp['globals'], impl)
    elif kind == 'binding':
        impl = run_text(inp['text'], {}, inp.get('explicit_flags'))
        bad = check_binding_cell(tuple(inp['cell']), impl)
    elif kind == 'header':
        bad = oracle_header(inp['header'], inp['params'], inp['rest'])
    elif kind == 'rest-fresh':
        bad = oracle_rest_fresh(inp['nparams'], inp['nargs'])
    elif kind == 'host-injection':
        bad = oracle_host_injection(inp['globals'])
    elif kind == 'exprmode':
        bad = oracle_expression_mode(inp['name'])
    else:
        return False
    return any(name == oracle for name, _, _ in bad)


LEVEL_TEXT = ('Theorems about the Lean mirror of runtime.py (evaluate_expression, the call wrapper, _script_function, '
              '_execute_script_helper) and of the library injection of execute_script, for all programs, argument lists, states, fuel and for '
              'every host (the host record is a parameter): the parameter-binding loop equals the documented binding (position i gets '
              'argument i, missing -> null, surplus ignored, the last parameter of a `...` function gets the fresh array host.newArray '
              '(args.drop (n-1)), a repeated name keeps its last position; the locals bind exactly the parameter names); a call builds its '
              'locals from the empty dictionary; an assignment inside a function writes that call\'s locals, at top level the globals '
              'object; one frame invariant (induction on fuel, expressions and library interaction trees) shows that a function body - with '
              'all nested calls, call-backs and includes - changes the globals only at names written by `function` statements, library '
              'globalSet requests or top-level statements of included scripts, hence not at all when there are none (globals\' = globals); '
              'an `include` statement hands the included scripts to execIncludes, which has no access to the including scope\'s locals, runs '
              'each fetched script with locals = none (a top-level script, whatever scope issued the include) and the including scope '
              'continues with the locals it had; '
              'variable lookup is locals, globals, null and function lookup is locals, globals, built-ins-only-if-enabled, so a bound name '
              'always wins over a built-in; injection keeps every host binding and the host order and binds the remaining names to the '
              'library; a `function` statement rebinds the global to the script function whatever was there; direct calls, call-backs of '
              'library trees and partial applications all go through the one callValue, so the binding theorem applies on every path. Tie: '
              'differential runs (result, log, final globals, statement count) of generated call programs, an exhaustive '
              'parameters x arguments x call-path matrix, an exhaustive include-position x local-binding x global-state matrix, the '
              'definition line in every white-space spelling (exhaustive blank / no blank at each boundary, each boundary x tab, Unicode spaces, '
              'line continuation) and a third of all generated programs re-spelled at random, generated '
              'programs with include statements in every scope and host-shadowing configurations, an exhaustive matrix of calls whose own '
              'arguments rebind the callee (binding before x rebinding action x call site), generated programs with side-effecting '
              'arguments and rebinding of function names, histories of partial applications used again after they served as the base of '
              'other partials (aliasing families x sizes up to 1000) against the compiled model, one parsed model object executed 2-65 times under four '
              'globals / options schedules for the whole calling-convention matrix, partial histories, repeated function statements and generated programs, a '
              'function statement executed 2-1000 times within one run (loop bodies, jumps back, alternating definitions, function bodies, included loops) with '
              'every rebinding action between the passes, and an '
              'independent Python reference of the convention plus closed-form and metamorphic oracles run on the implementation.')
LEVEL_NOTE = ('Trusted: Lean kernel; the correspondence harness with its reference interpreter. The Lean host models 18 library functions; '
              'arraySort comparators and the expression-mode built-in table are checked on the implementation only (the lookup theorems hold '
              'for any built-in table). A library predicate that fails inside arrayIndexOf is outside the model. Theorems are about the Lean '
              'model of runtime.py, tied to the code by sampling.')
