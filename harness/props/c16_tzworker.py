"""
C16 time-zone worker. Run as:  TZ=<zone> /venv/bin/python c16_tzworker.py <repo_src>   (JSON lines on stdin -> JSON lines on stdout)

The process time zone is fixed by the environment before Python starts, so `astimezone()` inside the implementation
sees <zone>. Independent reference for offsets / existence of local times: `zoneinfo.ZoneInfo(<zone>)` (PEP 615, reads the
TZif file itself) cross-checked with the C library (`time.mktime` / `time.localtime`).

request kinds
  {"kind":"rt","args":[y,mo,d,h,mi,s,ms],"us":0..999}   datetimeNew (+ optional extra microseconds) -> datetimeISOFormat -> datetimeISOParse
  {"kind":"parse","text":"...","sub":bool}      datetimeISOParse of arbitrary text (optionally as a str subclass), by value_parse_datetime, by the library
                                                function and through evaluate_expression (+ reference offset if the text is a valid ISO datetime)
  {"kind":"arith","args":[...],"n":int,"as_int":bool,"us":0..999}   (d + n) - d through evaluate_expression (d optionally with extra microseconds)
  {"kind":"host", ...}                          a HOST-supplied datetime (sub-millisecond, timezone-aware, fold=1, datetime/date subclass, plain date) and a
                                                host-supplied number (int/float subclass, IntEnum): (d + n) - d, (n + d) - d, ((d + n) + m) - (d + n) through
                                                evaluate_expression or execute_script, and the ISO round trip of d (see host())
  {"kind":"forms","vals":[form,...],"n":int,"nkind":..}   every datetime CONSUMER (7 getters, datetimeISOFormat +- isDate, stringNew, jsonStringify, d + n, n + d,
                                                d - e, the six comparisons, dataSort) on HOST INPUT FORMS: form = {"wall":[y,mo,d,h,mi,s,us]} naive / date
                                                or {"tz": "utc" | zone name | {"s":sec,"us":usec,"custom":0/1}, "utc_us": microseconds since 0001-01-01T00:00Z},
                                                optional "cls" (sub | date | datesub) and "fold"; reference = C localtime() of the POSIX timestamp
                                                cross-checked with zoneinfo (see form_value())

TZ may also be a POSIX fixed-offset string '<-0330>3:30' (any whole-minute offset, no tz database entry needed); the reference zone is then
datetime.timezone(<that offset>).
"""

import datetime
import enum
import json
import os
import re
import sys
import time
import zoneinfo

sys.path.insert(0, sys.argv[1])
from bare_script import library, parser, runtime, value  # noqa: E402  pylint: disable=wrong-import-position

ZONE = os.environ['TZ']
_FIXED = re.fullmatch(r'<([+-])([0-9]{2})([0-9]{2})>(-?)([0-9]{1,2})(?::([0-9]{2}))?', ZONE)
if _FIXED:
    # POSIX fixed offset: the name in <> is the ISO sign convention, the number after it the POSIX one (west positive); both must agree
    _MIN = (int(_FIXED.group(2)) * 60 + int(_FIXED.group(3))) * (-1 if _FIXED.group(1) == '-' else 1)
    _POSIX_MIN = (int(_FIXED.group(5)) * 60 + int(_FIXED.group(6) or 0)) * (1 if _FIXED.group(4) == '-' else -1)
    if _MIN != _POSIX_MIN:
        raise SystemExit('inconsistent fixed-offset TZ string ' + ZONE)
    Z = datetime.timezone(datetime.timedelta(minutes=_MIN))
else:
    Z = zoneinfo.ZoneInfo(ZONE)
UTC = datetime.timezone.utc
FN = library.SCRIPT_FUNCTIONS

STRICT_DT = re.compile(r'([0-9]{4})-([0-9]{2})-([0-9]{2})T([0-9]{2}):([0-9]{2}):([0-9]{2})(?:\.([0-9]{1,6}))?(Z|[+-][0-9]{2}:[0-9]{2})', re.ASCII)


def parts(d):
    if d is None:
        return None
    if not isinstance(d, datetime.datetime):
        return {'error': 'not-a-datetime:' + type(d).__name__}
    if d.tzinfo is not None:
        return {'error': 'aware-datetime'}
    if d.microsecond % 1000:
        return {'error': 'sub-millisecond:%d' % d.microsecond}
    return [d.year, d.month, d.day, d.hour, d.minute, d.second, d.microsecond // 1000]


def call(name, args):
    """Call a library function the way the runtime's call wrapper does (any exception -> null, class recorded)."""
    try:
        return FN[name](args, None), None
    except value.ValueArgsError as exc:
        return exc.return_value, 'ValueArgsError'
    except Exception as exc:  # pylint: disable=broad-except
        return None, type(exc).__name__


def secs(td):
    return None if td is None else td.days * 86400 + td.seconds


def libc_exists(d):
    """Does the naive local time survive mktime -> localtime? -> (exists, gmtoff)"""
    try:
        ts = time.mktime((d.year, d.month, d.day, d.hour, d.minute, d.second, 0, 0, -1))
        lt = time.localtime(ts)
    except (OverflowError, ValueError, OSError):
        return None, None
    return tuple(lt[:6]) == (d.year, d.month, d.day, d.hour, d.minute, d.second), lt.tm_gmtoff


def zi_exists(d):
    aware = d.replace(tzinfo=Z)
    off = aware.utcoffset()
    try:
        back = aware.astimezone(UTC).astimezone(Z).replace(tzinfo=None)
    except OverflowError:
        return None, secs(off)
    return back == d, secs(off)


DAY_US = 86400 * 10 ** 6
MAX_US = 3652059 * DAY_US          # microseconds from 0001-01-01T00:00 to the end of year 9999
CYCLE_US = 146097 * DAY_US         # 400 Gregorian years: a whole number of weeks, so every zone rule falls on the same dates
EPOCH1_UTC = datetime.datetime(1, 1, 1, tzinfo=UTC)
UNIX_US = (datetime.date(1970, 1, 1).toordinal() - 1) * DAY_US


def ref_offset_at(text):
    """For text that is a syntactically strict ISO datetime with valid fields: the UTC offset (seconds) of ZONE at that
    instant per zoneinfo and per libc, and the expected local parts per zoneinfo (None = the UTC instant or the local
    time falls outside years 1..9999). Integer arithmetic, so instants at the ends of the range are handled. Else None."""
    m = STRICT_DT.fullmatch(text)
    if not m:
        return None
    y, mo, d, h, mi, s = (int(m.group(i)) for i in range(1, 7))
    frac = m.group(7) or ''
    us = int((frac + '000000')[:6]) if frac else 0
    zone = m.group(8)
    if zone == 'Z':
        off = 0
    else:
        oh, om = int(zone[1:3]), int(zone[4:6])
        if oh > 23 or om > 59:
            return None
        off = (oh * 3600 + om * 60) * (-1 if zone[0] == '-' else 1)
    try:
        datetime.datetime(y, mo, d, h, mi, s)
    except ValueError:
        return None
    local_us = ((datetime.date(y, mo, d).toordinal() - 1) * 86400 + h * 3600 + mi * 60 + s) * 10 ** 6 + us
    utc_us = local_us - off * 10 ** 6
    probe = utc_us
    while probe < 2 * DAY_US:
        probe += CYCLE_US
    while probe >= MAX_US - 2 * DAY_US:
        probe -= CYCLE_US
    zi_off = secs((EPOCH1_UTC + datetime.timedelta(microseconds=probe)).astimezone(Z).utcoffset())
    try:
        libc_off = time.localtime((utc_us - UNIX_US) // 10 ** 6).tm_gmtoff
    except (OverflowError, ValueError, OSError):
        libc_off = None
    out_us = utc_us + zi_off * 10 ** 6
    local = None
    if 0 <= utc_us < MAX_US and 0 <= out_us < MAX_US:
        local = parts(datetime.datetime(1, 1, 1) + datetime.timedelta(microseconds=out_us // 1000 * 1000))
    return {'zi': zi_off, 'libc': libc_off, 'local': local}


EXPR_LR = {'binary': {'op': '-', 'left': {'group': {'binary': {'op': '+', 'left': {'variable': 'd'}, 'right': {'variable': 'n'}}}},
                      'right': {'variable': 'd'}}}
EXPR_RL = {'binary': {'op': '-', 'left': {'group': {'binary': {'op': '+', 'left': {'variable': 'n'}, 'right': {'variable': 'd'}}}},
                      'right': {'variable': 'd'}}}
EXPR_SUM = {'binary': {'op': '+', 'left': {'variable': 'd'}, 'right': {'variable': 'n'}}}


def num_out(x):
    if x is None:
        return None
    if isinstance(x, bool) or not isinstance(x, (int, float)):
        return {'error': 'not-a-number:' + type(x).__name__}
    if x != x or x in (float('inf'), float('-inf')):
        return {'error': 'non-finite'}
    if x == int(x):
        return int(x)
    return {'inexact': repr(x)}


def arith(args, n, as_int, us=0):
    d, _ = call('datetimeNew', [float(a) for a in args])
    if d is None:
        return {'d': None}
    nv = int(n) if as_int else float(n)
    out = {'d': parts(d)}
    if us:
        d = d.replace(microsecond=d.microsecond + us)       # sub-millisecond host datetime; `d` in the answer stays the value cut to the millisecond
    for key, expr in (('lr', EXPR_LR), ('rl', EXPR_RL)):
        try:
            out[key] = num_out(runtime.evaluate_expression(expr, None, {'d': d, 'n': nv}))
        except Exception as exc:  # pylint: disable=broad-except
            out[key] = {'error': type(exc).__name__}
    try:
        out['sum'] = parts_floor(runtime.evaluate_expression(EXPR_SUM, None, {'d': d, 'n': nv}))
    except Exception as exc:  # pylint: disable=broad-except
        out['sum'] = {'error': type(exc).__name__}
    return out


class HostDatetime(datetime.datetime):
    """What a host application may hand over: its own subclass of datetime."""


class HostDate(datetime.date):
    pass


class HostInt(int):
    pass


class HostStr(str):
    pass


EXPR_PARSE = {'function': {'name': 'datetimeISOParse', 'args': [{'variable': 't'}]}}


class HostFloat(float):
    pass


def host_number(n, nkind):
    if nkind == 'int':
        return int(n)
    if nkind == 'intsub':
        return HostInt(n)
    if nkind == 'floatsub':
        return HostFloat(n)
    if nkind == 'intenum':
        return enum.IntEnum('HostEnum', {'N': int(n)}).N        # pylint: disable=no-member
    return float(n)


def parts_floor(d):
    """[y, mo, d, h, mi, s, ms] cut to the millisecond (sub-millisecond datetimes are legal host values), None for null."""
    if d is None:
        return None
    if not isinstance(d, datetime.datetime):
        return {'error': 'not-a-datetime:' + type(d).__name__}
    if d.tzinfo is not None:
        return {'error': 'aware-datetime'}
    return [d.year, d.month, d.day, d.hour, d.minute, d.second, d.microsecond // 1000]


def iso_block(d_impl, loc):
    """ISO text round trip of the value d_impl as the implementation sees it; loc = the naive local datetime it denotes (reference)."""
    out = {}
    text, err = call('datetimeISOFormat', [d_impl])
    out['text'] = text if isinstance(text, str) else {'error': str(err or type(text).__name__)}
    dtext, err = call('datetimeISOFormat', [d_impl, True])
    out['datetext'] = dtext if isinstance(dtext, str) else {'error': str(err or type(dtext).__name__)}
    if isinstance(text, str):
        p, err = call('datetimeISOParse', [text])
        out['p'] = parts(p) if err is None else {'error': err}
        out['ref'] = ref_offset_at(text)
    if isinstance(dtext, str):
        p, err = call('datetimeISOParse', [dtext])
        out['pd'] = parts(p) if err is None else {'error': err}
    zi_ok, zi_off = zi_exists(loc)
    lc_ok, lc_off = libc_exists(loc)
    try:
        os_off = secs(loc.astimezone().utcoffset())
    except (OverflowError, ValueError, OSError):
        os_off = None
    out['fold'] = bool(zi_ok) and loc.replace(tzinfo=Z, fold=1).utcoffset() != loc.replace(tzinfo=Z, fold=0).utcoffset()
    out.update({'zi_exists': zi_ok, 'zi_off': zi_off, 'libc_exists': lc_ok, 'libc_off': lc_off, 'os_off': os_off})
    return out


HOST_SCRIPT = parser.parse_script('''\
e = d + n
r1 = e - d
r2 = (n + d) - d
r3 = (e + m) - e
r4 = (m + e) - e
return arrayNew(r1, r2, e, r3, r4)
''')


def host_value(req):
    """The host-supplied datetime of a request -> (value handed to the implementation, naive local datetime it denotes per the
    reference zone, the same per the C library)"""
    y, mo, dd, h, mi, s, ms = req['p']
    us = ms * 1000 + req.get('us', 0)
    cls = req.get('cls', 'datetime')
    if cls in ('date', 'datesub'):
        d = (HostDate if cls == 'datesub' else datetime.date)(y, mo, dd)
        loc = datetime.datetime(y, mo, dd)
        return d, loc, loc
    tz = req.get('tz')
    if tz is None:
        tzinfo = None
    elif isinstance(tz, str):
        tzinfo = UTC if tz == 'utc' else zoneinfo.ZoneInfo(tz)
    else:
        tzinfo = datetime.timezone(datetime.timedelta(minutes=tz))
    d = (HostDatetime if cls == 'sub' else datetime.datetime)(y, mo, dd, h, mi, s, us, tzinfo=tzinfo, fold=1 if req.get('fold') else 0)
    if tzinfo is None:
        return d, d, d
    try:
        # through UTC: astimezone(d.tzinfo) would be the identity. fold=0: BareScript datetimes are naive local values and the C library's
        # astimezone() never marks the second pass of a repeated hour, so an aware instant there denotes the (ambiguous) wall time
        loc = d.astimezone(UTC).astimezone(Z).replace(tzinfo=None, fold=0)
    except OverflowError:
        loc = None
    try:
        loc_os = d.astimezone().replace(tzinfo=None)
    except (OverflowError, ValueError, OSError):
        loc_os = None
    return d, loc, loc_os


def host(req):
    d, loc, loc_os = host_value(req)
    out = {'local': parts_floor(loc), 'local_us': None if loc is None else loc.microsecond % 1000, 'agree': loc is not None and loc == loc_os}
    if loc is None:
        return out
    nv = host_number(req['n'], req.get('nkind', 'float'))
    mv = host_number(req.get('m', 0), 'float')
    if req.get('via') == 'script':
        try:
            res = runtime.execute_script(HOST_SCRIPT, {'globals': {'d': d, 'n': nv, 'm': mv}, 'maxStatements': 1000})
            if not isinstance(res, list) or len(res) != 5:
                raise TypeError('script result ' + type(res).__name__)
            out.update({'lr': num_out(res[0]), 'rl': num_out(res[1]), 'sum': parts_floor(res[2]), 'e_lr': num_out(res[3]), 'e_rl': num_out(res[4])})
        except Exception as exc:  # pylint: disable=broad-except
            out.update({'lr': {'error': type(exc).__name__}})
    else:
        e = None
        try:
            e = runtime.evaluate_expression(EXPR_SUM, None, {'d': d, 'n': nv})
            out['sum'] = parts_floor(e)
        except Exception as exc:  # pylint: disable=broad-except
            out['sum'] = {'error': type(exc).__name__}
        for key, expr, var_d, var_n in (('lr', EXPR_LR, d, nv), ('rl', EXPR_RL, d, nv), ('e_lr', EXPR_LR, e, mv), ('e_rl', EXPR_RL, e, mv)):
            try:
                out[key] = num_out(runtime.evaluate_expression(expr, None, {'d': var_d, 'n': var_n}))
            except Exception as exc:  # pylint: disable=broad-except
                out[key] = {'error': type(exc).__name__}
    out.update(iso_block(d, loc))
    return out


# --- host input FORMS for every datetime consumer ------------------------------------------------------------------------

class HostTz(datetime.tzinfo):
    """A host-defined tzinfo (not datetime.timezone, not ZoneInfo): fixed offset."""

    def __init__(self, offset):
        super().__init__()
        self._offset = offset

    def utcoffset(self, dt):
        return self._offset

    def dst(self, dt):
        return None

    def tzname(self, dt):
        return 'HOST'


FORMS_SCRIPT = parser.parse_script(
    'return arrayNew(arrayNew(datetimeYear(d), datetimeMonth(d), datetimeDay(d), datetimeHour(d), datetimeMinute(d), datetimeSecond(d), '
    'datetimeMillisecond(d)), datetimeISOFormat(d), datetimeISOFormat(d, true), stringNew(d), jsonStringify(d), jsonStringify(objectNew("a", arrayNew(d))), '
    'd + n, n + d, d - e, arrayNew(d < e, d <= e, d == e, d != e, d >= e, d > e), datetimeISOFormat(d, false))\n')
EXPR_DIFF = {'binary': {'op': '-', 'left': {'variable': 'd'}, 'right': {'variable': 'e'}}}
CMP_OPS = ['<', '<=', '==', '!=', '>=', '>']


def form_value(form):
    """One host input form -> (value handed to the implementation, reference dict). The reference is written from the POSIX timestamp:
    C localtime() of the instant (and zoneinfo's astimezone() of it as a cross-check) for aware values, the wall time itself for naive
    datetimes and dates. Nothing of bare_script is used here."""
    cls = form.get('cls', 'datetime')
    fold = 1 if form.get('fold') else 0
    tz = form.get('tz')
    if cls in ('date', 'datesub'):
        y, mo, dd = form['wall'][:3]
        d = (HostDate if cls == 'datesub' else datetime.date)(y, mo, dd)
        loc, aware, fold = datetime.datetime(y, mo, dd), False, 0
    elif tz is None:
        y, mo, dd, h, mi, s, us = form['wall']
        d = (HostDatetime if cls == 'sub' else datetime.datetime)(y, mo, dd, h, mi, s, us, fold=fold)
        loc, aware = datetime.datetime(y, mo, dd, h, mi, s, us), False
    else:
        aware = True
        utc_us = form['utc_us']
        if isinstance(tz, str) and tz != 'utc':
            d = (EPOCH1_UTC + datetime.timedelta(microseconds=utc_us)).astimezone(zoneinfo.ZoneInfo(tz))
            if cls == 'sub':
                d = HostDatetime(d.year, d.month, d.day, d.hour, d.minute, d.second, d.microsecond, tzinfo=d.tzinfo, fold=d.fold)
        else:
            if tz == 'utc':
                tzinfo, off_us = UTC, 0
            else:
                off_us = tz['s'] * 10 ** 6 + tz.get('us', 0)
                delta = datetime.timedelta(microseconds=off_us)
                tzinfo = HostTz(delta) if tz.get('custom') else datetime.timezone(delta)
            wall_us = utc_us + off_us
            if not 0 <= wall_us < MAX_US:
                return None, None
            w = datetime.datetime(1, 1, 1) + datetime.timedelta(microseconds=wall_us)
            d = (HostDatetime if cls == 'sub' else datetime.datetime)(w.year, w.month, w.day, w.hour, w.minute, w.second, w.microsecond,
                                                                      tzinfo=tzinfo, fold=fold)
        ts, sub = divmod(utc_us - UNIX_US, 10 ** 6)
        try:
            lt = time.localtime(ts)
            loc = datetime.datetime(lt.tm_year, lt.tm_mon, lt.tm_mday, lt.tm_hour, lt.tm_min, lt.tm_sec, sub)
        except (OverflowError, ValueError, OSError):
            return d, None
        try:
            loc_zi = (EPOCH1_UTC + datetime.timedelta(microseconds=utc_us)).astimezone(Z).replace(tzinfo=None, fold=0)
        except OverflowError:
            loc_zi = None
        fold = 0        # normalisation yields a naive wall time; the first pass of a repeated hour
    zi_ok, _ = zi_exists(loc)
    lc_ok, lc_off = libc_exists(loc)
    off0, off1 = secs(loc.replace(tzinfo=Z, fold=0).utcoffset()), secs(loc.replace(tzinfo=Z, fold=1).utcoffset())
    off = off1 if fold else off0
    agree = zi_ok == lc_ok and lc_off in (off0, off1) and (not aware or loc_zi == loc)
    ref = {'local': parts_floor(loc), 'us': loc.microsecond % 1000,
           'full_us': ((loc.toordinal() - 1) * 86400 + loc.hour * 3600 + loc.minute * 60 + loc.second) * 10 ** 6 + loc.microsecond,
           'off': off, 'exists': bool(zi_ok) and bool(lc_ok), 'agree': bool(agree), 'ambiguous': bool(zi_ok) and off0 != off1,
           'own': None if not aware else [d.year, d.month, d.day]}
    return d, ref


def text_out(v, err):
    return v if isinstance(v, str) else {'error': str(err or type(v).__name__)}


def forms(req):
    built = [form_value(f) for f in req['vals']]
    if any(ref is None for _, ref in built):
        return {'skip': True}
    vals = [d for d, _ in built]
    nv = host_number(req['n'], req.get('nkind', 'float'))
    outs = []
    for i, (d, ref) in enumerate(built):
        e = vals[(i + 1) % len(vals)]
        out = {'ref': ref}
        got = []
        for g in ('datetimeYear', 'datetimeMonth', 'datetimeDay', 'datetimeHour', 'datetimeMinute', 'datetimeSecond', 'datetimeMillisecond'):
            v, err = call(g, [d])
            got.append(num_out(v) if err is None else {'error': err})
        out['get'] = got
        out['text'] = text_out(*call('datetimeISOFormat', [d]))
        out['text_f'] = text_out(*call('datetimeISOFormat', [d, False]))
        out['datetext'] = text_out(*call('datetimeISOFormat', [d, True]))
        out['str'] = text_out(*call('stringNew', [d]))
        out['json'] = text_out(*call('jsonStringify', [d]))
        out['json_n'] = text_out(*call('jsonStringify', [{'a': [d]}]))
        for key, expr, loc_ in (('sum', EXPR_SUM, {'d': d, 'n': nv}), ('sum_r', {'binary': {'op': '+', 'left': {'variable': 'n'}, 'right': {'variable': 'd'}}},
                                                                      {'d': d, 'n': nv})):
            try:
                out[key] = parts_floor(runtime.evaluate_expression(expr, None, loc_))
            except Exception as exc:  # pylint: disable=broad-except
                out[key] = {'error': type(exc).__name__}
        try:
            out['diff'] = num_out(runtime.evaluate_expression(EXPR_DIFF, None, {'d': d, 'e': e}))
        except Exception as exc:  # pylint: disable=broad-except
            out['diff'] = {'error': type(exc).__name__}
        cmp_out = []
        for op in CMP_OPS:
            try:
                cmp_out.append(runtime.evaluate_expression({'binary': {'op': op, 'left': {'variable': 'd'}, 'right': {'variable': 'e'}}}, None, {'d': d, 'e': e}))
            except Exception as exc:  # pylint: disable=broad-except
                cmp_out.append({'error': type(exc).__name__})
        out['cmp'] = cmp_out
        # the same through execute_script with the values as host globals (the runtime's own function-call path)
        try:
            res = runtime.execute_script(FORMS_SCRIPT, {'globals': {'d': d, 'e': e, 'n': nv}, 'maxStatements': 1000})
            if not isinstance(res, list) or len(res) != 11:
                raise TypeError('script result ' + type(res).__name__)
            out['script'] = {'get': [num_out(v) for v in res[0]] if isinstance(res[0], list) else {'error': type(res[0]).__name__},
                             'text': text_out(res[1], None), 'datetext': text_out(res[2], None), 'str': text_out(res[3], None),
                             'json': text_out(res[4], None), 'json_n': text_out(res[5], None), 'sum': parts_floor(res[6]), 'sum_r': parts_floor(res[7]),
                             'diff': num_out(res[8]), 'cmp': res[9], 'text_f': text_out(res[10], None)}
        except Exception as exc:  # pylint: disable=broad-except
            out['script'] = {'error': type(exc).__name__}
        outs.append(out)
    # dataSort on a datetime field holding every form of the request
    sorts = {}
    for name, spec in (('asc', [['t']]), ('desc', [['t', True]])):
        rows = [{'t': d, 'i': i} for i, d in enumerate(vals)]
        res, err = call('dataSort', [rows, spec])
        sorts[name] = [r.get('i') for r in res] if err is None and isinstance(res, list) else {'error': str(err)}
    return {'vals': outs, 'sort': sorts}


def handle(req):
    kind = req['kind']
    if kind == 'forms':
        return forms(req)
    if kind == 'rt':
        d, err = call('datetimeNew', [float(a) for a in req['args']])
        if d is None:
            return {'d': None, 'err': err}
        out = {'d': parts(d)}
        if req.get('us'):
            # a datetime with sub-millisecond precision, as datetimeNow() or the host can produce; `d` stays the value cut to the millisecond
            d = d.replace(microsecond=d.microsecond + req['us'])
        if req.get('fold'):
            d = d.replace(fold=1)       # the host names the second pass of a repeated local time (PEP 495)
        out.update(iso_block(d, d))
        return out
    if kind == 'host':
        return host(req)
    if kind == 'parse':
        text = HostStr(req['text']) if req.get('sub') else req['text']      # a host may hand over its own subclass of str
        try:
            p = value.value_parse_datetime(text)
            out = {'p': parts(p)}
        except Exception as exc:  # pylint: disable=broad-except
            out = {'p': {'error': type(exc).__name__}}
        p2, err = call('datetimeISOParse', [text])
        out['lib'] = parts(p2) if err is None else {'error': err}
        try:
            out['ex'] = parts(runtime.evaluate_expression(EXPR_PARSE, {'globals': dict(FN)}, {'t': text}))
        except Exception as exc:  # pylint: disable=broad-except
            out['ex'] = {'error': type(exc).__name__}
        out['ref'] = ref_offset_at(req['text'])
        return out
    if kind == 'arith':
        return arith(req['args'], req['n'], req.get('as_int', False), req.get('us', 0))
    return {'bad': kind}


def main():
    out = sys.stdout
    for line in sys.stdin:
        line = line.strip()
        if not line:
            continue
        try:
            resp = handle(json.loads(line))
        except Exception as exc:  # pylint: disable=broad-except
            resp = {'worker_error': f'{type(exc).__name__}: {exc}'}
        out.write(json.dumps(resp, ensure_ascii=True))
        out.write('\n')
    out.flush()


if __name__ == '__main__':
    main()
